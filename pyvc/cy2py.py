"""Mechanical Cython -> Python conversion by *deletion only*.

The verified text of a ``.pyx`` file is obtained on every run from the file in
/repo by deleting, and only deleting:

 * whole lines: ``cimport`` statements, ``ctypedef`` lines, ``cnp.import_array()``,
   bare C declarations ``cdef <type> <name>`` (no value),
 * the prefix ``cdef <type>`` (with an optional memoryview suffix ``[:]``,
   ``[:, :]``) of a declaration that has an initialiser:
   ``cdef uint32 n = np.uint32(x)`` becomes ``n = np.uint32(x)``,
 * in a C function definition ``cdef [inline] <type> f(<type> a, <type> *b) nogil:``
   the letter ``c`` of ``cdef``, ``inline``, the return type, the parameter types
   (with pointer stars) and ``nogil``: it becomes ``def f(a, b):`` (a pointer
   parameter is then an array, ``p[i]`` an element access).

``convert`` checks that every output line is the input line, or the input line
with such a prefix removed, and that the result parses as Python; it returns the
text and the list of deletions (reported in the evidence).  Line numbers are
preserved (deleted lines become empty).

What the deletions drop (stated in the evidence of every unit from a .pyx):
C integer typing of the declared locals (``uint32``, ``int``, ``int64``,
``Py_ssize_t``: the engine treats them as mathematical integers; the contracts
carry the range preconditions), typed memoryviews (element access is modelled as
array access with bounds checks, which is Cython's default ``boundscheck=True``),
and the fact that the module is compiled (the running code is the extension
module built from this text; a differential check against it is part of C16's
bounded layer).
"""
from __future__ import annotations

import ast
import re

_TYPE = r"(?:unsigned\s+char|unsigned\s+int|[A-Za-z_][A-Za-z_0-9\.]*)"
_DECL_INIT = re.compile(r"^(\s*)cdef\s+" + _TYPE + r"\s*(\[[:,\s]*\])?\s+([A-Za-z_][A-Za-z_0-9]*\s*=.*)$")
_DECL_BARE = re.compile(r"^\s*cdef\s+" + _TYPE + r"\s*(\[[:,\s]*\])?\s+[A-Za-z_][A-Za-z_0-9]*(\s*,\s*[A-Za-z_][A-Za-z_0-9]*)*\s*$")
#: C function definition: `cdef [inline] <type> name(<typed params>) [nogil]:` (may span lines)
_CFUNC_HEAD = re.compile(r"^(\s*)c(def)\s+(?:inline\s+)?" + _TYPE + r"\s+([A-Za-z_][A-Za-z_0-9]*\s*\(.*)$")
_PARAM_TYPE = re.compile(r"(?<![A-Za-z_0-9])(?:Py_ssize_t|double|float|int|long|unsigned\s+char|unsigned\s+int)"
                         r"(?![A-Za-z_0-9])\s*\*?\s*(?=[A-Za-z_])")
_WHOLE = [re.compile(r"^\s*cimport\s+.*$"), re.compile(r"^\s*from\s+\S+\s+cimport\s+.*$"),
          re.compile(r"^\s*ctypedef\s+.*$"), re.compile(r"^\s*cnp\.import_array\(\)\s*$")]


def _is_subsequence(small, big):
    it = iter(big)
    return all(c in it for c in small)


def convert(text):
    out, dropped = [], []
    in_sig = False
    for no, line in enumerate(text.split("\n"), 1):
        m = _CFUNC_HEAD.match(line) if not in_sig else None
        if m or in_sig:
            # C function signature: 'c' of cdef, 'inline', the return type, the parameter
            # types (incl. pointer stars) and 'nogil' are deleted
            if m:
                new = m.group(1) + "def " + m.group(3)
            else:
                new = line
            new = _PARAM_TYPE.sub("", new)
            new = re.sub(r"\)\s*nogil\s*:", "):", new)
            in_sig = not new.rstrip().endswith(":")
            if new != line:
                dropped.append(f"line {no}: C function signature: '{line.strip()}' -> '{new.strip()}'")
            out.append(new)
            continue
        if any(r.match(line) for r in _WHOLE) or _DECL_BARE.match(line):
            dropped.append(f"line {no} deleted: {line.strip()}")
            out.append("")
            continue
        m = _DECL_INIT.match(line)
        if m:
            new = m.group(1) + m.group(3)
            dropped.append(f"line {no}: C declaration prefix deleted: '{line.strip()}' -> '{new.strip()}'")
            out.append(new)
            continue
        out.append(line)
    res = "\n".join(out)
    # deletion-only check, line by line
    for a, b in zip(res.split("\n"), text.split("\n")):
        if a != b and not (a == "" or _is_subsequence(a, b)):
            raise ValueError(f"cy2py: not a pure deletion: {b!r} -> {a!r}")
    if "cdef" in re.sub(r"#.*", "", res) or "cimport" in re.sub(r"#.*", "", res):
        raise ValueError("cy2py: Cython constructs outside the accepted subset remain")
    ast.parse(res)
    return res, dropped


if __name__ == "__main__":
    import sys
    t, d = convert(open(sys.argv[1]).read())
    print("\n".join(d))
