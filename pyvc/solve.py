"""Discharge obligations: z3 first (per obligation, process pool), cvc5 for the
ones z3 leaves unknown; in the thorough tier cvc5 cross-checks every obligation
that it can parse.  A verdict is one of

  unsat    obligation discharged
  sat      counterexample (model returned as {name: value-string})
  unknown  neither solver decided within the budget
"""
from __future__ import annotations

import multiprocessing as mp
import os
import subprocess
import tempfile
import time

import z3


def _run_z3(args):
    smt2, timeout_ms, want_model = args
    t0 = time.time()
    try:
        s = z3.Solver()
        s.set("timeout", timeout_ms)
        s.from_string(smt2)
        r = s.check()
        model = None
        if r == z3.sat and want_model:
            m = s.model()
            model = {}
            for d in m.decls():
                try:
                    model[d.name()] = str(m[d])
                except Exception:
                    pass
        reason = s.reason_unknown() if r == z3.unknown else ""
        return (str(r), model, round(time.time() - t0, 3), reason)
    except Exception as ex:   # pragma: no cover
        return ("error", None, round(time.time() - t0, 3), f"z3 error: {ex}")


def _run_cvc5(args):
    smt2, timeout_ms = args
    t0 = time.time()
    with tempfile.NamedTemporaryFile("w", suffix=".smt2", delete=False) as fh:
        fh.write("(set-logic ALL)\n" + smt2)
        name = fh.name
    try:
        p = subprocess.run(["/usr/bin/cvc5", "--strings-exp", f"--tlimit={timeout_ms}", name],
                           capture_output=True, text=True, timeout=timeout_ms / 1000 + 5)
        out = p.stdout.strip().splitlines()
        r = out[0] if out else "unknown"
        if r not in ("sat", "unsat"):
            r = "unknown"
        return (r, round(time.time() - t0, 3), (p.stderr or "")[:200])
    except Exception as ex:
        return ("unknown", round(time.time() - t0, 3), str(ex)[:200])
    finally:
        os.unlink(name)


_pool = None


def pool():
    global _pool
    if _pool is None:
        n = int(os.environ.get("VERIF_JOBS", "0")) or min(16, os.cpu_count() or 4)
        _pool = mp.get_context("fork").Pool(n)
    return _pool


def close_pool():
    global _pool
    if _pool is not None:
        _pool.terminate()
        _pool = None


def discharge(obligations, timeout_ms=10000, cross_check=False):
    """returns list of result dicts aligned with obligations"""
    results = [None] * len(obligations)
    jobs = []
    for i, ob in enumerate(obligations):
        if z3.is_true(ob.goal):
            results[i] = {"verdict": "unsat", "backend": "trivial", "time_s": 0.0}
        elif ob.kind == "canary":
            jobs.append((i, ob.smt2(), min(timeout_ms, 5000), False))
        else:
            jobs.append((i, ob.smt2(), timeout_ms, True))
    # stage 0: try the quantifier-free part of the path condition first (fewer
    # hypotheses is still a proof; these queries are fast and stable)
    pre = []
    for (i, smt2, to, wm) in jobs:
        ob = obligations[i]
        if ob.kind != "canary" and ob.has_quantified_pc():
            pre.append((i, ob.smt2(qf_only=True)))
    if pre:
        outs0 = pool().map(_run_z3, [(p[1], min(timeout_ms, 4000), False) for p in pre], chunksize=1)
        done = set()
        for (i, _), (r, model, t, reason) in zip(pre, outs0):
            if r == "unsat":
                results[i] = {"verdict": "unsat", "backend": "z3", "time_s": t,
                              "note": "discharged from the quantifier-free part of the path condition"}
                done.add(i)
        jobs = [j for j in jobs if j[0] not in done]
    if jobs:
        outs = pool().map(_run_z3, [(j[1], j[2], j[3]) for j in jobs], chunksize=1)
        retry = []
        for (i, smt2, to, wm), (r, model, t, reason) in zip(jobs, outs):
            results[i] = {"verdict": r, "backend": "z3", "time_s": t, "model": model,
                          "reason": reason}
            if r == "error":
                raise RuntimeError(f"solver could not read obligation {obligations[i].key}: {reason}")
            if r == "unknown" and obligations[i].kind != "canary":
                retry.append((i, smt2, to))
            elif cross_check and r == "unsat" and obligations[i].kind != "canary":
                retry.append((i, smt2, to))
        # z3 verdicts can flip to unknown when all cores are busy: one more
        # attempt with a longer budget before the second back end is consulted
        again = [(i, smt2, to) for (i, smt2, to) in retry if results[i]["verdict"] == "unknown"]
        if again:
            outs2 = pool().map(_run_z3, [(j[1], j[2] * 3, True) for j in again], chunksize=1)
            for (i, smt2, to), (r, model, t, reason) in zip(again, outs2):
                results[i]["time_s"] += t
                if r in ("sat", "unsat"):
                    results[i].update({"verdict": r, "model": model, "reason": "", "retried": True})
            retry = [x for x in retry if results[x[0]]["verdict"] == "unknown" or cross_check]
        if retry:
            outs = pool().map(_run_cvc5, [(j[1], j[2]) for j in retry], chunksize=1)
            for (i, smt2, to), (r, t, err) in zip(retry, outs):
                res = results[i]
                if res["verdict"] == "unknown":
                    if r in ("sat", "unsat"):
                        res.update({"verdict": r, "backend": "cvc5", "time_s": res["time_s"] + t})
                    else:
                        res["cvc5"] = "unknown"
                else:
                    res["cvc5"] = r
                    res["cvc5_time_s"] = t
                    if r == "sat":
                        # disagreement between the two solvers: never silently accept
                        res["verdict"] = "unknown"
                        res["reason"] = "z3 says unsat, cvc5 says sat"
    return results
