"""Discharge obligations: z3 first (per obligation, process pool), cvc5 for the
ones z3 leaves unknown; in the thorough tier cvc5 cross-checks every obligation
that it can parse.  A verdict is one of

  unsat    obligation discharged
  sat      counterexample (model returned as {name: value-string})
  unknown  neither solver decided within the budget
"""
from __future__ import annotations

import multiprocessing as mp
import os
import subprocess
import tempfile
import time

import z3


def _run_z3(args):
    smt2, timeout_ms, want_model = args[:3]
    seed = args[3] if len(args) > 3 else None
    t0 = time.time()
    try:
        # a context of its own: the same text then gives the same run, whatever this
        # process has parsed or solved before (term numbering steers z3's heuristics)
        s = z3.Solver(ctx=z3.Context())
        s.set("timeout", timeout_ms)
        if seed is not None:
            # the retry uses other random seeds: a query that was unlucky once is usually not unlucky twice
            s.set("random_seed", seed)
        s.from_string(smt2)
        r = s.check()
        model = None
        if r == z3.sat and want_model:
            m = s.model()
            model = {}
            for d in m.decls():
                try:
                    model[d.name()] = str(m[d])
                except Exception:
                    pass
        reason = s.reason_unknown() if r == z3.unknown else ""
        return (str(r), model, round(time.time() - t0, 3), reason)
    except Exception as ex:   # pragma: no cover
        return ("error", None, round(time.time() - t0, 3), f"z3 error: {ex}")


def _parse_cvc5_model(text):
    """constants of sort String/Int/Bool/Real from cvc5's (get-model) output"""
    import re
    model = {}
    for m in re.finditer(r'\(define-fun\s+(\|[^|]*\||\S+)\s+\(\)\s+(\w+)\s+(.*?)\)\s*$', text, re.M):
        name, sort, val = m.group(1).strip("|"), m.group(2), m.group(3).strip()
        if sort == "String" and val.startswith('"'):
            v = val[1:-1].replace('""', '"')
            v = re.sub(r'\\u\{([0-9a-fA-F]+)\}', lambda q: chr(int(q.group(1), 16)), v)
            model[name] = '"' + v + '"'
        elif sort == "Int":
            mm = re.fullmatch(r'\(-\s*(\d+)\)', val)
            model[name] = ("-" + mm.group(1)) if mm else val
        elif sort in ("Bool", "Real"):
            model[name] = val
    return model


def _run_cvc5(args):
    smt2, timeout_ms = args
    t0 = time.time()
    with tempfile.NamedTemporaryFile("w", suffix=".smt2", delete=False) as fh:
        fh.write("(set-logic ALL)\n(set-option :produce-models true)\n" + smt2 + "\n(get-model)\n")
        name = fh.name
    try:
        p = subprocess.run(["/usr/bin/cvc5", "--strings-exp", f"--tlimit={timeout_ms}", name],
                           capture_output=True, text=True, timeout=timeout_ms / 1000 + 5)
        out = p.stdout.strip().splitlines()
        r = out[0] if out else "unknown"
        if r not in ("sat", "unsat"):
            r = "unknown"
        if r == "sat":
            return (r, round(time.time() - t0, 3), _parse_cvc5_model(p.stdout))
        return (r, round(time.time() - t0, 3), (p.stderr or "")[:200])
    except Exception as ex:
        return ("unknown", round(time.time() - t0, 3), str(ex)[:200])
    finally:
        os.unlink(name)


_pool = None


def _child(fn, args, conn):
    try:
        conn.send(fn(args))
    except Exception as ex:   # pragma: no cover
        conn.send(("error", None, 0.0, str(ex)))
    finally:
        conn.close()


class _HardPool:
    """map() over a thread pool in which every task runs in its own forked
    process that is killed when it exceeds its budget: z3's own time limit is not
    honoured by every theory (strings, nonlinear arithmetic), a hard kill is."""

    def __init__(self, n):
        from multiprocessing.pool import ThreadPool
        self.tp = ThreadPool(n)
        self.ctx = mp.get_context("fork")

    def _one(self, job):
        fn, args, budget_s = job
        parent, child = self.ctx.Pipe(duplex=False)
        p = self.ctx.Process(target=_child, args=(fn, args, child))
        t0 = time.time()
        p.start()
        child.close()
        res = None
        try:
            if parent.poll(budget_s):
                res = parent.recv()
        except (EOFError, OSError):
            res = None
        if p.is_alive():
            p.terminate()
            p.join(1)
            if p.is_alive():
                p.kill()
        p.join(1)
        parent.close()
        if res is None:
            if fn is _run_cvc5:
                return ("unknown", round(time.time() - t0, 3), "killed after hard timeout")
            return ("unknown", None, round(time.time() - t0, 3), "killed after hard timeout")
        return res

    def map(self, fn, argslist, chunksize=1):
        jobs = []
        for a in argslist:
            to_ms = a[1]
            jobs.append((fn, a, to_ms / 1000.0 + 3.0))
        return self.tp.map(self._one, jobs, chunksize=1)

    def terminate(self):
        self.tp.terminate()


class _Hybrid:
    """ordinary process pool for ordinary queries; queries whose text mentions
    strings go to the hard-kill pool"""

    def __init__(self, n):
        self.fast = mp.get_context("fork").Pool(n)
        self.hard = _HardPool(n)

    def map(self, fn, argslist, chunksize=1):
        argslist = list(argslist)
        risky = [i for i, a in enumerate(argslist) if "String" in a[0] or "str." in a[0]]
        rs = set(risky)
        safe = [i for i in range(len(argslist)) if i not in rs]
        out = [None] * len(argslist)
        r_async = None
        if safe:
            r_async = self.fast.map_async(fn, [argslist[i] for i in safe], chunksize=1)
        if risky:
            for i, r in zip(risky, self.hard.map(fn, [argslist[i] for i in risky])):
                out[i] = r
        if r_async is not None:
            for i, r in zip(safe, r_async.get()):
                out[i] = r
        return out

    def terminate(self):
        self.fast.terminate()
        self.hard.terminate()


def pool():
    global _pool
    if _pool is None:
        n = int(os.environ.get("VERIF_JOBS", "0")) or min(16, os.cpu_count() or 4)
        _pool = _Hybrid(n)
    return _pool


def close_pool():
    global _pool
    if _pool is not None:
        _pool.terminate()
        _pool = None


def discharge(obligations, timeout_ms=10000, cross_check=False):
    """returns list of result dicts aligned with obligations"""
    results = [None] * len(obligations)
    jobs = []
    for i, ob in enumerate(obligations):
        if z3.is_true(ob.goal):
            results[i] = {"verdict": "unsat", "backend": "trivial", "time_s": 0.0}
        elif ob.kind == "canary":
            jobs.append((i, ob.smt2(), min(timeout_ms, 5000), False))
        else:
            jobs.append((i, ob.smt2(), timeout_ms, True))
    # stage 0: try the quantifier-free part of the path condition first (fewer
    # hypotheses is still a proof; these queries are fast and stable)
    pre = []
    for (i, smt2, to, wm) in jobs:
        ob = obligations[i]
        if ob.kind == "canary":
            continue
        if z3.is_false(ob.goal):
            continue       # "this path is infeasible": needs the whole path condition
        sl, n = ob.smt2_sliced()
        if n < len(ob.pc):
            pre.append((i, sl, "cone of influence of the goal"))
        if ob.has_quantified_pc():
            pre.append((i, ob.smt2(qf_only=True), "quantifier-free part of the path condition"))
    if pre:
        outs0 = pool().map(_run_z3, [(p[1], min(timeout_ms, 4000), False) for p in pre], chunksize=1)
        done = set()
        for (i, _, how), (r, model, t, reason) in zip(pre, outs0):
            if r == "unsat" and i not in done:
                results[i] = {"verdict": "unsat", "backend": "z3", "time_s": t,
                              "note": "discharged from the " + how}
                done.add(i)
        jobs = [j for j in jobs if j[0] not in done]
    if jobs:
        outs = pool().map(_run_z3, [(j[1], j[2], j[3]) for j in jobs], chunksize=1)
        retry = []
        for (i, smt2, to, wm), (r, model, t, reason) in zip(jobs, outs):
            results[i] = {"verdict": r, "backend": "z3", "time_s": t, "model": model,
                          "reason": reason}
            if r == "error":
                raise RuntimeError(f"solver could not read obligation {obligations[i].key}: {reason}")
            if r == "unknown" and obligations[i].kind != "canary":
                retry.append((i, smt2, to))
            elif cross_check and r == "unsat" and obligations[i].kind != "canary":
                retry.append((i, smt2, to))
        # z3 verdicts can flip to unknown when all cores are busy: one more
        # attempt with a longer budget before the second back end is consulted
        again = [(i, smt2, to) for (i, smt2, to) in retry if results[i]["verdict"] == "unknown"]
        if again:
            outs2 = pool().map(_run_z3, [(j[1], j[2] * 3, True, 17) for j in again], chunksize=1)
            for (i, smt2, to), (r, model, t, reason) in zip(again, outs2):
                results[i]["time_s"] += t
                if r == "error":
                    raise RuntimeError(f"solver could not run the retry of {obligations[i].key}: {reason[:200]}")
                if r in ("sat", "unsat"):
                    results[i].update({"verdict": r, "model": model, "reason": "", "retried": True})
            retry = [x for x in retry if results[x[0]]["verdict"] == "unknown" or cross_check]
        if retry:
            outs = pool().map(_run_cvc5, [(j[1], max(30000, 3 * j[2])) for j in retry], chunksize=1)
            for (i, smt2, to), (r, t, err) in zip(retry, outs):
                res = results[i]
                if res["verdict"] == "unknown":
                    if r in ("sat", "unsat"):
                        res.update({"verdict": r, "backend": "cvc5", "time_s": res["time_s"] + t})
                        if r == "sat" and isinstance(err, dict):
                            res["model"] = err
                    else:
                        res["cvc5"] = "unknown"
                else:
                    res["cvc5"] = r
                    res["cvc5_time_s"] = t
                    if r == "sat":
                        # disagreement between the two solvers: never silently accept
                        res["verdict"] = "unknown"
                        res["reason"] = "z3 says unsat, cvc5 says sat"
    return results
