"""Ghost state of the file system for typestate obligations (property C10).

Every modelled file-system operation (open / write / close of an HDF5 file,
rename, unlink, mkdir) is routed through :func:`event`.  When the unit under
verification has an ``fs_spec`` the event

1. produces the obligations of the spec's rules for this operation (checked
   *before* the operation takes effect: this is also the state a process killed
   immediately before the operation leaves behind),
2. may fail: a fresh boolean ``fault@k`` decides whether the operation raises
   OSError instead of taking effect (fault injection at every operation, at most
   ``max_faults`` per path; after a fault the code under verification runs its
   own exception handling),
3. updates the ghost state (open handles, faults so far, renames).

Rules (spec: properties.jsonl C10), with roles of a path given by the unit's
``fs_spec.role(path) -> (is_in, is_out, is_tmp)`` (z3 booleans):

 W  a file is opened write-capable only if it is a temporary name and neither an
    input nor a requested output
 U  unlink / rename never touch an input
 R  rename(src -> requested output) only when no handle on src is open and no
    operation has failed before on this path (a swallowed failure would publish
    an incomplete file)
"""
from __future__ import annotations

import z3

from .sym import SObj


class FsGhost:
    def __init__(self, spec):
        self.spec = spec
        self.handles = []      # [dict(id, path, mode)]
        self.events = []
        self.faults = []       # descriptions of injected faults
        self.nops = 0
        self.renamed = []
        self.max_faults = getattr(spec, "max_faults", 1)

    def signature(self):
        return (tuple((id(h["obj"]), str(h["path"]), h["mode"]) for h in self.handles), len(self.faults))


def ghost_of(ctx):
    g = ctx.__dict__.get("fsg")
    if g is None:
        spec = getattr(ctx.unit, "fs_spec", None)
        if spec is None:
            return None
        g = ctx.fsg = FsGhost(spec)
    return g


def _same_path(a, b):
    """z3 formula / bool: do a and b denote the same path?"""
    if isinstance(a, SObj) or isinstance(b, SObj):
        return a is b
    try:
        import os
        return os.fspath(a) == os.fspath(b)
    except TypeError:
        return a is b


def event(interp, kind, path, obj=None, mode=None, target=None, detail="", can_fail=None):
    from .engine import PyRaise
    ctx = interp.ctx
    log = ctx.__dict__.setdefault("fs_log", [])
    g = ghost_of(ctx)
    if g is None:
        if kind == "rename":
            log.append(("rename", path, target))
        elif kind in ("unlink", "mkdir"):
            log.append((kind, path))
        elif kind == "open":
            log.append(("open", path, mode))
        return
    spec = g.spec
    line = getattr(getattr(interp, "cur_node", None), "lineno", 0)
    is_in, is_out, is_tmp = spec.role(ctx, path)
    desc = f"{kind}({spec.show(path)}" + (f" -> {spec.show(target)}" if target is not None else "") \
        + (f", mode={mode!r}" if mode else "") + (f": {detail}" if detail else "") + ")"
    writing = kind in ("write", "close") or (kind == "open" and mode not in ("r", "rb"))
    if kind == "open" and mode not in ("r", "rb") or kind == "write":
        ctx.check(z3.And(is_tmp, z3.Not(is_in), z3.Not(is_out)),
                  f"fs[W]: {desc} writes only under a temporary name, never to an input or a requested output",
                  line, kind="fs")
    if kind == "unlink":
        ctx.check(z3.Not(is_in), f"fs[U]: {desc} does not remove an input", line, kind="fs")
    if kind == "rename":
        t_in, t_out, t_tmp = spec.role(ctx, target)
        ctx.check(z3.And(z3.Not(is_in), z3.Not(t_in)), f"fs[U]: {desc} does not move or replace an input",
                  line, kind="fs")
        open_on_src = [h for h in g.handles if _same_path(h["path"], path) is not False]
        ok = z3.BoolVal(not open_on_src and not g.faults)
        why = []
        if open_on_src:
            why.append("a handle on the source is still open")
        if g.faults:
            why.append("an earlier operation failed: " + g.faults[0])
        ctx.check(z3.Implies(t_out, ok),
                  f"fs[R]: {desc} publishes a closed, completely written file"
                  + (" [" + "; ".join(why) + "]" if why else ""), line, kind="fs")
    # ---- fault injection
    if can_fail is None:
        can_fail = writing or kind in ("rename",)
    g.nops += 1
    if can_fail and len(g.faults) < g.max_faults and getattr(spec, "inject", True):
        b = ctx.bool(f"fault@{g.nops}:{kind}", inp=True)
        if ctx.decide(b):
            g.faults.append(desc)
            g.events.append(("FAULT", desc))
            if kind == "close":
                # a failing close still releases the handle
                g.handles = [h for h in g.handles if h["obj"] is not obj]
            raise PyRaise(OSError, (f"injected I/O error in {desc}",), getattr(interp, "cur_node", None))
    # ---- effect
    g.events.append((kind, path, target, mode, detail))
    if kind == "open":
        g.handles.append({"obj": obj, "path": path, "mode": mode})
        log.append(("open", path, mode))
    elif kind == "close":
        g.handles = [h for h in g.handles if h["obj"] is not obj]
    elif kind == "rename":
        g.renamed.append((path, target))
        log.append(("rename", path, target))
    elif kind in ("unlink", "mkdir"):
        log.append((kind, path))


def stable_inv(ctx, tag):
    """loop invariant 'the loop body leaves the ghost file-system state (open
    handles, number of failed operations) as it found it'"""
    g = ghost_of(ctx)
    if g is None:
        return []
    store = ctx.__dict__.setdefault("_fs_inv", {})
    sig = g.signature()
    if tag not in store:
        store[tag] = sig
    ok = store[tag] == sig
    why = ""
    if not ok:
        if store[tag][1] != sig[1]:
            why = " [a failed operation was swallowed inside the loop: " + g.faults[-1] + "]"
        else:
            why = " [the set of open handles changed]"
    return [("the loop body leaves open handles and the failure count unchanged" + why, z3.BoolVal(ok))]
