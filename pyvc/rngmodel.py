"""Models used by the downsampling contracts (C16): numpy's global random state
as ghost typestate, ``choice`` without replacement (N-CHOICE), counting facts for
boolean masks (N-COUNT-*), a 2-D occupancy grid, min()/max() of real arrays and
the float -> uint32 cast.

Counting facts are stated over count(m) := len(np.where(m)[0]) (the length of the
rank/select enumeration of N-WHERE).  They are combinatorial facts about finite
sets, not derivable by the solver from N-WHERE without induction; each is
audited by exhaustive enumeration of all masks up to length 7 on real numpy
(contracts/C16.py: audit_axioms).

 N-COUNT-COMPL    count(~m) == len(m) - count(m)
 N-COUNT-FLIP     m' = m with m[ids] = v, ids pairwise distinct, in range and
                  m[ids[j]] == not v for all j  ==>  count(m') == count(m) +- len(ids)
 N-COUNT-MASKSET  o' = o with o[mask] = v (boolean v, len(v) == count(mask)) and o
                  False outside mask  ==>  count(o') == count(v) and
                  where(o')[i] == where(mask)[where(v)[i]] for all i < count(v)
 N-CHOICE         np.random.choice(pop, size=k, replace=False): raises ValueError
                  unless k <= len(pop); otherwise k entries pop[pick(i)] with pick
                  injective into [0, len(pop)); if pop is strictly increasing the
                  entries are pairwise distinct
 A-RNG            the result of a draw is a function of the generator state and
                  the arguments; set_state(s) makes the state equal to s
"""
from __future__ import annotations

import numpy as np
import z3

from . import models, npmodel
from .models import axiom, arr_new, model, arr_method
from .sym import SArr, SInt, SObj, SReal, Z, to_z3, wrap, is_sym


def _eng():
    from . import engine
    return engine


def count(interp, m):
    return models.where_idx(interp, m).n


# ------------------------------------------------------------------ random state
@model(np.random.RandomState)
def _random_state(interp, seed=None):
    if is_sym(seed) or seed is None:
        raise _eng().Unsupported("RandomState with a non-literal seed")
    return interp.ctx.obj("RandomState", {"seed": seed})


def _rs_get_state(interp, rs):
    return interp.ctx.obj("RngState", {"seed": rs.fields["seed"]})


from . import h5model   # noqa: E402  (object method registry)
h5model.OBJ_METHODS[("RandomState", "get_state")] = _rs_get_state


@model(np.random.set_state)
def _set_state(interp, st):
    axiom("A-RNG (a draw is a function of the generator state and its arguments)")
    if not (isinstance(st, SObj) and st.clsname == "RngState"):
        raise _eng().Unsupported("set_state with an unknown state")
    interp.ctx.rng = ("seeded", st.fields["seed"])
    return None


@model(np.random.choice)
def _choice(interp, a, size=None, replace=True, p=None):
    eng = _eng()
    ctx = interp.ctx
    if replace is not False or p is not None or size is None:
        raise eng.Unsupported("np.random.choice other than (a, size, replace=False)")
    if not isinstance(a, SArr) or a.kind != "int":
        raise eng.Unsupported("np.random.choice from a non-array population")
    axiom("N-CHOICE")
    # reproducibility (A-RNG): the draw must start from the fixed generator state
    st = ctx.__dict__.get("rng")
    ctx.check(z3.BoolVal(st is not None and st[0] == "seeded"),
              "the global generator is set to the fixed state immediately before this draw (reproducible selection)",
              kind="det")
    ctx.rng = ("consumed",)
    k = to_z3(size)
    if ctx.decide(wrap(z3.Or(k > a.n, k < 0))):
        raise eng.PyRaise(ValueError, ("Cannot take a larger sample than population when 'replace=False'",))
    r = ctx.arr("chosen", "int", n=k)
    pick = z3.Function(ctx._name("pick"), z3.IntSort(), z3.IntSort())
    i, j = z3.Int("i!ch"), z3.Int("j!ch")
    ctx.assume(z3.ForAll([i], z3.Implies(z3.And(i >= 0, i < k),
                                         z3.And(pick(i) >= 0, pick(i) < a.n, r.sel(i) == a.sel(pick(i))))))
    ctx.assume(z3.ForAll([i, j], z3.Implies(z3.And(i >= 0, i < j, j < k), pick(i) != pick(j))))
    # strictly increasing population (arange, np.where): pairwise distinct entries
    p_, q_ = z3.Int("p!ch"), z3.Int("q!ch")
    incr = z3.ForAll([p_, q_], z3.Implies(z3.And(p_ >= 0, p_ < q_, q_ < a.n), a.sel(p_) < a.sel(q_)))
    ctx.assume(z3.Implies(incr, z3.ForAll([i, j], z3.Implies(z3.And(i >= 0, i < j, j < k),
                                                             r.sel(i) != r.sel(j)))))
    r.chosen_from = a
    r.pick = pick
    return r


# ------------------------------------------------------------ counting of masks
def note_complement(interp, m, res):
    """N-COUNT-COMPL for res == ~m"""
    axiom("N-COUNT-COMPL")
    ctx = interp.ctx
    ctx.assume(count(interp, res) == z3.If(m.n >= 0, m.n, Z(0)) - count(interp, m))


def fancy_store_count(interp, obj, old, ids, val):
    """N-COUNT-FLIP after obj[ids] = val (obj boolean; `old` is a snapshot of the
    array before the store)"""
    axiom("N-COUNT-FLIP")
    ctx = interp.ctx
    i, j = z3.Int("i!fc"), z3.Int("j!fc")
    v = to_z3(val, "bool")
    distinct = z3.ForAll([i, j], z3.Implies(z3.And(i >= 0, i < j, j < ids.n), ids.sel(i) != ids.sel(j)))
    flips = z3.ForAll([i], z3.Implies(z3.And(i >= 0, i < ids.n), old.sel(ids.sel(i)) == z3.Not(v)))
    c_old, c_new = count(interp, old), count(interp, obj_snapshot(obj))
    ctx.assume(z3.Implies(z3.And(distinct, flips),
                          c_new == z3.If(v, c_old + ids.n, c_old - ids.n)))


def obj_snapshot(a):
    return SArr(a.n, a.a, a.kind) if a.base is None else a


def mask_store_count(interp, obj, old, mask, v):
    """N-COUNT-MASKSET after obj[mask] = v"""
    axiom("N-COUNT-MASKSET")
    ctx = interp.ctx
    k = z3.Int("k!ms")
    outside_false = z3.ForAll([k], z3.Implies(z3.And(k >= 0, k < old.n, z3.Not(mask.sel(k))), z3.Not(old.sel(k))))
    new = obj_snapshot(obj)
    w_new, w_mask, w_v = models.where_idx(interp, new), models.where_idx(interp, mask), models.where_idx(interp, v)
    i = z3.Int("i!ms")
    # ... and the enumeration of the result is the composition of the two enumerations
    ctx.assume(z3.Implies(outside_false,
                          z3.And(w_new.n == w_v.n,
                                 z3.ForAll([i], z3.Implies(z3.And(i >= 0, i < w_v.n),
                                                           w_new.sel(i) == w_mask.sel(w_v.sel(i)))))))


_prev_setitem = models.arr_setitem


def _arr_setitem(interp, obj, key, v):
    """boolean arrays: attach the counting facts to fancy and masked stores"""
    if isinstance(key, SArr) and key.kind == "int" and isinstance(v, SArr) \
            and getattr(key, "of_mask", None) is not None:
        # obj[np.where(m)[0]] = v  is  obj[m] = v  (N-WHERE: the enumeration of m)
        key = key.of_mask
    track = isinstance(obj, SArr) and obj.kind == "bool" and obj.base is None \
        and getattr(getattr(interp.cur_frame, "unit", None), "count_masks", False)
    if track and isinstance(key, SArr) and key.kind in ("int", "bool"):
        old = SArr(obj.n, obj.a, "bool")
        r = _prev_setitem(interp, obj, key, v)
        if key.kind == "int" and not isinstance(v, SArr):
            fancy_store_count(interp, obj, old, key, v)
        elif key.kind == "bool" and isinstance(v, SArr) and v.kind == "bool":
            mask_store_count(interp, obj, old, key, SArr(v.n, v.a, "bool"))
        elif key.kind == "bool" and not isinstance(v, SArr):
            # obj[mask] = False / True: elementwise definition suffices with N-WHERE-EXT
            pass
        return r
    return _prev_setitem(interp, obj, key, v)


models.arr_setitem = _arr_setitem


# ------------------------------------------------------------------ occupancy grid
def new_grid(interp, h, w, fill, kind="int"):
    ctx = interp.ctx
    flat = arr_new(interp, Z(h * w), lambda k: to_z3(fill, kind), kind)
    return ctx.obj("Grid2D", {"h": h, "w": w, "flat": flat}, name="grid")


def _grid_index(interp, g, key):
    eng = _eng()
    if not (isinstance(key, tuple) and len(key) == 2):
        raise eng.Unsupported("grid access other than [x, y]")
    x, y = to_z3(key[0]), to_z3(key[1])
    h, w = g.fields["h"], g.fields["w"]
    # Cython memoryviews (boundscheck=True, wraparound=True) raise IndexError
    ok = z3.And(x >= -h, x < h, y >= -w, y < w)
    if interp.ctx.decide(wrap(z3.Not(ok))):
        raise eng.PyRaise(IndexError, ("Out of bounds on buffer access",))
    x = z3.If(x < 0, x + h, x)
    y = z3.If(y < 0, y + w, y)
    return x * w + y


def _grid_getitem(interp, g, key):
    return wrap(g.fields["flat"].sel(_grid_index(interp, g, key)))


def _grid_setitem(interp, g, key, v):
    i = _grid_index(interp, g, key)
    interp.heap_write(g)
    flat = g.fields["flat"]
    flat.store(i, to_z3(v, flat.kind))
    return None


h5model.OBJ_METHODS[("Grid2D", "__getitem__")] = _grid_getitem
h5model.OBJ_METHODS[("Grid2D", "__setitem__")] = _grid_setitem

_prev_ones = models._MODELS[np.ones]


def _ones(interp, shape, dtype=float, **kw):
    if isinstance(shape, tuple) and len(shape) == 2 and all(isinstance(s, int) for s in shape) \
            and getattr(getattr(interp.cur_frame, "unit", None), "grid2d", False):
        return new_grid(interp, shape[0], shape[1], 1)
    return _prev_ones(interp, shape, dtype=dtype, **kw)


models._MODELS[np.ones] = _ones


# ------------------------------------------------------------- min / max of arrays
def _extreme(interp, a, is_min):
    eng = _eng()
    ctx = interp.ctx
    if a.kind not in ("real", "int"):
        raise eng.Unsupported("min/max of a " + a.kind + " array")
    if ctx.decide(wrap(a.n <= 0)):
        raise eng.PyRaise(ValueError, ("zero-size array to reduction operation which has no identity",))
    axiom("N-EXTREME (min/max of a non-empty array: a bound that is attained)")
    m = ctx.real("amin" if is_min else "amax") if a.kind == "real" else ctx.int("amin" if is_min else "amax")
    k = z3.Int("k!mm")
    w = ctx.int("witness")
    ctx.assume(z3.And(w.e >= 0, w.e < a.n, a.sel(w.e) == m.e))
    ctx.assume(z3.ForAll([k], z3.Implies(z3.And(k >= 0, k < a.n), (m.e <= a.sel(k)) if is_min else (m.e >= a.sel(k)))))
    return m


@arr_method("min")
def _arr_min(interp, a, *args, **kw):
    return _extreme(interp, a, True)


@arr_method("max")
def _arr_max(interp, a, *args, **kw):
    return _extreme(interp, a, False)


# --------------------------------------------------------- float -> uint32 cast
UNDEF_CAST = z3.Function("cast_out_of_range", z3.RealSort(), z3.IntSort())


def cast_real_to_uint(interp, a, bits=32):
    """N-CAST-UINT: C conversion of a float array to an unsigned integer type:
    truncation for values in [0, 2**bits); anything else (also NaN, which the real
    sort cannot represent: an undefined quotient) is an unspecified value"""
    axiom("N-CAST-UINT (float -> unsigned: truncation inside the range, unspecified outside)")
    hi = 2 ** bits

    def fn(k):
        x = a.sel(k)
        return z3.If(z3.And(x >= 0, x < hi), z3.ToInt(x), UNDEF_CAST(x))
    return arr_new(interp, a.n, fn, "int")


_prev_asarray = models._MODELS[np.array]


def _np_array(interp, obj, dtype=None, **kw):
    if isinstance(obj, SArr) and obj.kind == "real" and dtype is np.uint32:
        r = cast_real_to_uint(interp, obj, 32)
        r.dtype = np.dtype("uint32")
        return r
    if isinstance(obj, SArr) and obj.kind == "int" and dtype is bool:
        return npmodel.cast_arr(interp, obj, "bool")
    return _prev_asarray(interp, obj, dtype=dtype, **kw)


models._MODELS[np.array] = _np_array
