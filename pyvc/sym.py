"""Symbolic value types of the pyvc verification-condition generator.

Everything the symbolic executor (engine.py) manipulates is either an ordinary
Python value (concrete) or one of the wrappers below around z3 terms.

Semantics assumed (reported as trusted base in every evidence file):
  * Python ``int``  -> mathematical integers (exact).
  * Python ``float``-> real numbers (assumption A-FP); sort ``F`` adds NaN/inf
                       explicitly where a property speaks about them.
  * ``//`` and ``%`` follow Python's floor semantics for any sign.
"""
from __future__ import annotations

import itertools
import z3

Z = z3.IntVal


# --------------------------------------------------------------------------
# sorts
# --------------------------------------------------------------------------
Elem = z3.DeclareSort("Elem")          # opaque event payload (image, trace...)

_F = z3.Datatype("F")
_F.declare("fin", ("val", z3.RealSort()))
_F.declare("nan")
_F.declare("pinf")
_F.declare("ninf")
F = _F.create()


def sort_of(kind):
    return {"int": z3.IntSort(), "real": z3.RealSort(), "bool": z3.BoolSort(),
            "F": F, "elem": Elem, "str": z3.StringSort()}[kind]


class Sym:
    """base class of all symbolic wrappers"""
    __slots__ = ()


def is_sym(v):
    return isinstance(v, Sym)


# --------------------------------------------------------------------------
# scalars
# --------------------------------------------------------------------------
class SBool(Sym):
    __slots__ = ("e",)

    def __init__(self, e):
        if isinstance(e, bool):
            e = z3.BoolVal(e)
        self.e = e

    def __repr__(self):
        return f"SBool({self.e})"

    def __bool__(self):
        raise TypeError("symbolic bool used in concrete context")


class SInt(Sym):
    __slots__ = ("e", "dtype", "len_of")

    def __init__(self, e, dtype=None):
        if isinstance(e, int):
            e = z3.IntVal(e)
        self.e = e
        self.dtype = dtype
        self.len_of = None

    def __repr__(self):
        return f"SInt({self.e})"

    def __bool__(self):
        raise TypeError("symbolic int used in concrete context")

    def __hash__(self):
        return hash(("SInt", self.e.get_id()))


class SReal(Sym):
    __slots__ = ("e",)

    def __init__(self, e):
        if isinstance(e, (int, float)):
            e = real_val(e)
        self.e = e

    def __repr__(self):
        return f"SReal({self.e})"

    def __bool__(self):
        raise TypeError("symbolic real used in concrete context")


class SF(Sym):
    """float with explicit NaN / +-inf (datatype F)"""
    __slots__ = ("e",)

    def __init__(self, e):
        self.e = e

    def __repr__(self):
        return f"SF({self.e})"


class SStr(Sym):
    __slots__ = ("e",)

    def __init__(self, e):
        if isinstance(e, str):
            e = z3.StringVal(e)
        self.e = e

    def __repr__(self):
        return f"SStr({self.e})"


class SOpaque(Sym):
    """value of an uninterpreted sort (e.g. one event payload, one text line);
    ``pytype`` optionally records the Python type the value stands for"""
    __slots__ = ("e", "pytype", "shape", "dtype")

    def __init__(self, e, pytype=None):
        self.e = e
        self.pytype = pytype
        self.shape = None
        self.dtype = None

    def __repr__(self):
        return f"SOpaque({self.e})"


def real_val(x):
    if isinstance(x, bool):
        x = int(x)
    if isinstance(x, int):
        return z3.RealVal(x)
    from fractions import Fraction
    fr = Fraction(x)   # exact value of the double
    return z3.RealVal(f"{fr.numerator}/{fr.denominator}")


# --------------------------------------------------------------------------
# helpers to move between python and z3
# --------------------------------------------------------------------------
def to_z3(v, kind=None):
    """z3 term of a scalar value (concrete or symbolic)"""
    if isinstance(v, (SBool, SInt, SReal, SStr, SOpaque, SF)):
        e = v.e
        if kind == "real" and z3.is_int(e):
            return z3.ToReal(e)
        if kind == "int" and isinstance(v, SBool):
            return z3.If(e, Z(1), Z(0))
        if kind == "real" and isinstance(v, SBool):
            return z3.If(e, z3.RealVal(1), z3.RealVal(0))
        if kind == "bool" and isinstance(v, SInt):
            return e != 0
        return e
    if isinstance(v, bool):
        if kind == "int":
            return Z(int(v))
        if kind == "real":
            return z3.RealVal(int(v))
        return z3.BoolVal(v)
    if isinstance(v, int):
        if kind == "real":
            return z3.RealVal(v)
        if kind == "bool":
            return z3.BoolVal(v != 0)
        return Z(v)
    if isinstance(v, float):
        if kind == "F":
            import math
            if math.isnan(v):
                return F.nan
            if math.isinf(v):
                return F.pinf if v > 0 else F.ninf
            return F.fin(real_val(v))
        return real_val(v)
    if isinstance(v, str):
        return z3.StringVal(v)
    if z3.is_expr(v):
        return v
    if isinstance(v, SObj) and kind in (None, "elem"):
        # a heap record stored in a symbolic sequence: an opaque token of its identity
        return z3.Const(f"obj!{v.uid}", Elem)
    try:
        import numpy as np
        if isinstance(v, np.integer):
            return to_z3(int(v), kind)
        if isinstance(v, np.floating):
            return to_z3(float(v), kind)
        if isinstance(v, np.bool_):
            return to_z3(bool(v), kind)
    except ImportError:   # pragma: no cover
        pass
    raise TypeError(f"cannot convert {type(v).__name__} to z3")


def wrap(e):
    """wrap a z3 term in the matching scalar wrapper"""
    if isinstance(e, Sym) or not z3.is_expr(e):
        return e
    s = e.sort()
    if s == z3.BoolSort():
        e = z3.simplify(e)
        if z3.is_true(e):
            return True
        if z3.is_false(e):
            return False
        return SBool(e)
    if s == z3.IntSort():
        e = z3.simplify(e)
        if z3.is_int_value(e):
            return e.as_long()
        return SInt(e)
    if s == z3.RealSort():
        return SReal(z3.simplify(e))
    if s == z3.StringSort():
        return SStr(e)
    if s == F:
        return SF(e)
    return SOpaque(e)


def kind_of(v):
    if isinstance(v, (bool, SBool)):
        return "bool"
    if isinstance(v, (int, SInt)):
        return "int"
    if isinstance(v, (float, SReal)):
        return "real"
    if isinstance(v, (str, SStr)):
        return "str"
    if isinstance(v, SF):
        return "F"
    if isinstance(v, SOpaque):
        return "elem"
    try:
        import numpy as np
        if isinstance(v, np.bool_):
            return "bool"
        if isinstance(v, np.integer):
            return "int"
        if isinstance(v, np.floating):
            return "real"
    except ImportError:  # pragma: no cover
        pass
    return None


def And(*xs):
    xs = [to_z3(x) for x in _flat(xs)]
    if not xs:
        return z3.BoolVal(True)
    return z3.And(*xs) if len(xs) > 1 else xs[0]


def Or(*xs):
    xs = [to_z3(x) for x in _flat(xs)]
    if not xs:
        return z3.BoolVal(False)
    return z3.Or(*xs) if len(xs) > 1 else xs[0]


def Not(x):
    return z3.Not(to_z3(x))


def Implies(a, b):
    return z3.Implies(to_z3(a), to_z3(b))


def Ite(c, a, b):
    k = "real" if "real" in (kind_of(a), kind_of(b)) else None
    return wrap(z3.If(to_z3(c), to_z3(a, k), to_z3(b, k)))


def _flat(xs):
    for x in xs:
        if isinstance(x, (list, tuple)):
            yield from _flat(x)
        else:
            yield x


# python floor division / modulo on z3 integers --------------------------------
def floordiv(a, b):
    """Python a // b for integer terms, exact for any sign of b (b != 0)"""
    if z3.is_int_value(b):
        bv = b.as_long()
        if bv > 0:
            return a / b
        return (-a) / Z(-bv)
    return z3.If(b > 0, a / b, (-a) / (-b))


def pymod(a, b):
    return a - b * floordiv(a, b)


# --------------------------------------------------------------------------
# bytes in the slice algebra (C19): a bytes value is content[lo:hi]
# --------------------------------------------------------------------------
class SBytes(Sym):
    """A piece ``content[lo:hi]`` of one ghost byte sequence.

    ``ghost`` names the sequence; concatenation is defined only for adjacent
    pieces of the same ghost (a non-adjacent ``+`` is a failed obligation)."""
    __slots__ = ("lo", "hi", "ghost")

    def __init__(self, lo, hi, ghost="content"):
        self.lo = to_z3(lo)
        self.hi = to_z3(hi)
        self.ghost = ghost

    @property
    def length(self):
        return self.hi - self.lo

    def __repr__(self):
        return f"SBytes({self.ghost}[{self.lo}:{self.hi}])"


# --------------------------------------------------------------------------
# 1-D arrays / sequences
# --------------------------------------------------------------------------
_arr_ids = itertools.count()


def arr_elem(arr, k):
    """wrapped element k of an SArr (keeps the element's python type tag)"""
    v = wrap(arr.sel(k))
    if isinstance(v, SOpaque):
        v.pytype = getattr(arr, "elem_pytype", None)
        if getattr(arr, "item_shape", None):
            v.shape = tuple(arr.item_shape)
        v.dtype = arr.dtype
    return v


class SArr(Sym):
    """Symbolic 1-D array: length ``n`` (z3 Int) and contents ``a`` (z3 array
    Int -> sort_of(kind)).  Mutable like a numpy array (the engine re-executes
    every path from scratch, so in-place mutation is safe).

    ``base``/``off`` make the array a *view* of another SArr (numpy basic
    slicing): writes go through to the base, reads come from the base."""

    def __init__(self, n, a, kind, dtype=None, base=None, off=None,
                 writeable=True, name=None):
        self.n = to_z3(n)
        self._a = a
        self.kind = kind
        self.dtype = dtype
        self.base = base
        self.off = off
        self.writeable = writeable
        self.name = name
        self.uid = next(_arr_ids)
        self.birth = None

    # contents --------------------------------------------------------------
    @property
    def a(self):
        if self.base is not None:
            k = z3.Int("k!v")
            return z3.Lambda([k], z3.Select(self.base.a, k + self.off))
        return self._a

    def set_a(self, new):
        if self.base is not None:
            raise RuntimeError("set_a on a view")
        self._a = new

    def sel(self, i):
        i = to_z3(i)
        if self.base is not None:
            return self.base.sel(i + self.off)
        return z3.simplify(z3.Select(self._a, i)) if False else z3.Select(self._a, i)

    def store(self, i, v):
        i = to_z3(i)
        if self.base is not None:
            self.base.store(i + self.off, v)
        else:
            self._a = z3.Store(self._a, i, to_z3(v, self.kind))

    def root(self):
        r = self
        while r.base is not None:
            r = r.base
        return r

    def copy(self, **kw):
        c = SArr(self.n, self.a, self.kind, dtype=self.dtype, name=self.name)
        for k, v in kw.items():
            setattr(c, k, v)
        return c

    def __repr__(self):
        return f"SArr<{self.kind}>#{self.uid}(n={self.n})"


def seq_eq(x, y, n=None):
    """elementwise equality of two SArr as a z3 formula (quantified)"""
    k = z3.Int("k!q")
    nn = x.n if n is None else to_z3(n)
    body = z3.Implies(z3.And(k >= 0, k < nn), x.sel(k) == y.sel(k))
    f = z3.ForAll([k], body)
    if n is None:
        return z3.And(x.n == y.n, f)
    return f


def forall_idx(n, fn, lo=0, name="k!q"):
    """forall k in [lo, n): fn(k)"""
    k = z3.Int(name)
    return z3.ForAll([k], z3.Implies(z3.And(k >= to_z3(lo), k < to_z3(n)), to_z3(fn(k))))


def exists_idx(n, fn, lo=0, name="k!e"):
    k = z3.Int(name)
    return z3.Exists([k], z3.And(k >= to_z3(lo), k < to_z3(n), to_z3(fn(k))))


# --------------------------------------------------------------------------
# heap records and maps
# --------------------------------------------------------------------------
_obj_ids = itertools.count()


class SObj(Sym):
    """A heap record with concrete identity and symbolic fields."""

    def __init__(self, cls, fields=None, name=None):
        self.cls = cls              # string tag or real class
        self.fields = dict(fields or {})
        self.name = name
        self.uid = next(_obj_ids)
        self.birth = None           # set by the engine (loop-frame checks)

    @property
    def clsname(self):
        return self.cls if isinstance(self.cls, str) else self.cls.__name__

    def __repr__(self):
        return f"SObj<{self.clsname}>#{self.uid}"


class SMap(Sym):
    """Symbolic dict with integer (or uninterpreted) keys.

    ``dom``: Array K -> Bool, ``val``: python callable k -> value wrapper or
    z3 Array K -> V, ``size``: z3 Int (cardinality of dom, kept by the
    operations), ``order``: optional SArr of keys in insertion order with the
    bijection ``pos`` (Array K -> Int).  The linking axioms are asserted by the
    creator (see models.new_ordered_map)."""

    def __init__(self, dom, val, size, ksort="int", vkind=None, order=None,
                 pos=None, mkval=None):
        self.dom = dom
        self.val = val
        self.size = to_z3(size)
        self.ksort = ksort
        self.vkind = vkind
        self.order = order
        self.pos = pos
        self.mkval = mkval      # z3 value term -> python-level wrapper
        self.uid = next(_obj_ids)

    def __repr__(self):
        return f"SMap#{self.uid}(size={self.size})"
