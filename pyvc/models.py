"""Library models (axioms) and operator semantics for the pyvc engine.

Every function here is part of the *trusted base*: it states what a Python
operator, builtin, numpy or h5py call does on symbolic values.  Each model that
is an axiom about a library (rather than plain Python semantics) registers a
name in AXIOMS_USED when it is exercised, so the evidence can list exactly the
assumptions a proof relied on; the axiom audit (audit.py) samples the same
statements against the real libraries.
"""
from __future__ import annotations

import builtins
import math
import operator
import os

import numpy as np
import z3

from .sym import (arr_elem, SArr, SBool, SBytes, SF, SInt, SMap, SObj, SOpaque, SReal, SStr,
                  Sym, And, F, Not, Or, Z, floordiv, is_sym, kind_of, pymod,
                  real_val, sort_of, to_z3, wrap, forall_idx)

AXIOMS_USED = set()


def axiom(name):
    AXIOMS_USED.add(name)


def _engine():
    from . import engine
    return engine


# --------------------------------------------------------------------------
# symbolic iterables
# --------------------------------------------------------------------------
class SRange(Sym):
    def __init__(self, lo, hi, step=1):
        self.lo, self.hi, self.step = lo, hi, step


class SEnumerate(Sym):
    def __init__(self, inner, start=0):
        self.inner, self.start = inner, start


class SZip(Sym):
    def __init__(self, inners):
        self.inners = inners


class SKeysView(Sym):
    def __init__(self, m):
        self.map = m


# --------------------------------------------------------------------------
# registry of callables -> models
# --------------------------------------------------------------------------
_MODELS = {}
_PURE = set()


def model(*fns):
    def deco(m):
        for fn in fns:
            _MODELS[_key(fn)] = m
        return m
    return deco


def _key(fn):
    try:
        hash(fn)
        return fn
    except TypeError:
        return id(fn)


def lookup(fn):
    try:
        m = _MODELS.get(fn)
    except TypeError:
        return None
    if m is None and getattr(fn, "__func__", None) is not None:
        # bound method of a concrete object: model registered on the function
        m0 = _MODELS.get(fn.__func__)
        if m0 is not None:
            slf = fn.__self__
            return lambda interp, *a, **k: m0(interp, slf, *a, **k)
    return m


def is_pure(fn):
    if fn in _PURE:
        return True
    mod = getattr(fn, "__module__", None) or ""
    if isinstance(fn, type) and mod in ("builtins", "numpy", "pathlib", "collections"):
        return True
    if isinstance(fn, np.ufunc):
        return True
    if mod.split(".")[0] in ("hdf5plugin", "uuid", "time", "datetime"):
        return True
    if mod.startswith("numpy") or mod in ("math", "operator", "posixpath", "copy",
                                           "json", "re", "hashlib", "functools", "itertools"):
        return True
    # bound methods of immutable builtin values and non-mutating container methods
    slf = getattr(fn, "__self__", None)
    if slf is not None and not isinstance(slf, type(os)):
        nm = getattr(fn, "__name__", "")
        if isinstance(slf, (str, bytes, int, float, tuple, frozenset, range, np.generic, np.dtype)):
            return True
        if isinstance(slf, (list, dict, set, np.ndarray)):
            return True      # mutation of concrete containers is recorded by the caller
        if isinstance(slf, _pathlib.PurePath):
            # only the purely lexical path operations run natively; everything that
            # touches the file system has a model (P-* axioms) or is unsupported
            return nm in ("with_suffix", "with_name", "with_stem", "joinpath", "as_posix",
                          "is_absolute", "relative_to", "__truediv__", "__str__", "__fspath__",
                          "match", "is_relative_to")
        if type(slf).__module__ in ("re", "numpy.random.mtrand"):
            return True
    return False


# --------------------------------------------------------------------------
# truthiness
# --------------------------------------------------------------------------
def truth(interp, v):
    eng = _engine()
    if v is None:
        return False
    if isinstance(v, (bool, np.bool_)):
        return bool(v)
    if isinstance(v, SBool):
        return v
    if isinstance(v, SInt):
        return wrap(v.e != 0)
    if isinstance(v, SReal):
        return wrap(v.e != 0)
    if isinstance(v, SBytes):
        return wrap(v.hi - v.lo > 0)
    if isinstance(v, SStr):
        return wrap(z3.Length(v.e) > 0)
    if isinstance(v, SMap):
        return wrap(v.size > 0)
    if isinstance(v, SArr):
        if getattr(v, "is_list", False):
            return wrap(v.n > 0)
        # numpy: truth value of an array with != 1 elements raises
        if not interp.ctx.decide(wrap(v.n == 1)):
            raise eng.PyRaise(ValueError, ("truth value of an array with more than one element is ambiguous",))
        e = v.sel(0)
        if v.kind == "bool":
            return wrap(e)
        if v.kind in ("int", "real"):
            return wrap(e != 0)
        raise eng.Unsupported("truth of array kind " + v.kind)
    if isinstance(v, SF):
        return wrap(z3.Not(z3.And(F.is_fin(v.e), F.val(v.e) == 0)))
    if isinstance(v, SObj):
        if v.cls == "NotImplementedType":
            return True
        fi = None
        for nm in ("__bool__", "__len__"):
            try:
                fi = interp.lookup_method(v, nm, _frame_of(interp))
            except Exception:
                fi = None
            if fi is not None:
                raise eng.Unsupported(f"truth of object with {nm}")
        return True
    if isinstance(v, (eng.Closure, eng.FuncRef, eng.BoundModel)):
        return True
    if isinstance(v, SOpaque) and getattr(v, "pytype", None) in (str, bytes):
        # an opaque text is true iff it is not empty
        return wrap((clen(v.e) if v.pytype is str else blen(v.e)) > 0)
    if isinstance(v, SOpaque) and getattr(v, "pytype", None) is None and v.e.sort() == _Elem:
        # the truth value of an opaque value is an (uninterpreted) function of that value
        return wrap(z3.Function("truth_of", _Elem, z3.BoolSort())(v.e))
    if isinstance(v, Sym):
        raise eng.Unsupported(f"truth of {type(v).__name__}")
    if isinstance(v, np.ndarray):
        try:
            return bool(v)
        except ValueError as ex:
            raise eng.PyRaise(ValueError, ex.args)
    if isinstance(v, (list, tuple, dict, set, str, bytes)):
        return len(v) > 0
    return bool(v)


def _frame_of(interp):
    return getattr(interp, "cur_frame", None)


# --------------------------------------------------------------------------
# scalar arithmetic
# --------------------------------------------------------------------------
_NUM = (int, float, bool, SInt, SReal, SBool, np.integer, np.floating, np.bool_)


def _isnum(v):
    return isinstance(v, _NUM)


def _arith_kind(a, b):
    ka, kb = kind_of(a), kind_of(b)
    if "real" in (ka, kb):
        return "real"
    return "int"


_PYOPS = {"Add": operator.add, "Sub": operator.sub, "Mult": operator.mul,
          "Div": operator.truediv, "FloorDiv": operator.floordiv, "Mod": operator.mod,
          "Pow": operator.pow, "BitAnd": operator.and_, "BitOr": operator.or_,
          "BitXor": operator.xor, "LShift": operator.lshift, "RShift": operator.rshift,
          "MatMult": operator.matmul}


def binop(interp, op, a, b, inplace=False):
    eng = _engine()
    ctx = interp.ctx
    if not eng._has_sym(a) and not eng._has_sym(b):
        try:
            if inplace and isinstance(a, (list, np.ndarray)):
                interp.heap_write(a)
                r = {"Add": operator.iadd, "Sub": operator.isub, "Mult": operator.imul,
                     "BitAnd": operator.iand, "BitOr": operator.ior,
                     "Div": operator.itruediv}.get(op, _PYOPS[op])(a, b)
                return r
            return _PYOPS[op](a, b)
        except Exception as ex:
            raise eng.PyRaise(type(ex), ex.args)
    if op == "Div" and (isinstance(a, _pathlib.PurePath) or (isinstance(a, SObj) and a.cls == "SymPath")):
        # path / "name with symbolic fields": a path value kept structurally
        o = ctx.obj("SymPath", {"parent": a, "name": b, "suffix": None})
        hook = getattr(getattr(getattr(interp, "cur_frame", None), "unit", None), "on_sympath", None)
        if hook is not None:
            hook(ctx, o)
        return o
    if isinstance(a, SBytes) or isinstance(b, SBytes):
        if op != "Add":
            raise eng.Unsupported("bytes op " + op)
        return bytes_concat(interp, a, b)
    if isinstance(a, SArr) or isinstance(b, SArr):
        return arr_binop(interp, op, a, b, inplace)
    if isinstance(a, SF) or isinstance(b, SF):
        return f_binop(interp, op, a, b)
    if _isnum(a) and _isnum(b):
        return scalar_binop(interp, op, a, b)
    if isinstance(a, (list, tuple)) and isinstance(b, (list, tuple)) and op == "Add":
        if inplace and isinstance(a, list):
            interp.heap_write(a)
            a.extend(b)
            return a
        return type(a)(list(a) + list(b))
    if isinstance(a, (list, tuple)) and isinstance(b, int) and op == "Mult":
        return type(a)(list(a) * b)
    if isinstance(a, (str, SStr, SFmt)) and isinstance(b, (str, SStr, SFmt)) and op == "Add":
        if isinstance(a, SFmt) or isinstance(b, SFmt):
            pa = a.parts if isinstance(a, SFmt) else [a]
            pb = b.parts if isinstance(b, SFmt) else [b]
            return SFmt(list(pa) + list(pb))
        return SStr(z3.Concat(to_z3(a), to_z3(b)))
    if isinstance(a, str) and op == "Mod":
        return str_format_opaque(interp, a, b)
    raise eng.Unsupported(f"binop {op} on {type(a).__name__}, {type(b).__name__}")


def scalar_binop(interp, op, a, b):
    eng = _engine()
    ctx = interp.ctx
    k = _arith_kind(a, b)
    if op in ("BitAnd", "BitOr", "BitXor"):
        if kind_of(a) == "bool" and kind_of(b) == "bool":
            x, y = to_z3(a, "bool"), to_z3(b, "bool")
            return wrap({"BitAnd": z3.And, "BitOr": z3.Or, "BitXor": z3.Xor}[op](x, y))
        raise eng.Unsupported("bitwise op on symbolic integers")
    if op == "Div":
        x, y = to_z3(a, "real"), to_z3(b, "real")
        isnp = isinstance(a, (np.generic,)) or isinstance(b, (np.generic,)) \
            or getattr(a, "dtype", None) or getattr(b, "dtype", None)
        if not isnp:
            if ctx.decide(wrap(y == 0)):
                raise eng.PyRaise(ZeroDivisionError, ("division by zero",))
        else:
            ctx.check(y != 0, "division by zero does not occur (numpy scalar division)")
        return wrap(x / y)
    x, y = to_z3(a, k), to_z3(b, k)
    if op == "Add":
        return wrap(x + y)
    if op == "Sub":
        return wrap(x - y)
    if op == "Mult":
        return wrap(x * y)
    if op in ("FloorDiv", "Mod"):
        if k != "int":
            raise eng.Unsupported("floor division / modulo on reals")
        if ctx.decide(wrap(y == 0)):
            raise eng.PyRaise(ZeroDivisionError, ("integer division or modulo by zero",))
        if z3.is_int_value(z3.simplify(y)):
            return wrap(floordiv(x, y) if op == "FloorDiv" else pymod(x, y))
        return divmod_sym(ctx, x, y)[0 if op == "FloorDiv" else 1]
    if op == "Pow":
        if isinstance(b, int) and 0 <= b <= 6:
            r = z3.RealVal(1) if k == "real" else Z(1)
            for _ in range(b):
                r = r * x
            return wrap(r)
        raise eng.Unsupported("power with symbolic exponent")
    raise eng.Unsupported("scalar op " + op)


def unaryop(interp, op, v):
    eng = _engine()
    if not is_sym(v):
        return {"USub": operator.neg, "UAdd": operator.pos, "Invert": operator.invert}[op](v)
    if op == "USub":
        if isinstance(v, (SInt, SReal)):
            return wrap(-v.e)
        if isinstance(v, SArr):
            return arr_map(interp, v, lambda e: -e, v.kind)
    if op == "UAdd":
        return v
    if op == "Invert":
        if isinstance(v, SBool):
            raise eng.Unsupported("~ on python bool")
        if isinstance(v, SArr) and v.kind == "bool":
            # the same mask value always yields the same term for its negation, so that
            # enumerations (np.where / boolean indexing) of it are shared
            store = interp.ctx.__dict__.setdefault("_invert", {})
            key = (v.a.get_id(), z3.simplify(v.n).get_id())
            if key not in store:
                r0 = arr_map(interp, v, lambda e: z3.Not(e), "bool")
                store[key] = (r0.a, r0.n)
            a_term, n_term = store[key]
            r = SArr(n_term, a_term, "bool", dtype="bool")
            r.birth = interp.ctx.stamp
            r.not_of = v
            if getattr(getattr(interp.cur_frame, "unit", None), "count_masks", False):
                from . import rngmodel
                rngmodel.note_complement(interp, SArr(v.n, v.a, "bool"), r)
            return r
    raise eng.Unsupported(f"unary {op} on {type(v).__name__}")


# --------------------------------------------------------------------------
# comparison
# --------------------------------------------------------------------------
def compare(interp, op, a, b):
    eng = _engine()
    ctx = interp.ctx
    if op in ("Is", "IsNot"):
        r = is_same(interp, a, b)
        if isinstance(r, bool):
            return r if op == "Is" else (not r)
        return wrap(r.e if op == "Is" else z3.Not(r.e))
    if op in ("In", "NotIn"):
        r = contains(interp, b, a)
        if isinstance(r, bool):
            return r if op == "In" else not r
        return wrap(r.e if op == "In" else z3.Not(r.e))
    if not eng._has_sym(a) and not eng._has_sym(b):
        try:
            return {"Eq": operator.eq, "NotEq": operator.ne, "Lt": operator.lt,
                    "LtE": operator.le, "Gt": operator.gt, "GtE": operator.ge}[op](a, b)
        except Exception as ex:
            raise eng.PyRaise(type(ex), ex.args)
    if isinstance(a, SArr) and not getattr(a, "is_list", False) or \
            isinstance(b, SArr) and not getattr(b, "is_list", False):
        return arr_compare(interp, op, a, b)
    if isinstance(a, SF) or isinstance(b, SF):
        return f_compare(interp, op, a, b)
    if isinstance(a, SOpaque) and getattr(a, "pytype", None) in (None, np.ndarray) \
            and isinstance(b, (int, float)) and not isinstance(b, bool):
        # elementwise comparison of one opaque event payload with a literal
        from . import npmodel
        axiom("N-ELEMWISE (comparison with a scalar acts inside one event payload)")
        r = SOpaque(npmodel.elem_fn(f"elem_{op}_{b}")(a.e))
        r.pytype = np.ndarray
        r.dtype = np.dtype(bool)
        return r
    if _isnum(a) and _isnum(b):
        k = _arith_kind(a, b)
        x, y = to_z3(a, k), to_z3(b, k)
        return wrap({"Eq": x == y, "NotEq": x != y, "Lt": x < y, "LtE": x <= y,
                     "Gt": x > y, "GtE": x >= y}[op])
    if isinstance(a, (str, SStr)) and isinstance(b, (str, SStr)):
        x, y = to_z3(a), to_z3(b)
        if op == "Eq":
            return wrap(x == y)
        if op == "NotEq":
            return wrap(x != y)
        if op == "Lt":
            return wrap(z3.StrLT(x, y) if hasattr(z3, "StrLT") else x < y)
        if op == "LtE":
            return wrap(x <= y)
        if op == "Gt":
            return wrap(y < x)
        if op == "GtE":
            return wrap(y <= x)
    if isinstance(a, tuple) and isinstance(b, tuple) and op in ("Lt", "LtE", "Gt", "GtE"):
        # lexicographic comparison of tuples
        if op in ("Gt", "GtE"):
            return compare(interp, {"Gt": "Lt", "GtE": "LtE"}[op], b, a)
        res = z3.BoolVal(len(a) < len(b)) if op == "Lt" else z3.BoolVal(len(a) <= len(b))
        for x, y in reversed(list(zip(a, b))):
            lt = compare(interp, "Lt", x, y)
            eq = compare(interp, "Eq", x, y)
            res = z3.Or(to_z3(lt, "bool"), z3.And(to_z3(eq, "bool"), res))
        return wrap(res)
    if op in ("Eq", "NotEq"):
        r = generic_eq(interp, a, b)
        if isinstance(r, bool):
            return r if op == "Eq" else not r
        return wrap(r.e if op == "Eq" else z3.Not(r.e))
    raise eng.Unsupported(f"compare {op} on {type(a).__name__}, {type(b).__name__}")


def generic_eq(interp, a, b):
    eng = _engine()
    if getattr(a, "_pyvc_equal_any", False) or getattr(b, "_pyvc_equal_any", False):
        return True      # ghost key declared by a contract to equal the key under test
    if a is None or b is None:
        if isinstance(a, SObj) and a.cls == "Optional":
            raise eng.Unsupported("Optional eq")
        return a is b
    if isinstance(a, (tuple, list)) and isinstance(b, (tuple, list)):
        if len(a) != len(b):
            return False
        parts = [compare(interp, "Eq", x, y) for x, y in zip(a, b)]
        if all(isinstance(p, bool) for p in parts):
            return all(parts)
        return wrap(And(*[p if isinstance(p, bool) else p.e for p in parts]))
    if isinstance(a, SObj) and isinstance(b, SObj):
        return a is b
    if isinstance(a, (BytesOf, EncodedStr, SFmt)) or isinstance(b, (BytesOf, EncodedStr, SFmt)):
        return token_eq(interp, a, b)
    if isinstance(a, SOpaque) and isinstance(b, SOpaque):
        return wrap(a.e == b.e)
    if isinstance(a, SBytes) and isinstance(b, SBytes):
        return wrap(z3.Or(z3.And(a.lo == a.hi, b.lo == b.hi),
                          z3.And(a.lo == b.lo, a.hi == b.hi)))
    ka, kb = kind_of(a), kind_of(b)
    if ka is not None and kb is not None and {ka, kb} <= {"str"} | {"int", "real", "bool"} and \
            ("str" in (ka, kb)) and ka != kb:
        return False      # a str never equals a number
    if isinstance(a, str) and isinstance(b, SObj) or isinstance(b, str) and isinstance(a, SObj):
        return False
    raise eng.Unsupported(f"== on {type(a).__name__}, {type(b).__name__}")


def is_same(interp, a, b):
    eng = _engine()
    if a is None or b is None:
        return a is b
    if isinstance(a, bool) or isinstance(b, bool):
        # `x is True`
        if isinstance(a, SBool) or isinstance(b, SBool):
            return compare(interp, "Eq", a, b)
        return a is b
    if is_sym(a) != is_sym(b):
        return False
    if isinstance(a, (SObj, SArr, SMap)) or isinstance(b, (SObj, SArr, SMap)):
        return a is b
    if not is_sym(a):
        return a is b
    raise eng.Unsupported("identity of symbolic scalars")


def contains(interp, container, x):
    eng = _engine()
    ctx = interp.ctx
    if isinstance(container, SMap):
        return wrap(z3.Select(container.dom, to_z3(x)))
    if isinstance(container, SKeysView):
        return wrap(z3.Select(container.map.dom, to_z3(x)))
    if isinstance(container, (list, tuple, set, frozenset)):
        if not eng._has_sym(container) and not eng._has_sym(x):
            return x in container
        parts = []
        for y in container:
            r = compare(interp, "Eq", y, x)
            if r is True:
                return True
            if r is not False:
                parts.append(r.e)
        if not parts:
            return False
        return wrap(Or(*parts))
    if isinstance(container, dict):
        if not eng._has_sym(x) or isinstance(x, SObj):
            try:
                return x in container
            except TypeError as ex:
                raise eng.PyRaise(TypeError, ex.args)
        return contains(interp, list(container.keys()), x)
    if isinstance(container, SObj):
        fn = interp.getattr(container, "__contains__", interp.cur_frame)
        r = interp.call(fn, [x], {}, interp.cur_frame)
        return truth(interp, r)
    if isinstance(container, SArr) and getattr(container, "is_list", False):
        from .sym import exists_idx
        xe = to_z3(x, container.kind)
        return wrap(exists_idx(container.n, lambda k: container.sel(k) == xe))
    if not eng._has_sym(container) and not eng._has_sym(x):
        return x in container
    raise eng.Unsupported(f"'in' on {type(container).__name__}")


# --------------------------------------------------------------------------
# bytes slice algebra
# --------------------------------------------------------------------------
def bytes_concat(interp, a, b):
    eng = _engine()
    if isinstance(a, bytes):
        if a != b"":
            raise eng.Unsupported("concatenation with a non-empty bytes literal")
        return b
    if isinstance(b, bytes):
        if b != b"":
            raise eng.Unsupported("concatenation with a non-empty bytes literal")
        return a
    la, lb = a.hi - a.lo, b.hi - b.lo
    interp.ctx.check(z3.Or(la == 0, lb == 0, a.hi == b.lo),
                     "bytes concatenation joins adjacent pieces of the resource",
                     kind="slice-algebra")
    lo = z3.If(la == 0, b.lo, a.lo)
    hi = z3.If(lb == 0, z3.If(la == 0, b.hi, a.hi), b.hi)
    return SBytes(z3.simplify(lo), z3.simplify(hi), a.ghost)


def clamp_slice(n, sl, ctx=None):
    """python slice clamping for a sequence of length n (z3 Int); step 1.
    With a context, conditions decided by the path condition are resolved so
    that the resulting terms stay small."""
    eng = _engine()
    if sl.step is not None and sl.step != 1:
        raise eng.Unsupported("slice with step")
    ite = ctx.ite if ctx is not None else z3.If

    def norm(v, default):
        if v is None:
            return default
        e = to_z3(v)
        e = ite(e < 0, e + n, e)
        return ite(e < 0, Z(0), ite(e > n, n, e))
    a = norm(sl.start, Z(0))
    b = norm(sl.stop, n)
    b = ite(b < a, a, b)
    return z3.simplify(a), z3.simplify(b)


# --------------------------------------------------------------------------
# arrays
# --------------------------------------------------------------------------
_kq = [0]


def _bound(name="k"):
    _kq[0] += 1
    return z3.Int(f"{name}!b{_kq[0]}")


def arr_new(interp, n, fn, kind, dtype=None, name="arr"):
    """array of length n with element k == fn(k) (z3 Lambda)"""
    k = _bound()
    a = z3.Lambda([k], to_z3(fn(k), kind))
    r = SArr(n, a, kind, dtype=dtype, name=name)
    r.birth = interp.ctx.stamp
    return r


def arr_map(interp, v, fn, kind):
    return arr_new(interp, v.n, lambda k: fn(v.sel(k)), kind)


def _is_listlike_arr(v):
    return isinstance(v, SArr)


def arr_binop(interp, op, a, b, inplace=False):
    eng = _engine()
    ctx = interp.ctx

    def elem(v, k, kind):
        if isinstance(v, SArr):
            e = v.sel(k)
            if kind == "real" and v.kind == "int":
                return z3.ToReal(e)
            if kind in ("int", "real") and v.kind == "bool":
                one, zero = (z3.RealVal(1), z3.RealVal(0)) if kind == "real" else (Z(1), Z(0))
                return z3.If(e, one, zero)
            return e
        return to_z3(v, kind)
    ka = a.kind if isinstance(a, SArr) else kind_of(a)
    kb = b.kind if isinstance(b, SArr) else kind_of(b)
    if ka is None or kb is None:
        raise eng.Unsupported(f"array op with {type(a).__name__}, {type(b).__name__}")
    if ka == "elem" and isinstance(a, SArr) and not is_sym(b) and isinstance(b, (int, float)):
        # elementwise arithmetic on opaque payloads with a literal: uninterpreted
        from . import npmodel
        axiom("N-ELEMWISE (arithmetic with a scalar acts on each event payload separately)")
        fn = npmodel.elem_fn(f"elem_{op}_{b}")
        r = arr_map(interp, a, lambda e: fn(e), "elem")
        r.dtype = a.dtype
        r.item_shape = getattr(a, "item_shape", ())
        return r
    if "F" in (ka, kb) or "elem" in (ka, kb):
        raise eng.Unsupported("arithmetic on F/opaque arrays")
    if isinstance(a, SArr) and isinstance(b, SArr):
        # numpy broadcasting of 1-D arrays: equal lengths or length 1
        ctx.check(z3.Or(a.n == b.n, a.n == 1, b.n == 1), "operands broadcast (equal length)",
                  kind="noraise-lib")
        n = z3.If(a.n == 1, b.n, a.n)
        if not (z3.is_true(z3.simplify(a.n == b.n))):
            ctx.assume(a.n == b.n) if ctx.feasible(a.n == b.n) and not ctx.feasible(a.n != b.n) else None
            if ctx.feasible(a.n != b.n):
                raise eng.Unsupported("broadcasting of length-1 arrays")
        n = a.n
    else:
        n = a.n if isinstance(a, SArr) else b.n
    if op in ("BitAnd", "BitOr", "BitXor"):
        if ka == "bool" and kb == "bool":
            f = {"BitAnd": z3.And, "BitOr": z3.Or, "BitXor": z3.Xor}[op]
            res_kind = "bool"

            def fn(k):
                return f(elem(a, k, "bool"), elem(b, k, "bool"))
        else:
            raise eng.Unsupported("bitwise op on integer arrays")
    else:
        res_kind = "real" if ("real" in (ka, kb) or op == "Div") else "int"

        def fn(k):
            x, y = elem(a, k, res_kind), elem(b, k, res_kind)
            if op == "Add":
                return x + y
            if op == "Sub":
                return x - y
            if op == "Mult":
                return x * y
            if op == "Div":
                return x / y
            if op == "FloorDiv" and res_kind == "int":
                return floordiv(x, y)
            if op == "Mod" and res_kind == "int":
                return pymod(x, y)
            if op == "Pow" and isinstance(b, int) and 0 <= b <= 4:
                r = x
                for _ in range(b - 1):
                    r = r * x
                return r if b else (z3.RealVal(1) if res_kind == "real" else Z(1))
            raise eng.Unsupported("array op " + op)
    if inplace and isinstance(a, SArr):
        if not a.writeable:
            raise eng.PyRaise(ValueError, ("output array is read-only",))
        if res_kind != a.kind and not (a.kind == "real" and res_kind == "int"):
            raise eng.PyRaise(TypeError, ("cannot cast ufunc output",))
        tmp = arr_new(interp, n, fn, a.kind)
        arr_assign_all(interp, a, tmp)
        return eng._INPLACE_DONE
    return arr_new(interp, n, fn, res_kind)


def arr_assign_all(interp, dst, src):
    """dst[:] = src for equal lengths (write through views)"""
    interp.heap_write(dst)
    root = dst.root()
    if dst.base is None:
        dst.set_a(src.a)
        return
    # view: root[k] = src[k-off] for off <= k < off+n
    off = total_off(dst)
    k = _bound()
    old = root.a
    root.set_a(z3.Lambda([k], z3.If(z3.And(k >= off, k < off + dst.n),
                                    src.sel(k - off), z3.Select(old, k))))


def total_off(v):
    off = Z(0)
    while v.base is not None:
        off = off + v.off
        v = v.base
    return z3.simplify(off)


def arr_compare(interp, op, a, b):
    eng = _engine()
    arr = a if isinstance(a, SArr) else b
    ka = a.kind if isinstance(a, SArr) else kind_of(a)
    kb = b.kind if isinstance(b, SArr) else kind_of(b)
    if "F" in (ka, kb):
        def fn(k):
            x = a.sel(k) if isinstance(a, SArr) else to_z3(a, "F")
            y = b.sel(k) if isinstance(b, SArr) else to_z3(b, "F")
            return f_cmp_term(op, _toF(x), _toF(y))
        return arr_new(interp, arr.n, fn, "bool", dtype="bool")
    kind = "real" if "real" in (ka, kb) else ("bool" if ka == kb == "bool" else "int")
    if isinstance(a, SArr) and isinstance(b, SArr):
        interp.ctx.check(a.n == b.n, "operands of comparison have equal length", kind="noraise-lib")

    def fn(k):
        x = a.sel(k) if isinstance(a, SArr) else to_z3(a, kind)
        y = b.sel(k) if isinstance(b, SArr) else to_z3(b, kind)
        if kind == "real":
            if z3.is_int(x):
                x = z3.ToReal(x)
            if z3.is_int(y):
                y = z3.ToReal(y)
        return {"Eq": x == y, "NotEq": x != y, "Lt": x < y, "LtE": x <= y,
                "Gt": x > y, "GtE": x >= y}[op]
    return arr_new(interp, arr.n, fn, "bool", dtype="bool")


# F (float with NaN/inf) ----------------------------------------------------------
def _toF(x):
    if x.sort() == F:
        return x
    if z3.is_int(x):
        x = z3.ToReal(x)
    return F.fin(x)


def f_cmp_term(op, x, y):
    """IEEE comparison on F terms"""
    nan = z3.Or(F.is_nan(x), F.is_nan(y))
    # total preorder value: ninf < fin < pinf
    def lt(p, q):
        return z3.Or(z3.And(F.is_ninf(p), z3.Not(F.is_ninf(q))),
                     z3.And(F.is_fin(p), F.is_pinf(q)),
                     z3.And(F.is_fin(p), F.is_fin(q), F.val(p) < F.val(q)))
    eq = z3.And(z3.Not(nan), x == y)
    if op == "Eq":
        return eq
    if op == "NotEq":
        return z3.Not(eq)
    if op == "Lt":
        return z3.And(z3.Not(nan), lt(x, y))
    if op == "LtE":
        return z3.And(z3.Not(nan), z3.Or(lt(x, y), x == y))
    if op == "Gt":
        return z3.And(z3.Not(nan), lt(y, x))
    if op == "GtE":
        return z3.And(z3.Not(nan), z3.Or(lt(y, x), x == y))
    raise ValueError(op)


def f_compare(interp, op, a, b):
    return wrap(f_cmp_term(op, _toF(to_z3(a, "F") if not isinstance(a, Sym) else a.e),
                           _toF(to_z3(b, "F") if not isinstance(b, Sym) else b.e)))


def f_binop(interp, op, a, b):
    """arithmetic on floats with explicit NaN: NaN propagates; +-inf operands are
    not modelled (assumption A-NOINF: operands of float arithmetic are finite or NaN)"""
    eng = _engine()
    axiom("A-NOINF (F arithmetic: operands finite or NaN)")

    def term(v):
        if isinstance(v, SF):
            return v.e
        if isinstance(v, float):
            return to_z3(v, "F")
        return F.fin(to_z3(v, "real"))
    x, y = term(a), term(b)
    nan = z3.Or(z3.Not(F.is_fin(x)), z3.Not(F.is_fin(y)))
    vx, vy = F.val(x), F.val(y)
    if op == "Add":
        r = vx + vy
    elif op == "Sub":
        r = vx - vy
    elif op == "Mult":
        r = vx * vy
    elif op == "Div":
        interp.ctx.check(z3.Or(nan, vy != 0), "float division by zero does not occur",
                         kind="noraise-lib")
        r = vx / vy
    else:
        raise eng.Unsupported("F op " + op)
    return SF(z3.If(nan, F.nan, F.fin(r)))


# --------------------------------------------------------------------------
# item access
# --------------------------------------------------------------------------
def norm_index(interp, n, key):
    """python index normalisation for a sequence of length n; raises IndexError"""
    eng = _engine()
    ctx = interp.ctx
    k = to_z3(key)
    if isinstance(key, int):
        kk = k + n if key < 0 else k
    else:
        kk = z3.If(k < 0, k + n, k)
    ok = z3.And(kk >= 0, kk < n)
    if not ctx.decide(wrap(ok)):
        raise eng.PyRaise(IndexError, ("index out of range",))
    return z3.simplify(kk)


def getitem(interp, obj, key):
    eng = _engine()
    ctx = interp.ctx
    if isinstance(obj, dict) and isinstance(key, SObj):
        try:
            return obj[key]
        except KeyError as ex:
            raise eng.PyRaise(KeyError, ex.args)
    if not eng._has_sym(obj) and not eng._has_sym(key):
        try:
            return obj[key]
        except Exception as ex:
            raise eng.PyRaise(type(ex), ex.args)
    if isinstance(obj, SBytes):
        if isinstance(key, slice):
            a, b = clamp_slice(obj.hi - obj.lo, key, ctx)
            return SBytes(z3.simplify(obj.lo + a), z3.simplify(obj.lo + b), obj.ghost)
        raise eng.Unsupported("bytes item")
    if isinstance(obj, SArr):
        return arr_getitem(interp, obj, key)
    if isinstance(obj, SMap):
        ke = to_z3(key)
        if not ctx.decide(wrap(z3.Select(obj.dom, ke))):
            raise eng.PyRaise(KeyError, (key,))
        return map_value(obj, ke)
    if isinstance(obj, (list, tuple)):
        if isinstance(key, (int, SInt)):
            if isinstance(key, int):
                try:
                    return obj[key]
                except IndexError as ex:
                    raise eng.PyRaise(IndexError, ex.args)
            kk = norm_index(interp, Z(len(obj)), key)
            # enumerate positions
            for i in range(len(obj)):
                if ctx.decide(wrap(kk == i)):
                    return obj[i]
            raise eng.PathEnd("infeasible")
        if isinstance(key, slice) and not eng._has_sym(key):
            return obj[key]
    if isinstance(obj, dict):
        if not eng._has_sym(key):
            try:
                return obj[key]
            except (KeyError, TypeError) as ex:
                raise eng.PyRaise(type(ex), ex.args)
        for k0, v0 in obj.items():
            r = compare(interp, "Eq", k0, key)
            if ctx.decide(r if isinstance(r, bool) else r):
                return v0
        raise eng.PyRaise(KeyError, (key,))
    if isinstance(obj, SObj):
        fn = interp.getattr(obj, "__getitem__", interp.cur_frame)
        return interp.call(fn, [key], {}, interp.cur_frame)
    return NotImplemented


def map_value(m, ke):
    if callable(m.val) and not z3.is_expr(m.val):
        return m.val(ke)
    v = z3.Select(m.val, ke)
    if m.mkval is not None:
        return m.mkval(v)
    return wrap(v)


def arr_getitem(interp, obj, key):
    eng = _engine()
    ctx = interp.ctx
    if isinstance(key, (int, SInt, np.integer)):
        kk = norm_index(interp, obj.n, int(key) if isinstance(key, np.integer) else key)
        return arr_elem(obj, kk)
    if isinstance(key, slice):
        a, b = clamp_slice(obj.n, key, ctx)
        if getattr(obj, "is_list", False):
            r = arr_new(interp, z3.simplify(b - a), lambda k: obj.sel(k + a), obj.kind, obj.dtype)
            r.is_list = True
            return r
        v = SArr(z3.simplify(b - a), None, obj.kind, dtype=obj.dtype, base=obj, off=a,
                 writeable=obj.writeable)
        v.birth = obj.root().birth
        return v
    if isinstance(key, SArr) and key.kind == "bool":
        return mask_select(interp, obj, key)
    if isinstance(key, SArr) and key.kind == "int":
        ctx.check(forall_idx(key.n, lambda k: z3.And(key.sel(k) >= -obj.n, key.sel(k) < obj.n)),
                  "fancy index within bounds", kind="noraise-lib")
        axiom("N-FANCY")

        def fn(k):
            i = key.sel(k)
            return obj.sel(z3.If(i < 0, i + obj.n, i))
        return arr_new(interp, key.n, fn, obj.kind, obj.dtype)
    if isinstance(key, tuple) and len(key) == 1:
        return arr_getitem(interp, obj, key[0])
    if key is Ellipsis:
        return obj
    raise eng.Unsupported(f"array index {type(key).__name__}")


# rank/select (N-WHERE): indices of the true entries of a mask, increasing -----------
def where_idx(interp, mask):
    """SArr idx (kind int): increasing enumeration of {k | mask[k]}.
    Axiom N-WHERE: idx strictly increasing, in range, mask true exactly on
    its image; count = idx.n <= mask.n."""
    ctx = interp.ctx
    wstore = ctx.__dict__.setdefault("_where", {})
    wkey = (mask.a.get_id(), z3.simplify(mask.n).get_id()) if mask.base is None else None
    if wkey is not None and wkey in wstore:
        return wstore[wkey]
    axiom("N-WHERE")
    idx = ctx.arr("where", "int")
    m = mask
    n = idx.n
    k = z3.Int("k!w")
    j = z3.Int("j!w")
    rank = z3.Function(ctx._name("rank"), z3.IntSort(), z3.IntSort())
    ctx.assume(n <= m.n)
    # idx maps [0,n) into true positions, strictly increasing
    ctx.assume(z3.ForAll([k], z3.Implies(z3.And(k >= 0, k < n),
                                         z3.And(idx.sel(k) >= 0, idx.sel(k) < m.n,
                                                m.sel(idx.sel(k)),
                                                rank(idx.sel(k)) == k))))
    ctx.assume(z3.ForAll([k, j], z3.Implies(z3.And(k >= 0, k < j, j < n),
                                            idx.sel(k) < idx.sel(j))))
    # every true position is hit: rank is its inverse
    ctx.assume(z3.ForAll([j], z3.Implies(z3.And(j >= 0, j < m.n, m.sel(j)),
                                         z3.And(rank(j) >= 0, rank(j) < n,
                                                idx.sel(rank(j)) == j))))
    # N-WHERE-ALLTRUE (lemma; induction on the length): an all-True mask enumerates 0..n-1
    kk = z3.Int("k!wa")
    ctx.assume(z3.Implies(z3.ForAll([kk], z3.Implies(z3.And(kk >= 0, kk < m.n), m.sel(kk))),
                          z3.And(n == z3.If(m.n >= 0, m.n, Z(0)),
                                 z3.ForAll([kk], z3.Implies(z3.And(kk >= 0, kk < n), idx.sel(kk) == kk)))))
    idx.rank = rank
    idx.of_mask = SArr(mask.n, mask.a, "bool") if mask.base is None else None
    if wkey is not None:
        wstore[wkey] = idx
    return idx


def mask_select(interp, arr, mask):
    ctx = interp.ctx
    ctx.check(mask.n == arr.n, "boolean index has the length of the array", kind="noraise-lib")
    idx = where_idx(interp, mask)
    axiom("N-MASK")
    # the same (array value, mask value) gives the same term: ghost summaries
    # attached to the selection are then shared between code and specification
    store = ctx.__dict__.setdefault("_mask_select", {})
    key = (arr.a.get_id() if arr.base is None else ("v", arr.uid), idx.uid)
    if key in store:
        a_term, n_term = store[key]
        r = SArr(n_term, a_term, arr.kind, dtype=arr.dtype)
        r.birth = ctx.stamp
    else:
        r = arr_new(interp, idx.n, lambda k: arr.sel(idx.sel(k)), arr.kind, arr.dtype)
        store[key] = (r.a, r.n)
    r.sel_idx = idx
    r.sel_mask = SArr(mask.n, mask.a, "bool")
    r.item_shape = getattr(arr, "item_shape", ())
    return r


def setitem(interp, obj, key, v):
    eng = _engine()
    ctx = interp.ctx
    if isinstance(obj, (list, dict)) and (not eng._has_sym(key) or
                                          (isinstance(obj, dict) and isinstance(key, SObj))):
        interp.heap_write(obj)
        try:
            obj[key] = v
        except Exception as ex:
            raise eng.PyRaise(type(ex), ex.args)
        return None
    if isinstance(obj, dict):
        # key with symbolic parts: find an equal existing key (deciding equality), else insert
        interp.heap_write(obj)
        for k0 in list(obj.keys()):
            r = compare(interp, "Eq", k0, key)
            if ctx.decide(r if isinstance(r, bool) else r):
                obj[k0] = v
                return None
        try:
            obj[key] = v
        except TypeError as ex:
            raise eng.Unsupported(f"unhashable symbolic dict key: {ex}")
        return None
    if isinstance(obj, np.ndarray) and not eng._has_sym(key) and not eng._has_sym(v):
        interp.heap_write(obj)
        obj[key] = v
        return None
    if isinstance(obj, SMap):
        map_store(interp, obj, key, v)
        return None
    if isinstance(obj, SArr):
        return arr_setitem(interp, obj, key, v)
    if isinstance(obj, SObj):
        fn = interp.getattr(obj, "__setitem__", interp.cur_frame)
        interp.call(fn, [key, v], {}, interp.cur_frame)
        return None
    return NotImplemented


def arr_setitem(interp, obj, key, v):
    eng = _engine()
    ctx = interp.ctx
    if not obj.writeable:
        raise eng.PyRaise(ValueError, ("assignment destination is read-only",))
    interp.heap_write(obj)
    if isinstance(key, (int, SInt)):
        kk = norm_index(interp, obj.n, key)
        obj.store(kk, to_z3(v, obj.kind))
        return None
    if isinstance(key, slice):
        a, b = clamp_slice(obj.n, key, ctx)
        view = SArr(z3.simplify(b - a), None, obj.kind, base=obj, off=a)
        if isinstance(v, SArr):
            ctx.check(v.n == view.n, "slice assignment: lengths match", kind="noraise-lib")
            arr_assign_all(interp, view, v)
        else:
            ve = to_z3(v, obj.kind)
            arr_assign_all(interp, view, arr_new(interp, view.n, lambda k: ve, obj.kind))
        return None
    if isinstance(key, SArr) and key.kind == "bool":
        ctx.check(key.n == obj.n, "boolean index has the length of the array", kind="noraise-lib")
        if isinstance(v, SArr):
            if v.kind != obj.kind:
                from . import npmodel
                v = npmodel.cast_arr(interp, v, obj.kind)
            idx = where_idx(interp, key)
            ctx.check(v.n == idx.n, "masked assignment: as many values as true entries",
                      kind="noraise-lib")
            axiom("N-MASK-ASSIGN")
            old = obj.a if obj.base is None else None
            rank = idx.rank
            src = v
            tmp = arr_new(interp, obj.n,
                          lambda k: z3.If(key.sel(k), src.sel(rank(k)), obj.sel(k)), obj.kind)
            snap = SArr(tmp.n, tmp.a, tmp.kind)
            arr_assign_all(interp, obj, snap)
        else:
            ve = to_z3(v, obj.kind)
            tmp = arr_new(interp, obj.n, lambda k: z3.If(key.sel(k), ve, obj.sel(k)), obj.kind)
            arr_assign_all(interp, obj, SArr(tmp.n, tmp.a, tmp.kind))
        return None
    if isinstance(key, SArr) and key.kind == "int":
        ctx.check(forall_idx(key.n, lambda k: z3.And(key.sel(k) >= 0, key.sel(k) < obj.n)),
                  "fancy store index within bounds", kind="noraise-lib")
        axiom("N-FANCY-STORE")
        if isinstance(v, SArr):
            # obj[ids] = v with pairwise distinct ids: entry ids[j] becomes v[j], the others keep
            # their value (with repeated indices numpy lets the last one win: not modelled)
            ctx.check(v.n == key.n, "fancy store: as many values as indices", kind="noraise-lib")
            i_, j_ = _bound("i"), _bound("j")
            ctx.check(z3.ForAll([i_, j_], z3.Implies(z3.And(i_ >= 0, i_ < j_, j_ < key.n), key.sel(i_) != key.sel(j_))),
                      "fancy store of an array: the indices are pairwise distinct", kind="requires")
            if v.kind != obj.kind:
                from . import npmodel
                v = npmodel.cast_arr(interp, v, obj.kind)
            inv = z3.Function(ctx._name("store_inv"), z3.IntSort(), z3.IntSort())
            ctx.assume(z3.ForAll([j_], z3.Implies(z3.And(j_ >= 0, j_ < key.n), inv(key.sel(j_)) == j_)))
            hit2 = lambda k: z3.And(inv(k) >= 0, inv(k) < key.n, key.sel(inv(k)) == k)   # noqa: E731
            src = v
            tmp = arr_new(interp, obj.n, lambda k: z3.If(hit2(k), src.sel(inv(k)), obj.sel(k)), obj.kind)
            arr_assign_all(interp, obj, SArr(tmp.n, tmp.a, tmp.kind))
            return None
        ve = to_z3(v, obj.kind)
        j = _bound("j")
        hit = lambda k: z3.Exists([j], z3.And(j >= 0, j < key.n, key.sel(j) == k))  # noqa
        tmp = arr_new(interp, obj.n, lambda k: z3.If(hit(k), ve, obj.sel(k)), obj.kind)
        arr_assign_all(interp, obj, SArr(tmp.n, tmp.a, tmp.kind))
        return None
    raise eng.Unsupported(f"array store with {type(key).__name__}")


def delitem(interp, obj, key):
    eng = _engine()
    if isinstance(obj, (list, dict)) and not eng._has_sym(key):
        interp.heap_write(obj)
        try:
            del obj[key]
        except Exception as ex:
            raise eng.PyRaise(type(ex), ex.args)
        return None
    if isinstance(obj, SMap):
        map_pop(interp, obj, key)
        return None
    if isinstance(obj, SObj):
        fn = interp.getattr(obj, "__delitem__", interp.cur_frame)
        interp.call(fn, [key], {}, interp.cur_frame)
        return None
    return NotImplemented


# --------------------------------------------------------------------------
# ordered symbolic maps (python dict with insertion order)
# --------------------------------------------------------------------------
def new_ordered_map(ctx, name, vkind=None, mkval=None, val=None):
    """Fresh symbolic dict with integer keys.

    Representation invariant (assumed for a fresh map, re-established by every
    operation): ``order`` lists the keys without repetition and ``pos`` is its
    inverse: dom[k] <=> 0 <= pos[k] < n and order[pos[k]] == k."""
    nm = ctx._name(name)
    dom = z3.Array(nm + ".dom", z3.IntSort(), z3.BoolSort())
    pos = z3.Array(nm + ".pos", z3.IntSort(), z3.IntSort())
    order = ctx.arr(nm + ".order", "int")
    if val is None:
        val = z3.Array(nm + ".val", z3.IntSort(), sort_of(vkind or "int"))
    m = SMap(dom, val, order.n, "int", vkind, order, pos, mkval)
    m.birth = ctx.stamp
    ctx.assume(map_wf(m))
    return m


def map_wf(m, tag=""):
    k = z3.Int("k!m" + tag)
    i = z3.Int("i!m" + tag)
    n = m.order.n
    return z3.And(
        m.size == n, n >= 0,
        z3.ForAll([k], z3.Implies(z3.Select(m.dom, k),
                                  z3.And(z3.Select(m.pos, k) >= 0, z3.Select(m.pos, k) < n,
                                         m.order.sel(z3.Select(m.pos, k)) == k))),
        z3.ForAll([i], z3.Implies(z3.And(i >= 0, i < n),
                                  z3.And(z3.Select(m.dom, m.order.sel(i)),
                                         z3.Select(m.pos, m.order.sel(i)) == i))))


def map_store(interp, m, key, v):
    ctx = interp.ctx
    interp.heap_write(m)
    ke = to_z3(key)
    present = z3.Select(m.dom, ke)
    if z3.is_expr(m.val):
        m.val = z3.Store(m.val, ke, to_z3(v, m.vkind))
    else:
        oldval = m.val
        m.val = lambda q, _o=oldval, _k=ke, _v=v: _ite_val(q == _k, _v, _o(q))
    if ctx.decide(wrap(present)):
        return
    if m.order is not None:
        n = m.order.n
        new_order = SArr(n + 1, z3.Store(m.order.a, n, ke), "int")
        m.order = new_order
        m.pos = z3.Store(m.pos, ke, n)
    m.dom = z3.Store(m.dom, ke, z3.BoolVal(True))
    m.size = z3.simplify(m.size + 1)


def _ite_val(c, a, b):
    if isinstance(a, SBytes) and isinstance(b, SBytes):
        return SBytes(z3.If(c, a.lo, b.lo), z3.If(c, a.hi, b.hi), a.ghost)
    return wrap(z3.If(c, to_z3(a), to_z3(b)))


def map_pop(interp, m, key, default=NotImplemented):
    eng = _engine()
    ctx = interp.ctx
    interp.heap_write(m)
    ke = to_z3(key)
    if not ctx.decide(wrap(z3.Select(m.dom, ke))):
        if default is NotImplemented:
            raise eng.PyRaise(KeyError, (key,))
        return default
    val = map_value(m, ke)
    if m.order is not None:
        n = m.order.n
        p = z3.Select(m.pos, ke)
        k = _bound()
        old_order = m.order.a
        new_a = z3.Lambda([k], z3.If(k < p, z3.Select(old_order, k), z3.Select(old_order, k + 1)))
        m.order = SArr(z3.simplify(n - 1), new_a, "int")
        q = _bound("q")
        old_pos = m.pos
        m.pos = z3.Lambda([q], z3.If(z3.Select(old_pos, q) > p, z3.Select(old_pos, q) - 1,
                                     z3.Select(old_pos, q)))
    m.dom = z3.Store(m.dom, ke, z3.BoolVal(False))
    m.size = z3.simplify(m.size - 1)
    return val


# --------------------------------------------------------------------------
# attribute access on symbolic values
# --------------------------------------------------------------------------
def sym_attr(interp, obj, name):
    eng = _engine()
    if isinstance(obj, SArr):
        if name == "shape":
            return (wrap(obj.n),) + tuple(getattr(obj, "item_shape", ()))
        if name == "size":
            if getattr(obj, "item_shape", ()):
                raise eng.Unsupported("size of n-d array")
            return wrap(obj.n)
        if name == "ndim":
            return 1 + len(getattr(obj, "item_shape", ()))
        if name == "dtype":
            return obj.dtype
        if name == "__class__":
            return list if getattr(obj, "is_list", False) else np.ndarray
        if name == "flags":
            o = interp.ctx.obj("ArrFlags", {"arr": obj, "writeable": obj.writeable})
            return o
        if name == "setflags":
            # ndarray.setflags(write=...): the array (not its base) becomes read-only / writable
            def _setflags(interp, arr, write=None, **kw):
                if write is not None:
                    if not isinstance(write, bool):
                        raise eng.Unsupported("symbolic writeable flag")
                    if write and arr.base is not None and not arr.base.writeable:
                        raise eng.PyRaise(ValueError, ("cannot set WRITEABLE flag to True of this array",))
                    arr.writeable = write
                return None
            return eng.BoundModel(_setflags, obj, name)
        m = ARR_METHODS.get(name)
        if m is not None:
            return eng.BoundModel(m, obj, name)
    if isinstance(obj, SMap):
        m = MAP_METHODS.get(name)
        if m is not None:
            return eng.BoundModel(m, obj, name)
    if isinstance(obj, SStr):
        m = STR_METHODS.get(name)
        if m is not None:
            return eng.BoundModel(m, obj, name)
    if isinstance(obj, Arr2D) and name in ("transpose", "T"):
        t = Arr2D(obj.rows, not obj.transposed)
        return eng.BoundModel(lambda interp, o: t, obj, name) if name == "transpose" else t
    if isinstance(obj, SFmt) and name in ("strip", "lstrip", "rstrip"):
        # white space removed from a formatted text with symbolic fields: an (uninterpreted) function of the text
        fn = z3.Function("str_" + name, _Elem, _Elem)
        return eng.BoundModel(lambda interp, o, *a, **k: ostr(fn(ostr_term(o))), obj, name)
    if isinstance(obj, (SStr, SFmt)) and name == "encode":
        return eng.BoundModel(_anystr_encode, obj, name)
    if isinstance(obj, eng.PyRaiseValue):
        if name == "args":
            return obj.args
    if isinstance(obj, SOpaque):
        m = OPAQUE_METHODS.get((getattr(obj, "pytype", None), name))
        if m is not None:
            return eng.BoundModel(m, obj, name)
        if name == "shape" and getattr(obj, "shape", None) is not None:
            return obj.shape
        if name == "setflags" and getattr(obj, "pytype", None) is None:
            # an opaque array value: its flags are not modelled (it has no modelled aliases)
            return eng.BoundModel(lambda interp, o, *a, **k: None, obj, name)
    return NotImplemented


# text lines as opaque values: utf8 / decode are uninterpreted inverse functions,
# blen = number of bytes, clen = number of characters (clen(s) <= blen(utf8(s)))
from .sym import Elem as _Elem   # noqa: E402
utf8 = z3.Function("utf8", _Elem, _Elem)
utf8dec = z3.Function("utf8dec", _Elem, _Elem)
blen = z3.Function("blen", _Elem, z3.IntSort())
clen = z3.Function("clen", _Elem, z3.IntSort())
OPAQUE_METHODS = {}


def text_facts(ctx, e):
    """facts about one str payload e (S-UTF8): decode inverts encode; a
    character takes between one and four bytes"""
    axiom("S-UTF8 (encode/decode inverse; 1..4 bytes per character)")
    ctx.assume(utf8dec(utf8(e)) == e)
    ctx.assume(z3.And(clen(e) >= 0, clen(e) <= blen(utf8(e)), blen(utf8(e)) <= 4 * clen(e)))


def _op_encode(interp, obj, *a, **k):
    text_facts(interp.ctx, obj.e)
    r = SOpaque(utf8(obj.e))
    r.pytype = bytes
    return r


def _op_decode(interp, obj, *a, **k):
    r = SOpaque(utf8dec(obj.e))
    r.pytype = str
    return r


OPAQUE_METHODS[(str, "encode")] = _op_encode
OPAQUE_METHODS[(bytes, "decode")] = _op_decode


def obj_attr(interp, obj, name):
    return NotImplemented


def container_attr(interp, obj, name):
    return NotImplemented


ARR_METHODS = {}
MAP_METHODS = {}
STR_METHODS = {}


def arr_method(name):
    def deco(f):
        ARR_METHODS[name] = f
        return f
    return deco


def map_method(name):
    def deco(f):
        MAP_METHODS[name] = f
        return f
    return deco


@map_method("keys")
def _map_keys(interp, m):
    return SKeysView(m)


@map_method("pop")
def _map_pop(interp, m, key, default=NotImplemented):
    return map_pop(interp, m, key, default)


@map_method("get")
def _map_get(interp, m, key, default=None):
    ke = to_z3(key)
    if interp.ctx.decide(wrap(z3.Select(m.dom, ke))):
        return map_value(m, ke)
    return default


@arr_method("copy")
def _arr_copy(interp, a):
    r = SArr(a.n, a.a, a.kind, dtype=a.dtype)
    r.birth = interp.ctx.stamp
    return r


@arr_method("append")
def _arr_append(interp, a, v):
    eng = _engine()
    if not getattr(a, "is_list", False):
        raise eng.PyRaise(AttributeError, ("append",))
    interp.heap_write(a)
    a.set_a(z3.Store(a.a, a.n, to_z3(v, a.kind)))
    a.n = z3.simplify(a.n + 1)
    return None


# --------------------------------------------------------------------------
# builtins
# --------------------------------------------------------------------------
@model(len)
def _len(interp, v):
    eng = _engine()
    if isinstance(v, SArr):
        return wrap(v.n)
    if isinstance(v, SBytes):
        return wrap(v.hi - v.lo)
    if isinstance(v, SMap):
        return wrap(v.size)
    if isinstance(v, SStr):
        return wrap(z3.Length(v.e))
    if isinstance(v, SKeysView):
        return wrap(v.map.size)
    if isinstance(v, SObj):
        fn = interp.getattr(v, "__len__", interp.cur_frame)
        return interp.call(fn, [], {}, interp.cur_frame)
    if isinstance(v, SOpaque) and getattr(v, "pytype", None) is bytes:
        interp.ctx.assume(blen(v.e) >= 0)
        return wrap(blen(v.e))
    if isinstance(v, SOpaque) and getattr(v, "pytype", None) is str:
        text_facts(interp.ctx, v.e)
        return wrap(clen(v.e))
    if is_sym(v):
        if isinstance(v, SOpaque) and getattr(v, "pytype", None) is None \
                and getattr(getattr(interp.cur_frame, "unit", None), "opaque_arith", False):
            st = interp.ctx.__dict__.setdefault("_opaque_len", {})
            key = str(v.e)
            if key not in st:
                st[key] = interp.ctx.int("len_" + key, lo=0)
            return st[key]
        raise eng.Unsupported(f"len of {type(v).__name__}")
    try:
        return len(v)
    except TypeError as ex:
        raise eng.PyRaise(TypeError, ex.args)


def _minmax(interp, args, ismin, kwargs):
    eng = _engine()
    if len(args) == 1:
        p = interp.iter_plan(args[0])
        if p[0] != "concrete":
            raise eng.Unsupported("min/max of symbolic sequence")
        args = p[1]
        if not args:
            if "default" in kwargs:
                return kwargs["default"]
            raise eng.PyRaise(ValueError, ("empty sequence",))
    if not any(is_sym(a) for a in args):
        return (min if ismin else max)(args)
    r = args[0]
    for x in args[1:]:
        k = _arith_kind(r, x)
        a, b = to_z3(r, k), to_z3(x, k)
        # python keeps the first of equal elements
        r = wrap(z3.If(b < a, b, a) if ismin else z3.If(b > a, b, a))
    return r


@model(min)
def _min(interp, *args, **kw):
    return _minmax(interp, args, True, kw)


@model(max)
def _max(interp, *args, **kw):
    return _minmax(interp, args, False, kw)


@model(abs)
def _abs(interp, v):
    if not is_sym(v):
        return abs(v)
    return wrap(z3.If(v.e < 0, -v.e, v.e))


@model(range)
def _range(interp, *args):
    if not any(is_sym(a) for a in args):
        try:
            return range(*[int(a) if isinstance(a, np.integer) else a for a in args])
        except Exception as ex:
            raise _engine().PyRaise(type(ex), ex.args)
    if len(args) == 1:
        return SRange(0, args[0])
    if len(args) == 2:
        return SRange(args[0], args[1])
    return SRange(*args)


@model(enumerate)
def _enumerate(interp, it, start=0):
    if not _engine()._has_sym(it):
        return list(enumerate(it, start))
    return SEnumerate(it, start)


@model(zip)
def _zip(interp, *its):
    if not any(_engine()._has_sym(i) for i in its):
        return list(zip(*its))
    plans = [interp.iter_plan(i) for i in its]
    if all(p[0] == "concrete" for p in plans):
        return list(zip(*[p[1] for p in plans]))
    return SZip(its)


@model(isinstance)
def _isinstance(interp, v, cls):
    eng = _engine()
    if not is_sym(v) and not isinstance(v, (eng.Closure, eng.FuncRef)):
        if isinstance(v, (list, tuple)) or not eng._has_sym(v):
            return isinstance(v, cls)
    clss = cls if isinstance(cls, tuple) else (cls,)
    for c in clss:
        if sym_isinstance(v, c):
            return True
    return False


def sym_isinstance(v, c):
    if isinstance(v, SArr):
        if getattr(v, "is_list", False):
            return c is list
        return c is np.ndarray
    import numbers as _numbers
    if isinstance(v, SInt):
        if c in (int, np.integer, np.number, numbers_Integral(), _numbers.Number, _numbers.Real, _numbers.Rational):
            return True
        return False
    if isinstance(v, SReal):
        return c in (float, np.floating, np.number, _numbers.Number, _numbers.Real)
    if isinstance(v, SBool):
        return c in (bool, int, np.bool_, _numbers.Number, _numbers.Real, numbers_Integral())
    if isinstance(v, SStr):
        return c is str
    if isinstance(v, SBytes):
        return c is bytes
    if isinstance(v, SOpaque):
        pt = getattr(v, "pytype", None)
        if pt is None:
            raise _engine().Unsupported("isinstance of an untyped opaque value")
        if not isinstance(pt, type):
            # symbolic value classes named by a tag ("path": a pathlib path)
            import os as _os
            return pt == "path" and isinstance(c, type) and issubclass(_pathlib.PurePosixPath, c) or \
                (pt == "path" and c is _os.PathLike)
        return isinstance(c, type) and issubclass(pt, c)
    if isinstance(v, SMap):
        return c is dict
    if isinstance(v, SObj):
        if isinstance(v.cls, type):
            return issubclass(v.cls, c) if isinstance(c, type) else False
        real = getattr(v, "realcls", None)
        if real is not None and isinstance(c, type):
            return issubclass(real, c)
        return getattr(c, "__name__", None) == v.cls
    return False


def numbers_Integral():
    import numbers
    return numbers.Integral


@model(int)
def _int(interp, v=0, *a):
    eng = _engine()
    if not is_sym(v):
        try:
            return int(v, *a)
        except Exception as ex:
            raise eng.PyRaise(type(ex), ex.args)
    if isinstance(v, SInt):
        return SInt(v.e)
    if isinstance(v, SOpaque) and getattr(v, "pytype", None) is None \
            and getattr(getattr(interp.cur_frame, "unit", None), "opaque_arith", False):
        return interp.ctx.int("int_of_opaque")
    if isinstance(v, SBool):
        return wrap(z3.If(v.e, Z(1), Z(0)))
    if isinstance(v, SReal):
        # truncation toward zero
        e = v.e
        return wrap(z3.If(e >= 0, z3.ToInt(e), -z3.ToInt(-e)))
    raise eng.Unsupported(f"int() of {type(v).__name__}")


@model(float)
def _float(interp, v=0.0):
    eng = _engine()
    if not is_sym(v):
        try:
            return float(v)
        except Exception as ex:
            raise eng.PyRaise(type(ex), ex.args)
    if isinstance(v, SInt):
        return wrap(z3.ToReal(v.e))
    if isinstance(v, SReal):
        return v
    if isinstance(v, SBool):
        return wrap(z3.If(v.e, z3.RealVal(1), z3.RealVal(0)))
    raise eng.Unsupported(f"float() of {type(v).__name__}")


@model(bool)
def _bool(interp, v=False):
    return truth(interp, v)


@model(round)
def _round(interp, v, nd=None):
    eng = _engine()
    if not is_sym(v):
        return round(v, nd) if nd is not None else round(v)
    if isinstance(v, SInt):
        return v
    raise eng.Unsupported("round of symbolic real")


@model(list)
def _list(interp, it=()):
    eng = _engine()
    if isinstance(it, SKeysView):
        o = it.map.order
        r = SArr(o.n, o.a, "int")
        r.is_list = True
        r.birth = interp.ctx.stamp
        return r
    p = interp.iter_plan(it)
    if p[0] == "concrete":
        return list(p[1])
    if isinstance(it, SArr):
        r = SArr(it.n, it.a, it.kind)
        r.is_list = True
        r.birth = interp.ctx.stamp
        return r
    raise eng.Unsupported("list() of symbolic iterable")


@model(tuple)
def _tuple(interp, it=()):
    p = interp.iter_plan(it)
    if p[0] == "concrete":
        return tuple(p[1])
    raise _engine().Unsupported("tuple() of symbolic iterable")


@model(str)
def _str(interp, v=""):
    eng = _engine()
    if not is_sym(v):
        return str(v)
    if isinstance(v, SStr):
        return v
    if isinstance(v, (SInt, SBool, SReal, SFmt)):
        return SFmt([v]) if not isinstance(v, SFmt) else v
    raise eng.Unsupported(f"str() of {type(v).__name__}")


_str_of_int = z3.Function("str_of_int", z3.IntSort(), z3.StringSort())


def str_of_int(e):
    axiom("S-STR-INT(uninterpreted injective)")
    return _str_of_int(e)


def str_format_opaque(interp, fmt, args):
    return "<formatted>"


class SFmt(Sym):
    """result of an f-string / format with symbolic fields, kept structurally:
    a list of literal pieces (str) and evaluated values"""

    def __init__(self, parts):
        self.parts = parts

    def __repr__(self):
        return "SFmt(" + ", ".join(repr(p) for p in self.parts) + ")"


def fstring(interp, e, f):
    import ast as _ast
    parts = []
    for v in e.values:
        if isinstance(v, _ast.Constant):
            parts.append(v.value)
        else:
            x = interp.eval(v.value, f)
            if v.format_spec is not None or v.conversion != -1:
                parts.append(("fmt", x, _ast.unparse(v)))
            elif isinstance(x, SFmt):
                parts.extend(x.parts)            # nested formatted string: flatten
            elif is_sym(x):
                parts.append(x)
            elif _engine()._has_sym(x):
                parts.append(("struct", x))       # e.g. a shape tuple with symbolic entries
            else:
                parts.append(str(x))
    # merge adjacent literals
    out = []
    for p in parts:
        if isinstance(p, str) and out and isinstance(out[-1], str):
            out[-1] += p
        else:
            out.append(p)
    return SFmt(out)


@model(getattr)
def _getattr(interp, obj, name, *default):
    eng = _engine()
    try:
        return interp.getattr(obj, name, interp.cur_frame)
    except eng.PyRaise as ex:
        if ex.name == "AttributeError" and default:
            return default[0]
        raise


@model(hasattr)
def _hasattr(interp, obj, name):
    eng = _engine()
    try:
        interp.getattr(obj, name, interp.cur_frame)
        return True
    except eng.PyRaise as ex:
        if ex.name == "AttributeError":
            return False
        raise


@model(sum)
def _sum(interp, it, start=0):
    p = interp.iter_plan(it)
    if p[0] != "concrete":
        raise _engine().Unsupported("sum of symbolic sequence")
    r = start
    for x in p[1]:
        r = binop(interp, "Add", r, x)
    return r


@model(sorted)
def _sorted(interp, it, **kw):
    eng = _engine()
    if not eng._has_sym(it) and not eng._has_sym(kw):
        return sorted(it, **kw)
    raise eng.Unsupported("sorted of symbolic sequence")


@model(any)
def _any(interp, it):
    p = interp.iter_plan(it)
    if p[0] != "concrete":
        raise _engine().Unsupported("any of symbolic sequence")
    for x in p[1]:
        if interp.ctx.decide(truth(interp, x)):
            return True
    return False


@model(all)
def _all(interp, it):
    p = interp.iter_plan(it)
    if p[0] != "concrete":
        raise _engine().Unsupported("all of symbolic sequence")
    for x in p[1]:
        if not interp.ctx.decide(truth(interp, x)):
            return False
    return True


# --------------------------------------------------------------------------
# numpy scalars and simple functions
# --------------------------------------------------------------------------
_INT_RANGES = {"int64": (-2**63, 2**63 - 1), "uint64": (0, 2**64 - 1),
               "int32": (-2**31, 2**31 - 1), "uint32": (0, 2**32 - 1),
               "uint8": (0, 255), "int8": (-128, 127), "uint16": (0, 65535),
               "int16": (-2**15, 2**15 - 1), "intp": (-2**63, 2**63 - 1)}


def _np_int_model(tp):
    name = np.dtype(tp).name
    lo, hi = _INT_RANGES[name]

    def m(interp, v=0):
        eng = _engine()
        if not is_sym(v):
            try:
                return tp(v)
            except Exception as ex:
                raise eng.PyRaise(type(ex), ex.args)
        if isinstance(v, SBool):
            return wrap(z3.If(v.e, Z(1), Z(0)))
        if isinstance(v, SReal):
            v = _int(interp, v)
        if isinstance(v, SInt):
            # numpy >= 2 raises OverflowError for out-of-range python ints
            if not interp.ctx.decide(wrap(z3.And(v.e >= lo, v.e <= hi))):
                raise eng.PyRaise(OverflowError, (f"Python integer out of bounds for {name}",))
            return SInt(v.e, dtype=name)
        raise eng.Unsupported(f"np.{name} of {type(v).__name__}")
    return m


for _tp in (np.int64, np.uint64, np.int32, np.uint32, np.uint8, np.int8, np.uint16, np.int16):
    _MODELS[_tp] = _np_int_model(_tp)


@model(np.float64, np.float32)
def _np_float(interp, v=0.0):
    return _float(interp, v)


cur_interp = None


def str_format(interp, fmt, args, kwargs):
    eng = _engine()
    if not eng._has_sym(args) and not eng._has_sym(kwargs):
        try:
            return fmt.format(*args, **kwargs)
        except Exception as ex:
            raise eng.PyRaise(type(ex), ex.args)
    if kwargs or "{" not in fmt:
        raise eng.Unsupported("str.format with keywords")
    pieces = fmt.split("{}")
    if len(pieces) != len(args) + 1 or any("{" in p or "}" in p for p in pieces):
        raise eng.Unsupported(f"str.format pattern {fmt!r}")
    parts = []
    for i, p in enumerate(pieces):
        if p:
            parts.append(p)
        if i < len(args):
            parts.append(args[i] if is_sym(args[i]) else str(args[i]))
    merged = []
    for p in parts:       # adjacent literal pieces form one piece
        if isinstance(p, str) and merged and isinstance(merged[-1], str):
            merged[-1] += p
        else:
            merged.append(p)
    return SFmt(merged)


def numeric_name(key):
    """z3 Int term n if key is the decimal name str(n) built from a symbolic int"""
    if isinstance(key, SFmt) and len(key.parts) == 1 and isinstance(key.parts[0], SInt):
        return key.parts[0].e
    if isinstance(key, str) and key.isdigit():
        return Z(int(key))
    return None


@model(dict)
def _dict(interp, *args, **kw):
    eng = _engine()
    if args and isinstance(args[0], SObj) and args[0].clsname == "H5Attrs":
        from . import h5model
        return dict(h5model._attrs_items(interp, args[0]), **kw)
    if args and isinstance(args[0], (dict, list, tuple)):
        return dict(args[0], **kw)
    if not args:
        return dict(**kw)
    raise eng.Unsupported("dict() of " + type(args[0]).__name__)


def divmod_sym(ctx, a, b):
    """Python (a // b, a % b) for a symbolic divisor b != 0, by the defining
    property a == b*q + r with r between 0 and b (exclusive, sign of b): the
    quotient and remainder are fresh integers, so the obligations stay in
    polynomial arithmetic instead of z3's div/mod.  The same (a, b) on one path
    yields the same pair."""
    store = ctx.__dict__.setdefault("_divmod", {})
    key = (z3.simplify(a).get_id(), z3.simplify(b).get_id())
    if key in store:
        return store[key]
    q = z3.Int(ctx._name("q"))
    r = z3.Int(ctx._name("r"))
    ctx.assume(a == b * q + r)
    ctx.assume(z3.If(b > 0, z3.And(r >= 0, r < b), z3.And(r <= 0, r > b)))
    store[key] = (wrap(q), wrap(r))
    return store[key]


import pathlib as _pathlib   # noqa: E402


@model(_pathlib.Path.exists)
def _path_exists(interp, path, **kw):
    """P-EXISTS: whether a path exists is an unknown of the environment"""
    axiom("P-EXISTS (file system state is unconstrained)")
    store = interp.ctx.__dict__.setdefault("_exists", {})
    import os as _os
    key = _os.path.normpath(str(path))      # different spellings of a name denote the same file
    if key not in store:
        store[key] = interp.ctx.bool("exists_" + key.replace("/", "_"))
    return store[key]


@model(str.__eq__)
def _str_eq(interp, a, b):
    if isinstance(b, (str, SStr)) and isinstance(a, (str, SStr)):
        return compare(interp, "Eq", a, b)
    return NotImplemented


@model(str.startswith)
def _str_startswith(interp, a, b, *rest):
    eng = _engine()
    if rest:
        raise eng.Unsupported("startswith with offsets")
    if not isinstance(b, (str, SStr, tuple)):
        raise eng.PyRaise(TypeError, ("startswith first arg must be str or a tuple of str",))
    if isinstance(b, tuple):
        raise eng.Unsupported("startswith with a tuple")
    if isinstance(a, str) and isinstance(b, str):
        return a.startswith(b)
    return wrap(z3.PrefixOf(to_z3(b), to_z3(a)))


STR_METHODS["startswith"] = lambda interp, a, b, *r: _str_startswith(interp, a, b, *r)
STR_METHODS["endswith"] = lambda interp, a, b: wrap(z3.SuffixOf(to_z3(b), to_z3(a)))


@model(str.__contains__)
def _str_contains(interp, a, b):
    eng = _engine()
    if not isinstance(b, (str, SStr)):
        raise eng.PyRaise(TypeError, ("'in <string>' requires string as left operand",))
    if isinstance(a, str) and isinstance(b, str):
        return b in a
    return wrap(z3.Contains(to_z3(a), to_z3(b)))


import warnings as _warnings   # noqa: E402


@model(_warnings.simplefilter, _warnings.filterwarnings, _warnings.warn)
def _warn_noop(interp, *a, **k):
    """warnings machinery has no effect on any property (dropped)"""
    return None


@model(_warnings.catch_warnings)
def _catch_warnings(interp, *a, record=False, **k):
    ctx = interp.ctx
    w = None
    if record:
        if getattr(getattr(interp.cur_frame, "unit", None), "no_warnings_recorded", False):
            w = []          # scenario assumption of the unit: nothing was recorded
        else:
            w = ctx.arr("recorded_warnings", "elem")
            w.is_list = True
    o = ctx.obj("WarnCtx", {"_w": w})
    return o


def _warnctx_enter(interp, o):
    return o.fields["_w"]


def _warnctx_exit(interp, o, *a):
    return None


def _op_path_rename(interp, obj, target):
    from . import fsghost
    fsghost.event(interp, "rename", obj, target=target)
    return target


OPAQUE_METHODS[("path", "rename")] = _op_path_rename


# --------------------------------------------------------------------------
# strings (z3 sequences) and time
# --------------------------------------------------------------------------
def str_term(v):
    """z3 string term of a str-like value (SFmt is concatenated)"""
    eng = _engine()
    if isinstance(v, str):
        return z3.StringVal(v)
    if isinstance(v, SStr):
        return v.e
    if isinstance(v, SInt):
        return z3.IntToStr(v.e)
    if isinstance(v, SFmt):
        parts = [str_term(p) for p in v.parts]
        return z3.Concat(*parts) if len(parts) > 1 else parts[0]
    raise eng.Unsupported(f"string value of {type(v).__name__}")


def str_join(interp, sep, items):
    eng = _engine()
    p = interp.iter_plan(items)
    if p[0] != "concrete":
        raise eng.Unsupported("str.join of a symbolic-length sequence")
    parts = []
    for i, x in enumerate(p[1]):
        if i:
            parts.append(z3.StringVal(sep))
        parts.append(str_term(x))
    if not parts:
        return ""
    return SStr(z3.Concat(*parts) if len(parts) > 1 else parts[0])


def _sstr_getitem(interp, s, key):
    eng = _engine()
    L = z3.Length(s.e)
    if isinstance(key, slice):
        a, b = clamp_slice(L, key, interp.ctx)
        return SStr(z3.SubString(s.e, a, b - a))
    if isinstance(key, (int, SInt)):
        kk = norm_index(interp, L, key)
        return SStr(z3.SubString(s.e, kk, 1))
    raise eng.Unsupported("string index")


_getitem_prev = getitem


def getitem(interp, obj, key):   # noqa: F811
    if isinstance(obj, SStr):
        return _sstr_getitem(interp, obj, key)
    return _getitem_prev(interp, obj, key)


import time as _time   # noqa: E402

epoch = z3.Function("epoch", z3.StringSort(), z3.RealSort())     # mktime(strptime(stamp))
str_frac = z3.Function("str_frac", z3.StringSort(), z3.RealSort())  # float(".ff")


@model(_time.strptime)
def _strptime(interp, s, fmt):
    """T-STRPTIME: the parsed time of a well-formed stamp is a function of the stamp"""
    axiom("T-EPOCH (mktime(strptime(stamp)) is a function of the stamp, monotone in the "
          "lexicographic order of zero-padded stamps; DST / time zone not modelled)")
    o = interp.ctx.obj("StructTime", {"stamp": str_term(s), "fmt": fmt})
    return o


@model(_time.mktime)
def _mktime(interp, st):
    return wrap(epoch(st.fields["stamp"]))


_float_prev = _MODELS[float]


def _float_str(interp, v=0.0):
    if isinstance(v, SStr):
        axiom("S-FLOAT (float of a fractional-seconds suffix '.ff' lies in [0, 1))")
        r = str_frac(v.e)
        interp.ctx.assume(z3.And(r >= 0, r < 1))
        return wrap(r)
    return _float_prev(interp, v)


_MODELS[float] = _float_str

pyround = z3.Function("pyround", z3.RealSort(), z3.IntSort())


def _round_real(interp, v, nd=None):
    if isinstance(v, SReal) and nd is None:
        axiom("N-ROUND (round(x) is an integer within 1/2 of x; round(0) == 0)")
        r = pyround(v.e)
        interp.ctx.assume(z3.And(z3.ToReal(r) - v.e <= z3.RealVal("1/2"), v.e - z3.ToReal(r) <= z3.RealVal("1/2")))
        interp.ctx.assume(pyround(z3.RealVal(0)) == 0)
        return wrap(r)
    return _round(interp, v, nd)


_MODELS[round] = _round_real


def sort_small(interp, items, key=None, reverse=False):
    """stable insertion sort of a concrete-length list whose keys may be symbolic:
    each comparison forks the path (the result is one concrete permutation)"""
    eng = _engine()
    if reverse:
        raise eng.Unsupported("sorted(reverse=True) with symbolic keys")
    keyed = []
    for x in items:
        kx = x if key is None else interp.call(key, [x], {}, interp.cur_frame)
        keyed.append((kx, x))
    out = []
    for kx, x in keyed:
        pos = len(out)
        # stable: insert after all elements that are <= x
        while pos > 0:
            lt = compare(interp, "Lt", kx, out[pos - 1][0])
            if interp.ctx.decide(lt if isinstance(lt, bool) else lt):
                pos -= 1
            else:
                break
        out.insert(pos, (kx, x))
    return [x for _, x in out]


def _sorted_sym(interp, it, key=None, reverse=False):
    eng = _engine()
    if not eng._has_sym(it) and (key is None or not isinstance(key, (eng.Closure,))):
        return sorted(it, key=key, reverse=reverse)
    p = interp.iter_plan(it)
    if p[0] != "concrete":
        raise eng.Unsupported("sorted of a symbolic-length sequence")
    if not eng._has_sym(p[1]) and key is None:
        return sorted(p[1], reverse=reverse)
    return sort_small(interp, p[1], key, reverse)


_MODELS[sorted] = _sorted_sym


@model(_pathlib.Path.rename, _pathlib.Path.replace)
def _path_rename(interp, path, target):
    """P-RENAME: recorded in the ghost file-system log (atomic on POSIX)"""
    axiom("P-RENAME (rename is atomic; recorded in the ghost file-system log)")
    from . import fsghost
    fsghost.event(interp, "rename", path, target=target)
    return target


@model(_pathlib.Path.unlink)
def _path_unlink(interp, path, *a, **k):
    from . import fsghost
    fsghost.event(interp, "unlink", path)
    return None


@model(_pathlib.Path.is_file, _pathlib.Path.is_dir)
def _path_isfile(interp, path):
    return _path_exists(interp, path)


@model(_pathlib.Path.is_symlink)
def _path_is_symlink(interp, path, **kw):
    """symbolic links are not modelled by the ghost file system (P-RESOLVE): no name is a link; links are
    exercised by the native harness of C10"""
    axiom("P-RESOLVE (resolve() of an absolute name is its lexical normal form; no symbolic links)")
    return False


@model(_pathlib.Path.resolve)
def _path_resolve(interp, path, *a, **k):
    """P-RESOLVE: for a concrete absolute name, resolve() is the lexical normal form ('.' and
    '..' removed); symbolic links are not modelled (native harness of C10)"""
    if isinstance(path, _pathlib.PurePath):
        import os as _os
        if path.is_absolute():
            axiom("P-RESOLVE (resolve() of an absolute name is its lexical normal form; no symbolic links)")
            return type(path)(_os.path.normpath(str(path)))
    return path


@model(_pathlib.Path.absolute)
def _path_absolute(interp, path, *a, **k):
    """absolute() of an absolute name is the name itself ('..' is kept)"""
    if isinstance(path, _pathlib.PurePath) and not path.is_absolute():
        raise _engine().Unsupported("absolute() of a relative path")
    return path


# --------------------------------------------------------------------------
# opaque strings: str values about which only equality, an (axiomatised) order,
# concatenation, slicing and length are known -- no string solver involved
# --------------------------------------------------------------------------
ostr_concat = z3.Function("ostr_concat", _Elem, _Elem, _Elem)
ostr_slice = z3.Function("ostr_slice", _Elem, z3.IntSort(), z3.IntSort(), _Elem)
ostr_lt = z3.Function("ostr_lt", _Elem, _Elem, z3.BoolSort())
ostr_of_int = z3.Function("ostr_of_int", z3.IntSort(), _Elem)
ostr_frac = z3.Function("ostr_frac", _Elem, z3.RealSort())
ostr_epoch = z3.Function("ostr_epoch", _Elem, z3.RealSort())


def ostr(e):
    r = SOpaque(e)
    r.pytype = str
    return r


def ostr_term(v):
    if isinstance(v, SOpaque):
        return v.e
    if isinstance(v, str):
        return z3.Const("lit!" + "".join(c if c.isalnum() else f"_{ord(c):x}_" for c in v), _Elem)
    if isinstance(v, SInt):
        return ostr_of_int(v.e)
    if isinstance(v, int):
        return ostr_of_int(Z(v))
    if isinstance(v, SFmt):
        # a formatted text: the concatenation of its parts
        acc = None
        for part in v.parts:
            t = ostr_term(part)
            acc = t if acc is None else ostr_concat(acc, t)
        return acc if acc is not None else ostr_term("")
    raise _engine().Unsupported(f"opaque string from {type(v).__name__}")


def ostr_order_facts(ctx, a, b):
    """S-ORDER: str < is a strict total order (ground instances for the compared terms)"""
    axiom("S-ORDER (str '<' is a strict total order; ground instances)")
    seen = ctx.__dict__.setdefault("_ostr_terms", [])
    for t in (a, b):
        if not any(t.eq(x) for x in seen):
            for x in seen:
                ctx.assume(z3.Or(ostr_lt(t, x), ostr_lt(x, t), t == x))
                ctx.assume(z3.Not(z3.And(ostr_lt(t, x), ostr_lt(x, t))))
                for y in seen:
                    for (p, q, r) in ((t, x, y), (x, t, y), (x, y, t)):
                        ctx.assume(z3.Implies(z3.And(ostr_lt(p, q), ostr_lt(q, r)), ostr_lt(p, r)))
            ctx.assume(z3.Not(ostr_lt(t, t)))
            seen.append(t)


_binop_prev = binop


def binop(interp, op, a, b, inplace=False):   # noqa: F811
    if op == "Add" and (isinstance(a, SOpaque) and a.pytype is str or isinstance(b, SOpaque) and b.pytype is str) \
            and isinstance(a, (SOpaque, str)) and isinstance(b, (SOpaque, str)):
        return ostr(ostr_concat(ostr_term(a), ostr_term(b)))
    return _binop_prev(interp, op, a, b, inplace)


_compare_prev = compare


def compare(interp, op, a, b):   # noqa: F811
    # an HDF5 dataset compared with an array: numpy compares the dataset's content elementwise
    if isinstance(a, SObj) and a.clsname == "H5Dataset" and isinstance(b, SArr):
        a = a.fields["content"]
    if isinstance(b, SObj) and b.clsname == "H5Dataset" and isinstance(a, SArr):
        b = b.fields["content"]
    sa = isinstance(a, SOpaque) and a.pytype is str
    sb = isinstance(b, SOpaque) and b.pytype is str
    if (sa or sb) and isinstance(a, (SOpaque, str)) and isinstance(b, (SOpaque, str)) \
            and op in ("Lt", "LtE", "Gt", "GtE", "Eq", "NotEq"):
        x, y = ostr_term(a), ostr_term(b)
        if op == "Eq":
            return wrap(x == y)
        if op == "NotEq":
            return wrap(x != y)
        ostr_order_facts(interp.ctx, x, y)
        return wrap({"Lt": ostr_lt(x, y), "Gt": ostr_lt(y, x),
                     "LtE": z3.Not(ostr_lt(y, x)), "GtE": z3.Not(ostr_lt(x, y))}[op])
    return _compare_prev(interp, op, a, b)


_getitem_prev2 = getitem


def getitem(interp, obj, key):   # noqa: F811
    if isinstance(obj, SOpaque) and obj.pytype is str and isinstance(key, slice) and key.step is None:
        lo = to_z3(key.start) if key.start is not None else Z(0)
        hi = to_z3(key.stop) if key.stop is not None else Z(-1)
        return ostr(ostr_slice(obj.e, lo, hi))
    return _getitem_prev2(interp, obj, key)


_str_join_prev = str_join


def str_join(interp, sep, items):   # noqa: F811
    p = interp.iter_plan(items)
    if p[0] == "concrete" and any(isinstance(x, SOpaque) for x in p[1]):
        acc = None
        for x in p[1]:
            t = ostr_term(x if not isinstance(x, SFmt) else (x.parts[0] if len(x.parts) == 1 else x))
            acc = t if acc is None else ostr_concat(ostr_concat(acc, ostr_term(sep)), t)
        return ostr(acc)
    return _str_join_prev(interp, sep, items)


_float_prev2 = _MODELS[float]


def _float_ostr(interp, v=0.0):
    if isinstance(v, SOpaque) and v.pytype is str:
        axiom("S-FLOAT (float of a fractional-seconds suffix '.ff' lies in [0, 1))")
        r = ostr_frac(v.e)
        interp.ctx.assume(z3.And(r >= 0, r < 1))
        return wrap(r)
    return _float_prev2(interp, v)


_MODELS[float] = _float_ostr
_strptime_prev = _MODELS[_time.strptime]


def _strptime_ostr(interp, s, fmt):
    if isinstance(s, SOpaque) and s.pytype is str:
        axiom("T-EPOCH (mktime(strptime(stamp)) is a function of the stamp, monotone in the "
              "lexicographic order of zero-padded stamps; DST / time zone not modelled)")
        return interp.ctx.obj("StructTime", {"ostamp": s.e, "fmt": fmt})
    return _strptime_prev(interp, s, fmt)


def _mktime_any(interp, st):
    if "ostamp" in st.fields:
        return wrap(ostr_epoch(st.fields["ostamp"]))
    return wrap(epoch(st.fields["stamp"]))


_MODELS[_time.strptime] = _strptime_ostr
_MODELS[_time.mktime] = _mktime_any


# --------------------------------------------------------------------------
# hashing: the digest is an injective function (A-HASH) of the *sequence of
# update payloads*; whether the payloads are framed so that the concatenated
# byte stream determines the sequence is a separate obligation of the contract
# --------------------------------------------------------------------------
import hashlib as _hashlib   # noqa: E402


class BytesOf(Sym):
    """the raw bytes of an array value (arr.view(np.uint8) / tobytes())"""

    def __init__(self, arr):
        self.arr = arr

    def __repr__(self):
        return f"BytesOf({self.arr!r})"


class EncodedStr(Sym):
    """s.encode('utf-8') of a (possibly structured / symbolic) string"""

    def __init__(self, s):
        self.s = s

    def __repr__(self):
        return f"EncodedStr({self.s!r})"


@model(_hashlib.md5, _hashlib.sha256)
def _md5(interp, *a, **k):
    o = interp.ctx.obj("Hasher", {"stream": list(a)})
    return o


def _hasher_update(interp, h, data):
    interp.heap_write(h)
    if isinstance(data, SArr):
        src = data
        data = BytesOf(SArr(src.n, src.a, src.kind, dtype=src.dtype))
        data.arr.item_shape = getattr(src, "item_shape", ())
        data.arr.uid_src = getattr(src, "uid_src", src.uid)
    h.fields["stream"].append(data)
    return None


def _hasher_hexdigest(interp, h):
    axiom("A-HASH (the digest is injective on the sequence of update payloads)")
    return ("digest",) + tuple(h.fields["stream"])


def _anystr_encode(interp, s, *a, **k):
    return EncodedStr(s)


bytes_eq = z3.Function("bytes_eq", z3.IntSort(), z3.IntSort(), z3.BoolSort())   # by array uid


def token_eq(interp, a, b):
    """equality of hash-stream payloads"""
    eng = _engine()
    if isinstance(a, EncodedStr) and isinstance(b, EncodedStr):
        return token_eq(interp, a.s, b.s)
    if isinstance(a, BytesOf) and isinstance(b, BytesOf):
        x, y = a.arr, b.arr
        if x.kind != y.kind or len(getattr(x, "item_shape", ())) != len(getattr(y, "item_shape", ())):
            # different element types: the raw bytes may or may not coincide (N-RAWBYTES)
            axiom("N-RAWBYTES (raw bytes of arrays of different dtype/shape may coincide)")
            return wrap(bytes_eq(Z(x.uid), Z(y.uid)))
        k = z3.Int("k!be")
        same = z3.And(x.n == y.n, z3.ForAll([k], z3.Implies(z3.And(k >= 0, k < x.n), x.sel(k) == y.sel(k))))
        dx, dy = getattr(x, "dtype_sym", None), getattr(y, "dtype_sym", None)
        if dx is not None and dy is not None:
            axiom("N-RAWBYTES (raw bytes of arrays of different dtype/shape may coincide)")
            # same dtype: bytes equal iff values equal; different dtype: unconstrained
            be = bytes_eq(Z(x.uid), Z(y.uid))
            interp.ctx.assume(z3.Implies(dx == dy, be == same))
            return wrap(be)
        return wrap(same)
    if isinstance(a, (SFmt, str)) and isinstance(b, (SFmt, str)):
        pa = a.parts if isinstance(a, SFmt) else [a]
        pb = b.parts if isinstance(b, SFmt) else [b]
        if len(pa) != len(pb):
            raise eng.Unsupported("equality of differently structured strings")
        conj = []
        for u, v in zip(pa, pb):
            if isinstance(u, str) and isinstance(v, str):
                if u != v:
                    return False
                continue
            if isinstance(u, str) or isinstance(v, str):
                raise eng.Unsupported("equality of a literal and a formatted field")
            r = compare(interp, "Eq", u, v)
            if r is False:
                return False
            if r is not True:
                conj.append(r.e)
        return wrap(And(*conj)) if conj else True
    return False


itemsize_of = z3.Function("itemsize_of", z3.StringSort(), z3.IntSort())


def bytes_len(b):
    """number of bytes of a BytesOf / EncodedStr payload (z3 Int)"""
    if isinstance(b, BytesOf):
        dt = b.arr.dtype
        size = np.dtype(dt).itemsize if dt is not None else 8
        return b.arr.n * size
    if isinstance(b, EncodedStr):
        return z3.Int("blen!%d" % id(b))
    raise _engine().Unsupported("length of " + type(b).__name__)


_len_prev = _MODELS[len]


def _len_tokens(interp, v):
    if isinstance(v, (BytesOf, EncodedStr)):
        r = wrap(bytes_len(v))
        if isinstance(r, SInt):
            r.len_of = v
        return r
    return _len_prev(interp, v)


_MODELS[len] = _len_tokens


@model(type)
def _type(interp, v, *rest):
    import types as _t
    eng = _engine()
    if rest:
        raise eng.Unsupported("type() with three arguments")
    if not is_sym(v):
        return type(v)
    if isinstance(v, SBool):
        return bool
    if isinstance(v, SInt):
        return int
    if isinstance(v, SReal) or isinstance(v, SF):
        return float
    if isinstance(v, (SStr, SFmt)):
        return str
    if isinstance(v, SArr):
        return list if getattr(v, "is_list", False) else np.ndarray
    if isinstance(v, SObj):
        return _t.SimpleNamespace(__name__=v.clsname)
    if isinstance(v, SOpaque) and v.pytype is not None and isinstance(v.pytype, type):
        return v.pytype
    raise eng.Unsupported("type() of " + type(v).__name__)


@model(_pathlib.Path.stat)
def _path_stat(interp, path, **kw):
    """P-STAT: the stat record of a path is an unknown of the environment"""
    ctx = interp.ctx
    store = ctx.__dict__.setdefault("_stat", {})
    key = str(path)
    if key not in store:
        o = ctx.obj("StatResult", {"st_mtime_ns": ctx.int("st_mtime_ns"), "st_size": ctx.int("st_size", lo=0),
                                   "st_mtime": ctx.real("st_mtime"), "st_ino": ctx.int("st_ino")})
        o.closed = True
        store[key] = o
    return store[key]


@model(slice)
def _slice(interp, *args):
    return slice(*args)


def where_ext(interp, a, b):
    """N-WHERE-EXT: elementwise equal masks have the same enumeration (same
    number of true entries, same positions, same ranks); returned as a formula"""
    axiom("N-WHERE-EXT (extensionality of np.where)")
    ia, ib = where_idx(interp, a), where_idx(interp, b)
    k = z3.Int("k!we")
    j = z3.Int("j!we")
    same = z3.And(a.n == b.n, z3.ForAll([k], z3.Implies(z3.And(k >= 0, k < a.n), a.sel(k) == b.sel(k))))
    concl = z3.And(ia.n == ib.n,
                   z3.ForAll([j], z3.Implies(z3.And(j >= 0, j < ia.n), ia.sel(j) == ib.sel(j))),
                   z3.ForAll([k], z3.Implies(z3.And(k >= 0, k < a.n, a.sel(k)), ia.rank(k) == ib.rank(k))))
    return z3.Implies(same, concl)


# --------------------------------------------------------------------------
# finite sets of integers (python set of ints) as predicates
# --------------------------------------------------------------------------
class SSet(Sym):
    def __init__(self, pred):
        self.pred = pred          # z3 Int term -> z3 Bool


def list_member(L):
    def pred(x):
        j = _bound("j")
        return z3.Exists([j], z3.And(j >= 0, j < L.n, L.sel(j) == x))
    return pred


def member_pred(L):
    """membership predicate of a list value; lists that enumerate a set or are a
    concatenation are unfolded (set(list(S)) == S, set(a + b) == set(a) | set(b))"""
    if getattr(L, "from_set", None) is not None:
        return L.from_set.pred
    if getattr(L, "concat_of", None) is not None:
        pa, pb = member_pred(L.concat_of[0]), member_pred(L.concat_of[1])
        return lambda x: z3.Or(pa(x), pb(x))
    return list_member(SArr(L.n, L.a, "int"))


def enum_set(interp, S, sorted_=False, name="enum"):
    """list(S) / sorted(S): a fresh sequence enumerating the finite set S without
    repetition (strictly increasing when sorted)"""
    ctx = interp.ctx
    axiom("P-SET (a finite set can be enumerated without repetition; sorted() orders it)")
    E = ctx.arr(name, "int")
    E.is_list = True
    j, i, x = z3.Int("j!es"), z3.Int("i!es"), z3.Int("x!es")
    ctx.assume(z3.ForAll([j], z3.Implies(z3.And(j >= 0, j < E.n), S.pred(E.sel(j)))))
    ctx.assume(z3.ForAll([x], z3.Implies(S.pred(x), z3.Exists([j], z3.And(j >= 0, j < E.n, E.sel(j) == x)))))
    if sorted_:
        ctx.assume(z3.ForAll([i, j], z3.Implies(z3.And(i >= 0, i < j, j < E.n), E.sel(i) < E.sel(j))))
    else:
        ctx.assume(z3.ForAll([i, j], z3.Implies(z3.And(i >= 0, i < j, j < E.n), E.sel(i) != E.sel(j))))
    E.from_set = S
    return E


@model(set)
def _set(interp, it=()):
    eng = _engine()
    if isinstance(it, SSet):
        return it
    if isinstance(it, SArr) and it.kind == "int":
        return SSet(member_pred(it))
    if not eng._has_sym(it):
        return set(it)
    raise eng.Unsupported("set() of " + type(it).__name__)


_list_prev = _MODELS[list]


def _list_set(interp, it=()):
    if isinstance(it, SSet):
        return enum_set(interp, it)
    return _list_prev(interp, it)


_MODELS[list] = _list_set
_sorted_prev2 = _MODELS[sorted]


def _sorted_set(interp, it, key=None, reverse=False):
    if isinstance(it, SSet) and key is None and not reverse:
        return enum_set(interp, it, sorted_=True, name="sorted")
    if isinstance(it, SArr) and getattr(it, "is_list", False) and it.kind == "int" and key is None and not reverse:
        if getattr(it, "from_set", None) is not None:
            return enum_set(interp, it.from_set, sorted_=True, name="sorted")
        raise _engine().Unsupported("sorted() of a symbolic list that may contain repetitions")
    return _sorted_prev2(interp, it, key=key, reverse=reverse)


_MODELS[sorted] = _sorted_set
_binop_prev2 = binop


def binop(interp, op, a, b, inplace=False):   # noqa: F811
    if isinstance(a, SSet) and isinstance(b, SSet):
        if op == "Sub":
            return SSet(lambda x, p=a.pred, q=b.pred: z3.And(p(x), z3.Not(q(x))))
        if op == "BitOr":
            return SSet(lambda x, p=a.pred, q=b.pred: z3.Or(p(x), q(x)))
        if op == "BitAnd":
            return SSet(lambda x, p=a.pred, q=b.pred: z3.And(p(x), q(x)))
    if op == "Add" and isinstance(a, SArr) and isinstance(b, SArr) \
            and getattr(a, "is_list", False) and getattr(b, "is_list", False) and not inplace:
        k = _bound()
        an, aa, ba = a.n, a.a, b.a
        r = SArr(z3.simplify(a.n + b.n), z3.Lambda([k], z3.If(k < an, z3.Select(aa, k), z3.Select(ba, k - an))),
                 a.kind)
        r.is_list = True
        r.birth = interp.ctx.stamp
        r.concat_of = (a, b)
        return r
    return _binop_prev2(interp, op, a, b, inplace)


@model(super)
def _super(interp, cls=None, obj=None):
    """super(C, self): calls on the proxy are resolved by contracts named 'Super.<method>'"""
    return interp.ctx.obj("Super", {"obj": obj, "cls": getattr(cls, "__name__", str(cls))})


class SIter(Sym):
    """a symbolic iterable of `n` items given by getter(i) (e.g. the chunks of a generator contract)"""

    def __init__(self, n, getter, info=None):
        self.n = to_z3(n)
        self.getter = getter
        self.info = info or {}


@model(_pathlib.Path.mkdir)
def _path_mkdir(interp, path, *a, **k):
    from . import fsghost
    fsghost.event(interp, "mkdir", path)
    return None


@model(np.isscalar)
def _np_isscalar(interp, x):
    return isinstance(x, (int, float, complex, str, bytes, np.generic, SInt, SReal, SBool, SF))


@model(np.min, np.amin)
def _np_min(interp, x, *a, **k):
    if isinstance(x, (list, tuple)):
        return _minmax(interp, [x], True, {})
    raise _engine().Unsupported("np.min of " + type(x).__name__)


@model(np.max, np.amax)
def _np_max(interp, x, *a, **k):
    if isinstance(x, (list, tuple)):
        return _minmax(interp, [x], False, {})
    raise _engine().Unsupported("np.max of " + type(x).__name__)


@model(np.copy)
def _np_copy(interp, x, *a, **k):
    if isinstance(x, SArr):
        r = SArr(x.n, x.a, x.kind, dtype=x.dtype)
        r.item_shape = getattr(x, "item_shape", ())
        r.birth = interp.ctx.stamp
        return r
    if not _engine()._has_sym(x):
        return np.copy(x)
    raise _engine().Unsupported("np.copy of " + type(x).__name__)


# --------------------------------------------------------------------------
# files opened for writing: a record of what is written (P-OPEN)
# --------------------------------------------------------------------------
@model(_pathlib.Path.open)
def _path_open(interp, path, mode="r", *a, **k):
    axiom("P-OPEN (writes to an opened file are recorded in the ghost file-system log)")
    log = interp.ctx.__dict__.setdefault("fs_log", [])
    log.append(("open", path, mode))
    o = interp.ctx.obj("FileObj", {"path": path, "mode": mode, "_writes": []})
    return o


def _file_write(interp, fo, data):
    interp.heap_write(fo)
    fo.fields["_writes"].append(data)
    interp.ctx.__dict__.setdefault("fs_log", []).append(("write", fo.fields["path"], data))
    return None


def _file_enter(interp, fo):
    return fo


def _file_exit(interp, fo, *a):
    return None


class Arr2D(Sym):
    """np.array([col0, col1, ...]) of equally long 1-D arrays (rows = the given arrays)"""

    def __init__(self, rows, transposed=False):
        self.rows = rows
        self.transposed = transposed


@model(np.savetxt)
def _savetxt(interp, fd, X, fmt="%.18e", delimiter=" ", **kw):
    interp.ctx.__dict__.setdefault("fs_log", []).append(("savetxt", fd, X, fmt, delimiter))
    if isinstance(fd, SObj):
        fd.fields["_writes"].append(("savetxt", X, fmt, delimiter))
    return None
