"""Axiomatised object model of h5py (H-* axioms of DESIGN.md §6).

An HDF5 dataset is a sequence of events ``content`` (SArr; kind F for scalar
float features, int for integer features, elem for n-D payloads) plus an
attribute map; a group is a finite map name -> object.  Only what dclab's code
uses is modelled; everything else raises Unsupported (the function then falls
out of the accepted subset and is *not* counted as proved).

Axioms (audited by sampling against the real h5py in audit.py):
  H-CREATE   create_dataset(name, shape=(n, ...)) creates n unspecified entries
  H-RESIZE   resize(n, axis=0) keeps the first min(old, n) entries
  H-SLICE    dset[a:b] = x writes x to entries a..b-1 and nothing else;
             dset[a:b] reads them back (filters are lossless)
  H-ATTR     attrs behave as a map; values read back equal the values stored
"""
from __future__ import annotations

import numpy as np
import z3

from . import models
from .models import axiom, arr_new, clamp_slice, arr_assign_all
from .sym import (SArr, SBool, SInt, SObj, SReal, SF, Sym, F, Z, to_z3, wrap, is_sym, kind_of)


def _eng():
    from . import engine
    return engine


OBJ_METHODS = {}    # (clsname, attr) -> fn(interp, obj, *args, **kw)
OBJ_PROPS = {}      # (clsname, attr) -> fn(interp, obj)


def method(cls, name):
    def deco(f):
        OBJ_METHODS[(cls, name)] = f
        return f
    return deco


def prop(cls, name):
    def deco(f):
        OBJ_PROPS[(cls, name)] = f
        return f
    return deco


def obj_attr(interp, obj, name):
    key = (obj.clsname, name)
    if key in OBJ_PROPS:
        return OBJ_PROPS[key](interp, obj)
    if key in OBJ_METHODS:
        return _eng().BoundModel(OBJ_METHODS[key], obj, name)
    return NotImplemented


models.obj_attr = obj_attr


# --------------------------------------------------------------------------
# constructors used by contracts
# --------------------------------------------------------------------------
def new_attrs(ctx, d=None, maybe=None):
    return ctx.obj("H5Attrs", {"d": dict(d or {}), "maybe": dict(maybe or {})})


def new_dataset(ctx, content, attrs=None, chunks=None, dtype=None, name="dset",
                item_shape=()):
    content.item_shape = tuple(item_shape)
    ds = ctx.obj("H5Dataset", {"content": content, "attrs": attrs or new_attrs(ctx),
                               "chunks": chunks, "dtype": dtype, "name": name,
                               "item_shape": tuple(item_shape)}, name=name)
    ds.fields["attrs"].fields.setdefault("_file", ds)
    return ds


def new_group(ctx, members=None, maybe=None, name="/grp", attrs=None):
    g = ctx.obj("H5Group", {"members": dict(members or {}), "maybe": dict(maybe or {}),
                            "name": name, "attrs": attrs or new_attrs(ctx)}, name=name)
    g.fields["attrs"].fields.setdefault("_file", g)
    return g


def _fs_effect(interp, fobj, kind, detail):
    """every modification of an object inside an HDF5 file opened from a path is
    an event of the ghost file system (pyvc.fsghost)"""
    from . import fsghost
    if fobj.fields.get("_closed"):
        raise _eng().PyRaise(ValueError, ("Invalid file identifier (file is closed)",))
    fsghost.event(interp, kind, fobj.fields["path"], obj=fobj, mode=fobj.fields.get("mode"),
                  detail=detail or "")
    if kind == "close":
        fobj.fields["_closed"] = True


fs_effect = [_fs_effect]


def open_file(interp, path, mode="r", members=None, maybe=None, attrs=None):
    """h5py.File(path, mode): H-OPEN -- the object is a group whose modifications
    are events on `path`"""
    from . import fsghost
    ctx = interp.ctx
    fobj = new_group(ctx, members=members, maybe=maybe, name="/", attrs=attrs)
    fobj.fields["path"] = path
    fobj.fields["mode"] = mode
    fobj.fields["filename"] = str(path) if not isinstance(path, SObj) else path
    fobj.fields["file"] = fobj
    import h5py
    fobj.realcls = h5py.File
    fsghost.event(interp, "open", path, obj=fobj, mode=mode)
    return fobj


def _h5file_model(interp, name=None, mode="r", *a, **k):
    """h5py.File(name, mode): the tree stored under a path persists between
    handles; mode "w" truncates; the content of a file that this run has not
    written is given by the unit (``h5_content(ctx, path)``) or unknown"""
    ctx = interp.ctx
    store = ctx.__dict__.setdefault("_h5files", {})
    key = id(name) if isinstance(name, SObj) else str(name)
    if mode == "w" or key not in store:
        tree = None
        if mode != "w":
            fn = getattr(ctx.unit, "h5_content", None)
            tree = fn(ctx, name) if fn is not None else None
        if tree is None:
            tree = {"members": {}, "maybe": {}, "attrs": new_attrs(ctx), "open_world": mode != "w"}
        new = True
    else:
        tree = store[key]
        new = False
    fobj = open_file(interp, name, mode, attrs=tree["attrs"])
    # the handle shares the member tables of the stored tree
    fobj.fields["members"] = tree["members"]
    fobj.fields["maybe"] = tree["maybe"]
    if tree.get("open_world"):
        fobj.fields["open_world"] = True
    if new:
        store[key] = tree
    return fobj


try:
    import h5py as _h5py
    models._MODELS[_h5py.File] = _h5file_model
except ImportError:      # pragma: no cover
    pass


def file_of(obj):
    while isinstance(obj, SObj) and "path" not in obj.fields and obj.fields.get("_file") is not None:
        obj = obj.fields["_file"]
    return obj if isinstance(obj, SObj) and "path" in obj.fields else None


def note_h5_write(interp, obj, detail):
    if fs_effect[0] is not None:
        f = file_of(obj)
        if f is not None:
            fs_effect[0](interp, f, "write", detail)


# --------------------------------------------------------------------------
# attrs
# --------------------------------------------------------------------------
def _attr_lookup(interp, obj, key):
    """(found: bool, value) deciding 'maybe present' entries"""
    if is_sym(key):
        raise _eng().Unsupported("symbolic attribute name")
    d, maybe = obj.fields["d"], obj.fields["maybe"]
    if key in d:
        return True, d[key]
    if key in maybe:
        present, val = maybe[key]
        if interp.ctx.decide(present):
            return True, val
        return False, None
    return False, None


@method("H5Attrs", "get")
def _attrs_get(interp, obj, key, default=None):
    found, val = _attr_lookup(interp, obj, key)
    return val if found else default


@method("H5Attrs", "__getitem__")
def _attrs_getitem(interp, obj, key):
    found, val = _attr_lookup(interp, obj, key)
    if not found:
        raise _eng().PyRaise(KeyError, (key,))
    return val


@method("H5Attrs", "__contains__")
def _attrs_contains(interp, obj, key):
    d, maybe = obj.fields["d"], obj.fields["maybe"]
    if key in d:
        return True
    if key in maybe:
        return maybe[key][0]
    return False


@method("H5Attrs", "__setitem__")
def _attrs_setitem(interp, obj, key, val):
    if is_sym(key):
        raise _eng().Unsupported("symbolic attribute name")
    axiom("H-ATTR")
    note_h5_write(interp, obj, f"attribute {key}")
    interp.heap_write(obj)
    obj.fields["maybe"].pop(key, None)
    obj.fields["d"][key] = val


@method("H5Attrs", "create")
def _attrs_create(interp, obj, name, data=None, shape=None, dtype=None):
    if dtype is not None:
        data = cast_scalar(interp, data, dtype)
    _attrs_setitem(interp, obj, name, data)


@method("H5Attrs", "__delitem__")
def _attrs_delitem(interp, obj, key):
    found, _ = _attr_lookup(interp, obj, key)
    if not found:
        raise _eng().PyRaise(KeyError, (key,))
    note_h5_write(interp, obj, f"delete attribute {key}")
    interp.heap_write(obj)
    obj.fields["d"].pop(key, None)
    obj.fields["maybe"].pop(key, None)


@method("H5Attrs", "keys")
def _attrs_keys(interp, obj):
    if obj.fields["maybe"]:
        ks = list(obj.fields["d"].keys())
        for k, (present, val) in obj.fields["maybe"].items():
            if interp.ctx.decide(present):
                ks.append(k)
        return ks
    return list(obj.fields["d"].keys())


@method("H5Attrs", "items")
def _attrs_items(interp, obj):
    return [(k, _attrs_getitem(interp, obj, k)) for k in _attrs_keys(interp, obj)]


@method("H5Attrs", "__iter__")
def _attrs_iter(interp, obj):
    return _attrs_keys(interp, obj)


def cast_scalar(interp, v, dtype):
    """value stored with an explicit dtype (attrs.create(..., dtype=...))"""
    try:
        dt = np.dtype(dtype) if not isinstance(dtype, str) or dtype else None
    except TypeError:
        dt = None
    if dt is not None and dt.kind in "iu":
        if isinstance(v, SF):
            # float -> integer conversion truncates (and NaN is undefined)
            r = interp.ctx.int("cast")
            interp.ctx.assume(z3.Implies(F.is_fin(v.e),
                                         r.e == z3.If(F.val(v.e) >= 0, z3.ToInt(F.val(v.e)),
                                                      -z3.ToInt(-F.val(v.e)))))
            return SF(F.fin(z3.ToReal(r.e)))
        if isinstance(v, SReal):
            e = v.e
            return wrap(z3.If(e >= 0, z3.ToInt(e), -z3.ToInt(-e)))
    return v


# --------------------------------------------------------------------------
# datasets
# --------------------------------------------------------------------------
@prop("H5Dataset", "shape")
def _ds_shape(interp, obj):
    return (wrap(obj.fields["content"].n),) + tuple(obj.fields["item_shape"])


@prop("H5Dataset", "ndim")
def _ds_ndim(interp, obj):
    return 1 + len(obj.fields["item_shape"])


@prop("H5Dataset", "size")
def _ds_size(interp, obj):
    if obj.fields["item_shape"]:
        raise _eng().Unsupported("size of n-d dataset")
    return wrap(obj.fields["content"].n)


@method("H5Dataset", "__len__")
def _ds_len(interp, obj):
    return wrap(obj.fields["content"].n)


@prop("H5Dataset", "chunks")
def _ds_chunks(interp, obj):
    return obj.fields.get("chunks")


@prop("H5Dataset", "dtype")
def _ds_dtype(interp, obj):
    return obj.fields.get("dtype")


@prop("H5Dataset", "id")
def _ds_id(interp, obj):
    return obj


@prop("H5Group", "id")
def _grp_id(interp, obj):
    return obj


@method("H5Dataset", "iter_chunks")
def _ds_iter_chunks(interp, obj):
    """H-ITERCHUNKS: the chunks of a 1-D chunked dataset in storage order: chunk i is
    (slice(c*i, min(c*(i+1), N)),) for chunk length c >= 1; there are ceil(N / c) of them"""
    axiom("H-ITERCHUNKS")
    ch = obj.fields.get("chunks")
    if not (isinstance(ch, tuple) and len(ch) >= 1):
        raise _eng().PyRaise(TypeError, ("Dataset is not chunked",))
    c = to_z3(ch[0])
    n = obj.fields["content"].n
    m = z3.Int(interp.ctx._name("nchunks"))
    interp.ctx.assume(z3.And(c >= 1, m >= 0, (m - 1) * c < n, n <= m * c))

    def getter(i):
        hi = z3.If(c * (i + 1) < n, c * (i + 1), n)
        return (slice(wrap(c * i), wrap(hi)),)
    return models.SIter(m, getter, {"chunk": c, "n": n})


@method("H5Dataset", "resize")
def _ds_resize(interp, obj, size, axis=None):
    eng = _eng()
    if axis not in (0, None):
        raise eng.Unsupported("resize on axis != 0")
    if isinstance(size, tuple):
        size = size[0]
    axiom("H-RESIZE")
    note_h5_write(interp, obj, "resize")
    interp.heap_write(obj)
    c = obj.fields["content"]
    old_n, old_a = c.n, c.a
    new_n = to_z3(size)
    interp.ctx.check(new_n >= 0, "resize to a non-negative size", kind="noraise-lib")
    fresh = interp.ctx.arr("resized", c.kind)
    k = z3.Int("k!rs")
    a = z3.Lambda([k], z3.If(k < old_n, z3.Select(old_a, k), fresh.sel(k)))
    nc = SArr(z3.simplify(new_n), a, c.kind, dtype=c.dtype)
    nc.item_shape = getattr(c, "item_shape", ())
    nc.birth = c.birth
    obj.fields["content"] = nc
    from . import npmodel
    if interp.ctx.known(new_n >= old_n):
        npmodel.link_prefix(interp.ctx, nc, c, old_n)


@method("H5Dataset", "__getitem__")
def _ds_getitem(interp, obj, key):
    axiom("H-SLICE")
    c = obj.fields["content"]
    if isinstance(key, slice) or isinstance(key, (int, SInt)) or key is Ellipsis or \
            (isinstance(key, SArr)):
        r = models.arr_getitem(interp, c, key)
        if isinstance(r, SArr) and r.base is not None:
            # reading from a file returns a fresh array, not a view
            off = r.off
            r = SArr(r.n, r.a, r.kind, dtype=r.dtype)
            r.item_shape = getattr(c, "item_shape", ())
            r.birth = interp.ctx.stamp
            if interp.ctx.known(off == 0):
                from . import npmodel
                npmodel.link_prefix(interp.ctx, r, c, r.n)
        return r
    if isinstance(key, tuple) and len(key) == 0:
        return models.arr_getitem(interp, c, slice(None))
    if isinstance(key, tuple) and len(key) == 1 and isinstance(key[0], slice):
        return _ds_getitem(interp, obj, key[0])
    raise _eng().Unsupported(f"dataset index {type(key).__name__}")


@method("H5Dataset", "__setitem__")
def _ds_setitem(interp, obj, key, val):
    axiom("H-SLICE")
    note_h5_write(interp, obj, "write slice")
    interp.heap_write(obj)
    c = obj.fields["content"]
    if isinstance(val, SObj) and val.clsname == "H5Dataset":
        val = val.fields["content"]
    if isinstance(key, tuple) and len(key) == 1 and isinstance(key[0], slice):
        key = key[0]
    if isinstance(key, slice) and "strwidth" in obj.fields and isinstance(val, SArr):
        axiom("H-FIXEDSTR")
        w = to_z3(obj.fields["strwidth"])
        kq = z3.Int("k!fx")
        src = val
        val = arr_new(interp, src.n,
                      lambda k: z3.If(models.blen(src.sel(k)) <= w, src.sel(k), trunc(src.sel(k), w)),
                      "elem")
        interp.ctx.assume(z3.ForAll([kq], z3.Implies(models.blen(src.sel(kq)) > w,
                                                     trunc(src.sel(kq), w) != src.sel(kq))))
    if isinstance(key, slice):
        old = SArr(c.n, c.a, c.kind)
        a, b = clamp_slice(c.n, key, interp.ctx)
        models.arr_setitem(interp, c, key, val)
        note_concat(interp, obj, old, a, b, val)
        return None
    if "strwidth" in obj.fields and isinstance(val, models.SOpaque):
        # H-FIXEDSTR: a fixed-length string dataset keeps at most `width` bytes
        axiom("H-FIXEDSTR")
        w = to_z3(obj.fields["strwidth"])
        interp.ctx.assume(z3.Implies(models.blen(val.e) > w, trunc(val.e, w) != val.e))
        val = models.SOpaque(z3.If(models.blen(val.e) <= w, val.e, trunc(val.e, w)))
    models.arr_setitem(interp, c, key, val)
    return None


@method("H5Payload", "__getitem__")
def _payload_getitem(interp, obj, key):
    if key == slice(None) or key is Ellipsis or key == ():
        return obj.fields["value"]
    raise _eng().Unsupported("partial read of a ragged payload")


@method("H5Dataset", "__array__")
def _ds_array(interp, obj, dtype=None, copy=None):
    c = obj.fields["content"]
    r = SArr(c.n, c.a, c.kind, dtype=c.dtype)
    r.item_shape = getattr(c, "item_shape", ())
    r.birth = interp.ctx.stamp
    return r


@prop("H5Dataset", "name")
def _ds_name(interp, obj):
    return obj.fields["name"]


@prop("H5Dataset", "attrs")
def _ds_attrs(interp, obj):
    return obj.fields["attrs"]


def note_concat(interp, dset, old, a, b, val):
    """hook: summaries of a prefix-preserving write (see npmodel)"""
    from . import npmodel
    npmodel.note_slice_write(interp, dset.fields["content"], old, a, b, val)


# --------------------------------------------------------------------------
# groups
# --------------------------------------------------------------------------
def str_dtype(ctx, width):
    """dtype of a fixed-length string dataset"""
    return ctx.obj("H5Dtype", {"kind": "S", "itemsize": width})


def fit_width(ctx, e, w):
    """value actually stored for bytes e in an S<w> dataset (H-FIXEDSTR)"""
    ctx.assume(z3.Implies(models.blen(e) > w, trunc(e, w) != e))
    return z3.If(models.blen(e) <= w, e, trunc(e, w))


trunc = z3.Function("trunc", models._Elem, z3.IntSort(), models._Elem)


def new_numbered_group(ctx, name="/events/contour", vals=None, size=None):
    """group whose members are named "0", "1", ... (ragged features): a map
    Int -> payload with domain dom and cardinality size"""
    nm = ctx._name("numgrp")
    g = new_group(ctx, name=name)
    g.fields["num_dom"] = z3.Array(nm + ".dom", z3.IntSort(), z3.BoolSort())
    g.fields["num_val"] = vals if vals is not None else z3.Array(nm + ".val", z3.IntSort(), models._Elem)
    sz = size if size is not None else ctx.int(nm + ".size", lo=0)
    g.fields["_len"] = sz
    return g


def _grp_lookup(interp, obj, key):
    if isinstance(key, str) and "/" in key.strip("/"):
        # nested name "a/b": walk the groups
        cur = obj
        for part in key.strip("/").split("/"):
            if not (isinstance(cur, SObj) and cur.clsname == "H5Group"):
                return False, None
            found, cur = _grp_lookup(interp, cur, part)
            if not found:
                return False, None
        return True, cur
    num = models.numeric_name(key)
    if num is not None and "num_dom" in obj.fields:
        if interp.ctx.decide(wrap(z3.Select(obj.fields["num_dom"], num))):
            v = models.SOpaque(z3.Select(obj.fields["num_val"], num))
            return True, interp.ctx.obj("H5Payload", {"value": v})
        return False, None
    if is_sym(key):
        if obj.fields.get("open_world"):
            # nothing is known about the members of this group: present or not
            if interp.ctx.decide(interp.ctx.bool("member?")):
                return True, _tag(obj, _unknown_member(interp, obj, "sym"))
            return False, None
        raise _eng().Unsupported("symbolic member name")
    m, maybe = obj.fields["members"], obj.fields["maybe"]
    if obj.fields.get("open_world") and key not in m and key not in maybe:
        maybe[key] = (interp.ctx.bool(f"has_{key}"), _unknown_member(interp, obj, key))
    if key in m:
        return True, _tag(obj, m[key])
    if key in maybe:
        present, val = maybe[key]
        if interp.ctx.decide(present):
            return True, _tag(obj, val)
    return False, None


def _unknown_member(interp, obj, key):
    g = new_group(interp.ctx, name=f"{obj.fields['name']}/{key}")
    g.fields["open_world"] = True
    g.fields["unknown_kind"] = True      # may as well be a dataset: only effects are tracked
    return g


def _tag(owner, val):
    """remember the containing group (the way to the file an object lives in)"""
    if isinstance(val, SObj) and val is not owner and "_file" not in val.fields and "path" not in val.fields:
        val.fields["_file"] = owner
    return val


@method("H5Group", "__contains__")
def _grp_contains(interp, obj, key):
    if isinstance(key, SObj):
        return False
    if isinstance(key, str) and "/" in key.strip("/"):
        found, _ = _grp_lookup(interp, obj, key)
        return found
    m, maybe = obj.fields["members"], obj.fields["maybe"]
    if obj.fields.get("open_world"):
        if is_sym(key):
            return interp.ctx.bool("member?")
        if key not in m and key not in maybe:
            maybe[key] = (interp.ctx.bool(f"has_{key}"), _unknown_member(interp, obj, key))
    if key in m:
        return True
    if key in maybe:
        return maybe[key][0]
    return False


@method("H5Group", "__getitem__")
def _grp_getitem(interp, obj, key):
    found, val = _grp_lookup(interp, obj, key)
    if not found:
        raise _eng().PyRaise(KeyError, (key,))
    return val


@method("H5Group", "get")
def _grp_get(interp, obj, key, default=None):
    found, val = _grp_lookup(interp, obj, key)
    return val if found else default


@method("H5Group", "__delitem__")
def _grp_delitem(interp, obj, key):
    found, val = _grp_lookup(interp, obj, key)
    if not found:
        raise _eng().PyRaise(KeyError, (key,))
    note_h5_write(interp, obj, f"delete {key}")
    interp.heap_write(obj)
    obj.fields["members"].pop(key, None)
    obj.fields["maybe"].pop(key, None)


@method("H5Group", "__setitem__")
def _grp_setitem(interp, obj, key, val):
    """group[name] = existing object: a hard link"""
    if is_sym(key) and not isinstance(key, models.SFmt):
        raise _eng().Unsupported("symbolic member name")
    note_h5_write(interp, obj, "link")
    interp.heap_write(obj)
    k = key if isinstance(key, str) else repr(key)
    obj.fields["maybe"].pop(k, None)
    obj.fields["members"][k] = val


@method("H5Group", "__enter__")
def _grp_enter(interp, obj):
    return obj


@method("H5Group", "__exit__")
def _grp_exit(interp, obj, *a):
    if fs_effect[0] is not None and "path" in obj.fields and not obj.fields.get("_closed"):
        fs_effect[0](interp, obj, "close", None)
    return None


@method("H5Group", "close")
def _grp_close(interp, obj):
    return _grp_exit(interp, obj)


@method("H5Group", "__len__")
def _grp_len(interp, obj):
    if "_len" in obj.fields:
        return obj.fields["_len"]
    n = len(obj.fields["members"])
    for k, (present, val) in obj.fields["maybe"].items():
        if interp.ctx.decide(present):
            n += 1
    return n


@method("H5Group", "keys")
def _grp_keys(interp, obj):
    ks = list(obj.fields["members"].keys())
    for k, (present, val) in obj.fields["maybe"].items():
        if interp.ctx.decide(present):
            ks.append(k)
    return sorted(ks)


@prop("H5Group", "attrs")
def _grp_attrs(interp, obj):
    return obj.fields["attrs"]


@method("H5Group", "require_group")
def _grp_require(interp, obj, name):
    found, val = _grp_lookup(interp, obj, name)
    if found:
        return val
    note_h5_write(interp, obj, f"create group {name}")
    interp.heap_write(obj)
    g = new_group(interp.ctx, name=f"{obj.fields['name']}/{name}")
    g.fields["_file"] = obj
    obj.fields["maybe"].pop(name, None)
    obj.fields["members"][name] = g
    return g


@method("H5Group", "create_group")
def _grp_create_group(interp, obj, name):
    found, val = _grp_lookup(interp, obj, name)
    if found:
        raise _eng().PyRaise(ValueError, ("name already exists",))
    return _grp_require(interp, obj, name)


@method("H5Group", "create_dataset")
def _grp_create_dataset(interp, obj, name, shape=None, dtype=None, data=None,
                        maxshape=None, chunks=None, **kw):
    eng = _eng()
    ctx = interp.ctx
    axiom("H-CREATE")
    note_h5_write(interp, obj, f"create dataset {name}")
    num = models.numeric_name(name)
    if num is not None:
        if "num_dom" not in obj.fields:
            raise eng.Unsupported("numbered member in a group that is not modelled as numbered")
        if ctx.decide(wrap(z3.Select(obj.fields["num_dom"], num))):
            raise eng.PyRaise(ValueError, ("Unable to create dataset (name already exists)",))
        if not isinstance(data, models.SOpaque):
            raise eng.Unsupported("numbered member without an opaque payload")
        interp.heap_write(obj)
        obj.fields["num_dom"] = z3.Store(obj.fields["num_dom"], num, z3.BoolVal(True))
        obj.fields["num_val"] = z3.Store(obj.fields["num_val"], num, data.e)
        obj.fields["_len"] = wrap(to_z3(obj.fields["_len"]) + 1)
        return ctx.obj("H5Payload", {"value": data})
    found, _ = _grp_lookup(interp, obj, name)
    if found:
        raise eng.PyRaise(ValueError, ("Unable to create dataset (name already exists)",))
    interp.heap_write(obj)
    item_shape = ()
    if data is not None:
        if isinstance(data, SArr):
            content = SArr(data.n, data.a, data.kind, dtype=data.dtype)
            item_shape = tuple(getattr(data, "item_shape", ()))
        elif isinstance(data, Sym) and not isinstance(data, SObj):
            # one opaque payload (e.g. one contour): a dataset holding that value
            content = ctx.arr("payload", "elem", n=1)
            obj_payload = data
            ds = new_dataset(ctx, content, name=f"{obj.fields['name']}/{name}", chunks=chunks)
            ds.fields["payload"] = obj_payload
            obj.fields["maybe"].pop(name, None)
            obj.fields["members"][name] = ds
            return ds
        else:
            raise eng.Unsupported("create_dataset(data=concrete)")
    else:
        if not isinstance(shape, tuple):
            shape = (shape,)
        n = to_z3(shape[0])
        item_shape = tuple(shape[1:])
        kind = kw.pop("_kind", None) or ("elem" if item_shape else _kind_of_dtype(dtype))
        content = ctx.arr("created", kind, n=n)
    content.birth = ctx.stamp
    ds = new_dataset(ctx, content, name=f"{obj.fields['name']}/{name}", chunks=chunks,
                     dtype=dtype, item_shape=item_shape)
    if isinstance(dtype, models.SFmt) and len(dtype.parts) == 2 and dtype.parts[0] == "S":
        ds.fields["strwidth"] = dtype.parts[1]       # fixed-length string storage
        ds.fields["dtype"] = str_dtype(ctx, dtype.parts[1])
        content.elem_pytype = bytes
    ds.fields["create_kw"] = dict(kw, maxshape=maxshape)
    ds.fields["_file"] = obj
    obj.fields["maybe"].pop(name, None)
    obj.fields["members"][name] = ds
    return ds


def _kind_of_dtype(dtype):
    if isinstance(dtype, str) and dtype.startswith("S"):
        return "elem"
    if getattr(dtype, "_pyvc_kind", None):
        return dtype._pyvc_kind
    try:
        dt = np.dtype(dtype)
    except TypeError:
        return "elem"
    if dt.kind == "f":
        return "F"
    if dt.kind in "iu":
        return "int"
    if dt.kind == "b":
        return "bool"
    return "elem"


OBJ_METHODS[("WarnCtx", "__enter__")] = models._warnctx_enter
OBJ_METHODS[("WarnCtx", "__exit__")] = models._warnctx_exit


# paths with symbolic components --------------------------------------------------
@method("SymPath", "with_suffix")
def _sp_with_suffix(interp, p, suffix):
    o = interp.ctx.obj("SymPath", {"parent": p.fields["parent"], "name": p.fields["name"],
                                   "suffix": suffix, "of": p})
    hook = getattr(getattr(getattr(interp, "cur_frame", None), "unit", None), "on_sympath", None)
    if hook is not None:
        hook(interp.ctx, o)
    return o


@method("SymPath", "rename")
def _sp_rename(interp, p, target):
    from . import fsghost
    fsghost.event(interp, "rename", p, target=target)
    return target


@method("SymPath", "exists")
def _sp_exists(interp, p):
    return interp.ctx.bool("exists_sympath")


@method("SymPath", "unlink")
def _sp_unlink(interp, p, *a, **k):
    from . import fsghost
    fsghost.event(interp, "unlink", p)
    return None


OBJ_METHODS[("Hasher", "update")] = models._hasher_update
OBJ_METHODS[("Hasher", "hexdigest")] = models._hasher_hexdigest


OBJ_METHODS[("FileObj", "write")] = models._file_write
OBJ_METHODS[("FileObj", "__enter__")] = models._file_enter
OBJ_METHODS[("FileObj", "__exit__")] = models._file_exit
