"""Contract = one text used twice: as the proof obligation of the function it is
attached to (Unit interface of the engine) and as the summary of that function
at its call sites (callee model: assert requires, havoc modifies, assume
ensures)."""
from __future__ import annotations

import z3

from .engine import NS, Unit, PyRaise
from .sym import to_z3


class Contract(Unit):
    params = ()
    is_property = False
    assumes = ()        # names of axioms / trusted facts this contract relies on

    # -- to be provided by subclasses -------------------------------------------
    def inputs(self, ctx):
        raise NotImplementedError

    def requires(self, ctx, a):
        return []

    def ensures(self, ctx, old, a, result):
        return []

    def havoc(self, ctx, a):
        """callee use: put every location in the modifies clause into a fresh state"""
        return None

    def modifies(self, a):
        """heap objects that may be written (frame)"""
        return []

    def result(self, ctx, old, a):
        """callee use: fresh symbolic result"""
        return None

    def exceptional(self, ctx, old, a, exc):
        """formula under which raising `exc` is allowed (None: never)"""
        return None

    # -- Unit interface -----------------------------------------------------------
    def setup(self, ctx):
        args = self.inputs(ctx)
        a = NS(args)
        for name, f in self.requires(ctx, a):
            ctx.assume(f)
        return args

    def post(self, ctx, st):
        return self.ensures(ctx, st.old, NS(st.args), st.result)

    def raises(self, ctx, st, exc):
        return self.exceptional(ctx, st.old, NS(st.args), exc)

    # -- callee interface ---------------------------------------------------------
    def __call__(self, interp, *args, **kwargs):
        ctx = interp.ctx
        bound = dict(zip(self.params, args))
        bound.update(kwargs)
        for p, d in getattr(self, "defaults", {}).items():
            bound.setdefault(p, d)
        a = NS(bound)
        for name, f in self.requires(ctx, a):
            ctx.check(f, f"call {self.name}: requires {name}", kind="requires")
        old = NS({k: interp.snapshot(v) for k, v in bound.items()})
        exc = self.callee_raises(ctx, old, a)
        if exc is not None:
            raise exc
        for o in self.modifies(a):
            interp.heap_write(o)
        self.havoc(ctx, a)
        res = self.result(ctx, old, a)
        for name, f in self.ensures(ctx, old, a, res):
            ctx.assume(f)
        return res

    def callee_raises(self, ctx, old, a):
        return None
