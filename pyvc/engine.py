"""pyvc engine: symbolic execution of real Python function bodies (AST) into
verification conditions.

One *path* at a time is executed from the function entry with a recorded list
of branch decisions (re-execution, so the heap can be mutated in place).  Each
symbolic branch whose two sides are both feasible forks the decision list.
Loops whose trip count is symbolic are cut by an inductive invariant supplied
by the sidecar contract; calls to dclab functions use the callee's contract (or
are inlined when the contract says so); library calls use the models in
models.py (axioms).

The engine never edits or imports-and-runs the function under contract: the
AST is read from the working tree on every run (source.py); the real module is
imported only to resolve global names (constants, library functions).
"""
from __future__ import annotations

import ast
import builtins
import importlib
import time
import types

import z3

from . import source
from .sym import (arr_elem, SArr, SBool, SBytes, SF, SInt, SMap, SObj, SOpaque, SReal,
                  SStr, Sym, And, Not, Or, Z, floordiv, is_sym, kind_of,
                  pymod, real_val, sort_of, to_z3, wrap)


# --------------------------------------------------------------------------
# control signals
# --------------------------------------------------------------------------
class Unsupported(Exception):
    """construct outside the accepted subset"""


class PathEnd(Exception):
    """path finished (cut at a loop head, or infeasible assumption)"""


class PyRaise(Exception):
    """the interpreted program raises a Python exception"""

    def __init__(self, etype, args=(), node=None):
        self.etype = etype
        self.eargs = args
        self.node = node
        super().__init__(getattr(etype, "__name__", str(etype)))

    @property
    def name(self):
        return getattr(self.etype, "__name__", str(self.etype))


class StopUnit(Exception):
    """raised by a callee contract of a *slice unit*: execution of the function
    under contract stops here and the postcondition is evaluated on the current
    locals (the rest of the function is covered by another unit)"""


class _Return(Exception):
    def __init__(self, value):
        self.value = value


class _Break(Exception):
    pass


class _Continue(Exception):
    pass


# --------------------------------------------------------------------------
# data carried by a verification run
# --------------------------------------------------------------------------
class Obligation:
    __slots__ = ("unit", "name", "line", "pc", "goal", "path", "kind", "info")

    def __init__(self, unit, name, line, pc, goal, path, kind="check", info=None):
        self.unit = unit
        self.name = name
        self.line = line
        self.pc = pc
        self.goal = goal
        self.path = path
        self.kind = kind
        self.info = info or {}

    @property
    def key(self):
        return f"{self.unit}::{self.name}"

    def smt2(self, qf_only=False):
        """SMT-LIB text of (path condition and not goal).  With qf_only the
        quantified conjuncts of the path condition are dropped: proving the goal
        from fewer hypotheses is still a proof, and such queries are much easier."""
        # printed from a context of its own, so that the text (the numbering of shared
        # subterms) does not depend on what this process has built before
        ctx = z3.Context()
        s = z3.Solver(ctx=ctx)
        for p in self.pc:
            if qf_only and _has_quantifier(p):
                continue
            s.add(p.translate(ctx))
        s.add(z3.Not(self.goal).translate(ctx))
        return s.to_smt2()

    def smt2_sliced(self):
        """(path condition restricted to the cone of influence of the goal) and not
        goal.  Conjuncts that share no symbol (transitively) with the goal are
        dropped -- proving from fewer hypotheses is still a proof."""
        goal_syms = _symbols(self.goal)
        items = [(p, _symbols(p)) for p in self.pc]
        keep = [False] * len(items)
        frontier = set(goal_syms)
        changed = True
        while changed:
            changed = False
            for i, (p, syms) in enumerate(items):
                if not keep[i] and syms & frontier:
                    keep[i] = True
                    frontier |= syms
                    changed = True
        ctx = z3.Context()
        s = z3.Solver(ctx=ctx)
        n = 0
        for i, (p, _) in enumerate(items):
            if keep[i]:
                s.add(p.translate(ctx))
                n += 1
        s.add(z3.Not(self.goal).translate(ctx))
        return s.to_smt2(), n

    def has_quantified_pc(self):
        return any(_has_quantifier(p) for p in self.pc)


_sym_cache = {}


def _symbols(f):
    """ids of the uninterpreted constants of f (function symbols of arity > 0 and
    interpreted symbols do not count)"""
    key = f.get_id()
    if key in _sym_cache:
        return _sym_cache[key]
    out = set()
    seen = set()
    todo = [f]
    while todo:
        x = todo.pop()
        i = x.get_id()
        if i in seen:
            continue
        seen.add(i)
        if z3.is_quantifier(x):
            todo.append(x.body())
            continue
        if z3.is_app(x):
            if x.num_args() == 0 and x.decl().kind() == z3.Z3_OP_UNINTERPRETED:
                out.add(x.decl().name())
            else:
                todo.extend(x.children())
    _sym_cache[key] = frozenset(out)
    return _sym_cache[key]


def _has_strings(f):
    seen = set()
    todo = [f]
    ssort = z3.StringSort()
    while todo:
        x = todo.pop()
        if x.get_id() in seen:
            continue
        seen.add(x.get_id())
        if z3.is_quantifier(x):
            todo.append(x.body())
            continue
        try:
            if x.sort() == ssort:
                return True
        except Exception:
            pass
        todo.extend(x.children())
    return False


def _has_quantifier(f):
    seen = set()
    todo = [f]
    while todo:
        x = todo.pop()
        if x.get_id() in seen:
            continue
        seen.add(x.get_id())
        if z3.is_quantifier(x):
            return True
        todo.extend(x.children())
    return False


class LoopSpec:
    def __init__(self, inv, havoc=None, kinds=None, modifies=None, decreases=None, hints=None):
        self.hints = hints        # (ctx, v) -> [(name, valid formula)]: lemma instances, each
        #                           proved on its own (empty path condition) before it is assumed
        self.inv = inv            # (ctx, v) -> [(name, formula)]
        self.havoc = havoc        # (ctx, v) -> None ; havocs heap state
        self.kinds = kinds or {}  # local name -> factory(ctx) for havoc
        self.modifies = modifies  # (ctx, v) -> list of heap objects that may be written
        self.decreases = decreases


class Closure:
    def __init__(self, node, frame, name="<lambda>"):
        self.node = node
        self.frame = frame
        self.name = name


class FuncRef:
    """a dclab function known by source"""

    def __init__(self, info, key, bound=None, module=None):
        self.info = info
        self.key = key
        self.bound = bound
        self.module = module

    def __repr__(self):
        return f"<FuncRef {self.key}>"


class BoundModel:
    def __init__(self, fn, obj, name):
        self.fn = fn
        self.obj = obj
        self.name = name


class Frame:
    def __init__(self, unit, info, locals_, globals_, depth=0):
        self.unit = unit
        self.info = info
        self.locals = locals_
        self.globals = globals_
        self.depth = depth
        self.loop_ordinals = {}
        self.old = None

    def loop_index(self, node):
        if id(node) not in self.loop_ordinals:
            # ordinal in source order among the loops of this function
            loops = [n for n in ast.walk(self.info.node)
                     if isinstance(n, (ast.For, ast.While))]
            loops.sort(key=lambda n: (n.lineno, n.col_offset))
            for i, n in enumerate(loops):
                self.loop_ordinals[id(n)] = i
        return self.loop_ordinals[id(node)]


class View:
    """what loop invariants and postconditions see"""

    def __init__(self, frame, extra=None):
        object.__setattr__(self, "_f", frame)
        object.__setattr__(self, "_x", extra or {})

    def __getattr__(self, k):
        x = object.__getattribute__(self, "_x")
        if k in x:
            return x[k]
        f = object.__getattribute__(self, "_f")
        if k == "old":
            return f.old
        if k in f.locals:
            return f.locals[k]
        raise AttributeError(k)

    def has(self, k):
        return k in self._x or k in self._f.locals


class NS:
    """simple attribute namespace (entry snapshot)"""

    def __init__(self, d):
        self.__dict__.update(d)


# --------------------------------------------------------------------------
# the per-path context
# --------------------------------------------------------------------------
class Ctx:
    def __init__(self, engine, unit, prefix):
        self.engine = engine
        self.unit = unit
        self.prefix = list(prefix)
        self.pos = 0
        self.decisions = []
        self.pc = []
        self.obligations = []
        self.counter = {}
        self.solver = z3.Solver()
        self.solver.set("timeout", engine.feas_timeout_ms)
        self.solver.set("rlimit", 3000000)     # resource limit: the time limit alone is not always honoured
        self.inputs = {}          # name -> z3 term (for counterexamples)
        self.stamp = 0
        self.writes = None        # set of heap uids written (loop frame check)
        self.notes = []

    # fresh symbols -----------------------------------------------------------
    def _name(self, base):
        base = "".join(c if (c.isalnum() or c in "_.!@$%^&*-+=<>?/~") else "_p" for c in str(base))
        k = self.counter.get(base, 0)
        self.counter[base] = k + 1
        return base if k == 0 else f"{base}!{k}"

    def int(self, name, lo=None, hi=None, inp=False):
        e = z3.Int(self._name(name))
        if lo is not None:
            self.assume(e >= to_z3(lo))
        if hi is not None:
            self.assume(e <= to_z3(hi))
        if inp:
            self.inputs[name] = e
        return SInt(e)

    def real(self, name, inp=False):
        e = z3.Real(self._name(name))
        if inp:
            self.inputs[name] = e
        return SReal(e)

    def bool(self, name, inp=False):
        e = z3.Bool(self._name(name))
        if inp:
            self.inputs[name] = e
        return SBool(e)

    def str(self, name, inp=False):
        e = z3.String(self._name(name))
        if inp:
            self.inputs[name] = e
        return SStr(e)

    def const(self, name, sort):
        return z3.Const(self._name(name), sort)

    def arr(self, name, kind, n=None, inp=False, dtype=None):
        nm = self._name(name)
        a = z3.Array(nm, z3.IntSort(), sort_of(kind))
        if n is None:
            n = z3.Int(nm + ".n")
            self.assume(n >= 0)
        arr = SArr(n, a, kind, dtype=dtype, name=nm)
        arr.birth = self.stamp
        if inp:
            self.inputs[name] = arr
        return arr

    def obj(self, cls, fields=None, name=None):
        o = SObj(cls, fields, name=name)
        o.birth = self.stamp
        return o

    def fresh_like(self, v, name):
        """fresh symbolic value of the same sort as v (used for havoc)"""
        if isinstance(v, bool) or isinstance(v, SBool):
            return self.bool(name)
        if isinstance(v, (int, SInt)):
            return self.int(name)
        if isinstance(v, (float, SReal)):
            return self.real(name)
        if isinstance(v, SBytes):
            lo = self.int(name + ".lo")
            hi = self.int(name + ".hi")
            self.assume(lo.e <= hi.e)
            return SBytes(lo.e, hi.e, v.ghost)
        if isinstance(v, SArr):
            return self.arr(name, v.kind, dtype=v.dtype)
        if isinstance(v, (SStr, str)):
            return self.str(name)
        if isinstance(v, SOpaque):
            return SOpaque(self.const(name, v.e.sort()))
        if isinstance(v, SF):
            return SF(self.const(name, v.e.sort()))
        if v is None:
            return None
        raise Unsupported(f"cannot havoc value of type {type(v).__name__} ({name})")

    # assumptions / obligations --------------------------------------------------
    def assume(self, f):
        f = to_z3(f) if not z3.is_expr(f) else f
        if z3.is_true(f):
            return
        self.pc.append(f)
        # the solver used for path feasibility / simplification ignores string
        # constraints (z3's sequence solver does not honour time limits reliably);
        # dropping constraints only makes more paths look feasible, which is sound
        if not _has_strings(f) and not _has_quantifier(f):
            self.solver.add(f)

    def check(self, f, name, line=None, kind="check", info=None):
        """emit a proof obligation; afterwards the fact is assumed"""
        if isinstance(f, (list, tuple)):
            f = And(*f)
        f = to_z3(f) if not z3.is_expr(f) else f
        if z3.is_true(z3.simplify(f)):
            self.engine.trivial += 1
            self.obligations.append(Obligation(self.unit.name, name, line or self.line,
                                               [], z3.BoolVal(True),
                                               tuple(self.decisions), kind, info))
            return
        self.obligations.append(Obligation(self.unit.name, name, line or self.line,
                                           list(self.pc), f,
                                           tuple(self.decisions), kind, info))
        self.assume(f)

    line = 0

    def lemma(self, f, name, line=None):
        """a lemma instance: proved with an EMPTY path condition (it must be a
        valid formula), then available as a fact on this path"""
        f = to_z3(f) if not z3.is_expr(f) else f
        self.obligations.append(Obligation(self.unit.name, name, line or self.line, [], f,
                                           tuple(self.decisions), "lemma"))
        self.assume(f)

    def feasible(self, f):
        if _has_strings(f):
            return True
        self.solver.push()
        self.solver.add(f)
        r = self.solver.check()
        self.solver.pop()
        return r != z3.unsat

    def known(self, f):
        """True / False if the path condition decides f, else None"""
        f = z3.simplify(f)
        if z3.is_true(f):
            return True
        if z3.is_false(f):
            return False
        if _has_strings(f):
            return None
        self.solver.push()
        self.solver.add(z3.Not(f))
        r = self.solver.check()
        self.solver.pop()
        if r == z3.unsat:
            return True
        self.solver.push()
        self.solver.add(f)
        r = self.solver.check()
        self.solver.pop()
        if r == z3.unsat:
            return False
        return None

    def ite(self, c, a, b):
        k = self.known(c)
        if k is True:
            return a
        if k is False:
            return b
        return z3.If(c, a, b)

    def decide(self, cond):
        """python bool for a (possibly symbolic) condition; forks the path"""
        if isinstance(cond, bool):
            return cond
        if isinstance(cond, SBool):
            e = cond.e
        elif z3.is_expr(cond):
            e = cond
        else:
            raise Unsupported(f"decide on {type(cond).__name__}")
        e = z3.simplify(e)
        if z3.is_true(e):
            return True
        if z3.is_false(e):
            return False
        if self.pos < len(self.prefix):
            d = self.prefix[self.pos]
        else:
            ft = self.feasible(e)
            ff = self.feasible(z3.Not(e))
            if ft and ff:
                self.engine.schedule(self.decisions + [False])
                d = True
            elif ft:
                d = True
                self.pos += 1
                self.decisions.append(d)
                return d     # implied by pc: no need to add
            elif ff:
                d = False
                self.pos += 1
                self.decisions.append(d)
                return d
            else:
                raise PathEnd("infeasible")
        self.pos += 1
        self.decisions.append(d)
        self.assume(e if d else z3.Not(e))
        return d

    def note(self, msg):
        self.notes.append(msg)


#: structural signatures of opaque results (function name + argument signatures):
#: what a value was computed from, for relational (non-interference) obligations
SIGS = {}


def sig_of(v):
    ent = SIGS.get(id(v))
    if ent is not None and ent[0] is v:
        return ent[1]
    if isinstance(v, SObj):
        return ("obj", v.clsname)
    if isinstance(v, SArr):
        return ("arr", str(v.a), str(v.n))
    if isinstance(v, Sym) and hasattr(v, "e"):
        return ("sym", str(v.e))
    if isinstance(v, dict):
        return ("dict", tuple(sorted((str(k), sig_of(x)) for k, x in v.items())))
    if isinstance(v, (list, tuple)):
        return (type(v).__name__, tuple(sig_of(x) for x in v))
    return ("const", repr(v))


# --------------------------------------------------------------------------
# the engine
# --------------------------------------------------------------------------
class Engine:
    def __init__(self, feas_timeout_ms=300, max_paths=4000):
        self.feas_timeout_ms = feas_timeout_ms
        self.max_paths = max_paths
        self.worklist = []
        self.trivial = 0
        self.stats = {}

    def schedule(self, prefix):
        self.worklist.append(list(prefix))

    # ------------------------------------------------------------------
    def verify(self, unit):
        """run all paths of a unit; returns (obligations, report)"""
        from . import models
        self.worklist = [[]]
        obligations = []
        npaths = 0
        notes = []
        ends = {"return": 0, "raise": 0, "cut": 0, "infeasible": 0}
        t0 = time.time()
        info = source.find(unit.path, unit.qualname)
        while self.worklist:
            prefix = self.worklist.pop()
            npaths += 1
            if npaths > self.max_paths:
                raise Unsupported(f"{unit.name}: more than {self.max_paths} paths")
            ctx = Ctx(self, unit, prefix)
            interp = Interp(ctx, models)
            try:
                end = interp.run_unit(unit, info)
                ends[end] += 1
            except PathEnd as e:
                ends["infeasible" if "infeasible" in str(e) else "cut"] += 1
            obligations.extend(ctx.obligations)
            notes.extend(ctx.notes)
        if hasattr(unit, "finalize"):
            # relational obligations over the set of paths (e.g. non-interference)
            obligations.extend(unit.finalize() or [])
        loops = {f"{k[1]} loop{k[2]} (line {k[3]})": v for k, v in self.stats.get("loops", {}).items()
                 if k[0] == unit.name}
        rep = {"paths": npaths, "ends": ends, "gen_s": round(time.time() - t0, 3), "cut_loops": loops,
               "sha256": info.sha256, "lines": list(info.lines), "notes": sorted(set(notes)),
               "dropped": sorted(set(_dropped(info))), "file": unit.path,
               "qualname": unit.qualname}
        return obligations, rep


def _dropped(info):
    """what the front end drops for this function (reported in the evidence)"""
    out = []
    node = info.node
    if ast.get_docstring(node):
        out.append("docstring")
    if node.decorator_list:
        out.append("decorators:" + ",".join(ast.unparse(d) for d in node.decorator_list))
    if node.returns is not None or any(a.annotation is not None for a in node.args.args):
        out.append("type annotations")
    for n in ast.walk(node):
        if isinstance(n, ast.Call):
            f = ast.unparse(n.func)
            if f in ("warnings.warn", "print"):
                out.append(f)
        if isinstance(n, (ast.Import, ast.ImportFrom)):
            out.append("import")
    sf = source.load(info.path)
    if sf.dropped:
        out.append("cy2py deletions (see cy2py report)")
    return out


# --------------------------------------------------------------------------
# the interpreter
# --------------------------------------------------------------------------
PURE_BUILTINS = {len, min, max, abs, int, float, str, bool, tuple, list, sorted,
                 range, enumerate, zip, isinstance, round, sum, any, all, set,
                 dict, repr, reversed, divmod, type, id, hasattr, getattr,
                 issubclass, callable, iter, next, bytes, frozenset, map, filter,
                 ord, chr, hash, format, slice, pow}


class Interp:
    def __init__(self, ctx, models):
        self.ctx = ctx
        self.models = models
        self.depth = 0

    # ------------------------------------------------------------------ units
    def run_unit(self, unit, info):
        ctx = self.ctx
        args = unit.setup(ctx)
        gl = unit.get_globals()
        frame = Frame(unit, info, {}, gl)
        self.bind_params(info, frame, args)
        if any(isinstance(x, ast.Yield) for x in ast.walk(info.node)):
            kind = getattr(unit, "yield_kind", "elem")
            empty = SArr(Z(0), z3.K(z3.IntSort(), z3.Const("yield!default", sort_of(kind))), kind)
            frame.locals["__out__"] = empty
            frame.locals["__nyield__"] = 0
        frame.old = NS({k: self.snapshot(v) for k, v in frame.locals.items()})
        frame.old.__dict__["_ghost"] = dict(getattr(unit, "ghost", {}) or {})
        st = NS({"old": frame.old, "args": frame.locals, "frame": frame, "ctx": ctx})
        try:
            try:
                result = self.exec_function_body(info.node, frame)
            except StopUnit:
                result = None
        except PyRaise as e:
            st.exc = e
            allowed = unit.raises(ctx, st, e)
            line = getattr(e.node, "lineno", info.node.lineno)
            if allowed is None:
                ctx.check(z3.BoolVal(False), f"noraise[{e.name}]", line, kind="noraise")
            else:
                ctx.check(allowed, f"raises[{e.name}] only when permitted", line, kind="raises")
            return "raise"
        st.result = result
        line = info.node.end_lineno
        # vacuity canary: this path end must be reachable (pc before the posts)
        ctx.obligations.append(Obligation(unit.name, "canary(reachable end)", line,
                                          list(ctx.pc), z3.BoolVal(False),
                                          tuple(ctx.decisions), kind="canary"))
        posts = unit.post(ctx, st) or []
        for name, f in posts:
            ctx.check(f, f"post: {name}", line, kind="post")
        return "return"

    def bind_params(self, info, frame, args, posargs=(), kwargs=None):
        """bind call arguments to parameters (defaults evaluated in globals)"""
        a = info.node.args
        params = [p.arg for p in a.posonlyargs + a.args]
        defaults = a.defaults
        ndef = len(defaults)
        bound = dict(args)
        kwargs = dict(kwargs or {})
        for i, v in enumerate(posargs):
            if i < len(params):
                if params[i] in bound:
                    raise PyRaise(TypeError, ("multiple values",))
                bound[params[i]] = v
            elif a.vararg:
                bound.setdefault(a.vararg.arg, []).append(v)
            else:
                raise PyRaise(TypeError, ("too many positional arguments",))
        kwonly = [p.arg for p in a.kwonlyargs]
        for k, v in kwargs.items():
            if k in params or k in kwonly:
                bound[k] = v
            elif a.kwarg:
                bound.setdefault(a.kwarg.arg, {})[k] = v
            else:
                raise PyRaise(TypeError, (f"unexpected keyword {k}",))
        for i, p in enumerate(params):
            if p not in bound:
                di = i - (len(params) - ndef)
                if di < 0:
                    raise PyRaise(TypeError, (f"missing argument {p}",))
                bound[p] = self.eval(defaults[di], Frame(frame.unit, info, {}, frame.globals))
        for p, d in zip(a.kwonlyargs, a.kw_defaults):
            if p.arg not in bound:
                if d is None:
                    raise PyRaise(TypeError, (f"missing kw argument {p.arg}",))
                bound[p.arg] = self.eval(d, Frame(frame.unit, info, {}, frame.globals))
        if a.vararg:
            bound[a.vararg.arg] = tuple(bound.get(a.vararg.arg, []))
        if a.kwarg:
            bound.setdefault(a.kwarg.arg, {})
        frame.locals.update(bound)

    def snapshot(self, v, memo=None):
        memo = {} if memo is None else memo
        if isinstance(v, SObj):
            if v.uid in memo:
                return memo[v.uid]
            c = SObj(v.cls, {}, name=v.name)
            c.uid = v.uid
            memo[v.uid] = c
            for k, x in v.fields.items():
                c.fields[k] = self.snapshot(x, memo)
            return c
        if isinstance(v, SArr):
            if ("a", v.uid) in memo:
                return memo[("a", v.uid)]
            c = SArr(v.n, v.a, v.kind, dtype=v.dtype, name=v.name, writeable=v.writeable)
            c.uid = v.uid
            for extra in ("is_list", "item_shape", "birth"):
                if hasattr(v, extra):
                    setattr(c, extra, getattr(v, extra))
            memo[("a", v.uid)] = c
            return c
        if isinstance(v, SMap):
            c = SMap(v.dom, v.val, v.size, v.ksort, v.vkind,
                     self.snapshot(v.order, memo) if v.order is not None else None,
                     v.pos, v.mkval)
            c.uid = v.uid
            c.__dict__.update({k: x for k, x in v.__dict__.items() if k not in c.__dict__})
            return c
        if isinstance(v, list):
            return [self.snapshot(x, memo) for x in v]
        if isinstance(v, dict):
            return {k: self.snapshot(x, memo) for k, x in v.items()}
        return v

    def exec_function_body(self, node, frame):
        try:
            self.exec_block(node.body, frame)
        except _Return as r:
            return r.value
        return None

    # ------------------------------------------------------------- statements
    def exec_block(self, stmts, frame):
        for s in stmts:
            self.exec_stmt(s, frame)

    def exec_stmt(self, s, frame):
        self.ctx.line = getattr(s, "lineno", self.ctx.line)
        self.cur_frame = frame
        m = getattr(self, "s_" + type(s).__name__, None)
        if m is None:
            raise Unsupported(f"statement {type(s).__name__} at line {s.lineno}")
        r = m(s, frame)
        ghost = getattr(frame.unit, "asserts", None)
        if ghost and frame.depth == 0 and isinstance(s, (ast.Assign, ast.AugAssign, ast.Expr)):
            # ghost assertions of the contract, attached to a statement by its text:
            # proved here (obligation), then available as facts (cut)
            fn = ghost.get(" ".join(ast.unparse(s).split()))
            if fn is not None:
                for name, f in fn(self.ctx, View(frame)):
                    self.ctx.check(f, f"ghost assertion after `{ast.unparse(s)[:40]}`: {name}",
                                   s.lineno, kind="assert")
                # cuts requested by the contract: after the assertion is proved the
                # variable is replaced by a fresh value about which only the stated fact is known
                pend = getattr(frame.unit, "_pending", None)
                while pend:
                    v, var, fresh, facts = pend.pop(0)
                    frame.locals[var] = fresh
                    self.ctx.assume(facts)
        return r

    def s_Pass(self, s, f):
        pass

    def s_Expr(self, s, f):
        if isinstance(s.value, ast.Constant):
            return   # docstring
        if isinstance(s.value, ast.Call):
            fn = ast.unparse(s.value.func)
            if fn in ("warnings.warn", "print"):
                return   # dropped (listed in the evidence)
        self.eval(s.value, f)

    def s_Import(self, s, f):
        for a in s.names:
            mod = importlib.import_module(a.name)
            if a.asname:
                f.locals[a.asname] = mod
            else:
                f.locals[a.name.split(".")[0]] = importlib.import_module(a.name.split(".")[0])

    def s_ImportFrom(self, s, f):
        pkg = f.globals.get("__package__") or ""
        name = "." * s.level + (s.module or "")
        mod = importlib.import_module(name, pkg) if s.level else importlib.import_module(name)
        for a in s.names:
            f.locals[a.asname or a.name] = getattr(mod, a.name)

    def s_Assign(self, s, f):
        v = self.eval(s.value, f)
        for t in s.targets:
            self.assign(t, v, f)

    def s_AnnAssign(self, s, f):
        if s.value is not None:
            self.assign(s.target, self.eval(s.value, f), f)

    def s_AugAssign(self, s, f):
        cur = self.eval(_load(s.target), f)
        rhs = self.eval(s.value, f)
        v = self.binop(type(s.op).__name__, cur, rhs, inplace=True)
        if v is _INPLACE_DONE:
            # python always stores the result back (x[i] op= y is tmp = x[i]; tmp op= y; x[i] = tmp)
            v = cur
            if isinstance(s.target, ast.Name):
                return
        self.assign(s.target, v, f)

    def s_Return(self, s, f):
        raise _Return(self.eval(s.value, f) if s.value is not None else None)

    def s_Break(self, s, f):
        raise _Break()

    def s_Continue(self, s, f):
        raise _Continue()

    def s_Delete(self, s, f):
        for t in s.targets:
            if isinstance(t, ast.Name):
                f.locals.pop(t.id, None)
            elif isinstance(t, ast.Subscript):
                obj = self.eval(t.value, f)
                key = self.eval_index(t.slice, f)
                self.delitem(obj, key)
            elif isinstance(t, ast.Attribute):
                obj = self.eval(t.value, f)
                if isinstance(obj, SObj):
                    self.heap_write(obj)
                    obj.fields.pop(t.attr, None)
                else:
                    raise Unsupported("del attribute on concrete object")
            else:
                raise Unsupported("del target")

    def s_Assert(self, s, f):
        c = self.truth(self.eval(s.test, f))
        if not self.ctx.decide(c):
            raise PyRaise(AssertionError, (), s)

    def s_Raise(self, s, f):
        if s.exc is None:
            # bare raise: the exception being handled is raised again
            stack = getattr(f, "_handling", None)
            if stack:
                raise stack[-1]
            raise PyRaise(RuntimeError, ("No active exception to reraise",), s)
        if isinstance(s.exc, ast.Call):
            et = self.eval(s.exc.func, f)
            try:
                args = tuple(self.eval(a, f) for a in s.exc.args)
            except (Unsupported, PyRaise):
                args = ("<message>",)
        else:
            et = self.eval(s.exc, f)
            args = ()
        raise PyRaise(et, args, s)

    def s_If(self, s, f):
        c = self.truth(self.eval(s.test, f))
        if self.ctx.decide(c):
            self.exec_block(s.body, f)
        else:
            self.exec_block(s.orelse, f)

    def s_FunctionDef(self, s, f):
        f.locals[s.name] = Closure(s, f, s.name)

    def s_With(self, s, f):
        self._with_items(list(s.items), s.body, f)

    def _with_items(self, items, body, f):
        """`with a, b: body` is `with a: with b: body` (an exception while entering
        b leaves a through its __exit__); an __exit__ that returns a concrete true
        value swallows the exception"""
        if not items:
            self.exec_block(body, f)
            return
        item = items[0]
        mgr = self.eval(item.context_expr, f)
        val = self.call_method(mgr, "__enter__", [], {}, f, default=lambda: mgr)
        try:
            if item.optional_vars is not None:
                self.assign(item.optional_vars, val, f)
            self._with_items(items[1:], body, f)
        except PyRaise:
            r = self.call_method(mgr, "__exit__", ["exc", "exc", "exc"], {}, f, default=lambda: None)
            if r is True:
                return
            raise
        except (_Return, _Break, _Continue):
            self.call_method(mgr, "__exit__", [None, None, None], {}, f, default=lambda: None)
            raise
        self.call_method(mgr, "__exit__", [None, None, None], {}, f, default=lambda: None)

    def s_Try(self, s, f):
        try:
            try:
                self.exec_block(s.body, f)
            except PyRaise as e:
                for h in s.handlers:
                    if self.exc_matches(e, h, f):
                        if h.name:
                            f.locals[h.name] = e
                        stack = f.__dict__.setdefault("_handling", []) if hasattr(f, "__dict__") else None
                        if stack is not None:
                            stack.append(e)
                        try:
                            self.exec_block(h.body, f)
                        finally:
                            if stack is not None:
                                stack.pop()
                        break
                else:
                    raise
            else:
                self.exec_block(s.orelse, f)
        finally:
            # NB: a PathEnd/Unsupported passing through must not run user code
            import sys
            et = sys.exc_info()[0]
            if et is None or issubclass(et, (PyRaise, _Return, _Break, _Continue)):
                self.exec_block(s.finalbody, f)

    def exc_matches(self, e, h, f):
        if h.type is None:
            return True
        t = self.eval(h.type, f)
        ts = t if isinstance(t, tuple) else (t,)
        for x in ts:
            if isinstance(e.etype, type) and isinstance(x, type):
                if issubclass(e.etype, x):
                    return True
            elif getattr(x, "__name__", x) == e.name:
                return True
        return False

    # loops ------------------------------------------------------------------
    def s_While(self, s, f):
        spec = self.loop_spec(s, f)
        if spec is None:
            # concrete unrolling while the guard is decided concretely
            n = 0
            while True:
                c = self.truth(self.eval(s.test, f))
                if not isinstance(c, bool):
                    raise Unsupported(f"while loop with symbolic guard needs an invariant (line {s.lineno})")
                if not c:
                    self.exec_block(s.orelse, f)
                    return
                try:
                    self.exec_block(s.body, f)
                except _Break:
                    return
                except _Continue:
                    pass
                n += 1
                if n > 10000:
                    raise Unsupported("concrete while loop too long")
        self.cut_loop(s, f, spec, None)

    def s_For(self, s, f):
        it = self.eval(s.iter, f)
        seq = self.iter_plan(it)
        if seq[0] == "concrete":
            for x in seq[1]:
                self.assign(s.target, x, f)
                try:
                    self.exec_block(s.body, f)
                except _Break:
                    return
                except _Continue:
                    continue
            self.exec_block(s.orelse, f)
            return
        idx = f.loop_index(s)
        spec = self.loop_spec(s, f)
        if spec is None:
            raise Unsupported(f"for loop over a symbolic sequence needs an invariant "
                              f"({f.info.qualname} loop {idx}, line {s.lineno})")
        self.cut_loop(s, f, spec, seq)

    def loop_spec(self, s, f):
        """loop specs are keyed by the loop header text ("x in xs" / while test) --
        robust against unrelated edits -- or by ordinal in source order"""
        if isinstance(s, ast.For):
            text = f"{ast.unparse(s.target)} in {ast.unparse(s.iter)}"
        else:
            text = ast.unparse(s.test)
        idx = f.loop_index(s)
        for key in ((f.info.qualname, text), (f.info.qualname, idx)):
            if key in f.unit.loops:
                return f.unit.loops[key]
        if f.depth == 0:
            for key in (text, idx):
                if key in f.unit.loops:
                    return f.unit.loops[key]
        return None

    def iter_plan(self, it):
        """('concrete', python list) or ('sym', n, getter)"""
        from .models import SRange, SEnumerate, SZip, SKeysView
        if isinstance(it, (list, tuple, str, bytes, range, dict, set, frozenset)):
            return ("concrete", list(it))
        import numpy as _np
        if isinstance(it, _np.ndarray):
            return ("concrete", [x.item() if isinstance(x, _np.generic) and not isinstance(x, _np.str_) else
                                 (str(x) if isinstance(x, _np.str_) else x) for x in it])
        if isinstance(it, (types.GeneratorType, enumerate, zip, reversed, map, filter)) \
                or type(it).__name__ in ("dict_keys", "dict_values", "dict_items", "list_iterator"):
            return ("concrete", list(it))
        if isinstance(it, SRange):
            if all(isinstance(x, int) for x in (it.lo, it.hi, it.step)):
                return ("concrete", list(range(it.lo, it.hi, it.step)))
            if it.step != 1:
                raise Unsupported("symbolic range with step")
            lo, hi = to_z3(it.lo), to_z3(it.hi)
            n = z3.If(hi > lo, hi - lo, Z(0))
            return ("sym", n, lambda i: wrap(lo + i), {"lo": lo, "hi": hi})
        if isinstance(it, SArr):
            if z3.is_int_value(z3.simplify(it.n)):
                nn = z3.simplify(it.n).as_long()
                return ("concrete", [arr_elem(it, i) for i in range(nn)])
            return ("sym", it.n, lambda i: arr_elem(it, i))
        if isinstance(it, self.models.SIter):
            return ("sym", it.n, it.getter, dict(it.info))
        if isinstance(it, SEnumerate):
            inner = self.iter_plan(it.inner)
            if inner[0] == "concrete":
                return ("concrete", [(it.start + i, x) for i, x in enumerate(inner[1])])
            return ("sym", inner[1], lambda i: (wrap(to_z3(it.start) + i), inner[2](i)))
        if isinstance(it, SZip):
            plans = [self.iter_plan(x) for x in it.inners]
            if all(p[0] == "concrete" for p in plans):
                return ("concrete", list(zip(*[p[1] for p in plans])))
            ns, getters = [], []
            for p in plans:
                if p[0] == "concrete":
                    lst = p[1]
                    ns.append(Z(len(lst)))
                    getters.append(None)
                    raise Unsupported("zip of concrete and symbolic sequences")
                if p[0] != "sym":
                    raise Unsupported("zip over a live map")
                ns.append(p[1])
                getters.append(p[2])
            n = ns[0]
            for m in ns[1:]:
                n = z3.If(m < n, m, n)
            return ("sym", z3.simplify(n), lambda i: tuple(g(i) for g in getters))
        if isinstance(it, SKeysView):
            m = it.map
            if m.order is None:
                raise Unsupported("iteration over an unordered symbolic map")
            return ("sym-live-map", m)
        if isinstance(it, SMap):
            if it.order is None:
                raise Unsupported("iteration over an unordered symbolic map")
            return ("sym-live-map", it)
        if isinstance(it, SObj):
            # objects of the models that define __iter__ / keys (HDF5 groups, attribute managers)
            for nm in ("__iter__", "keys"):
                try:
                    m = self.getattr(it, nm, getattr(self, "cur_frame", None))
                except (Unsupported, PyRaise):
                    continue
                return self.iter_plan(self.call(m, [], {}, self.cur_frame))
        raise Unsupported(f"iteration over {type(it).__name__}")

    def assigned_names(self, body):
        names = set()
        for n in body:
            for x in ast.walk(n):
                if isinstance(x, ast.Name) and isinstance(x.ctx, (ast.Store, ast.Del)):
                    names.add(x.id)
                if isinstance(x, ast.Yield):
                    names.update(("__out__", "__nyield__"))
        return names

    def cut_loop(self, s, f, spec, seq):
        ctx = self.ctx
        is_for = isinstance(s, ast.For)
        line = s.lineno
        lidx = f.loop_index(s)
        live_map = None
        if is_for and seq[0] == "sym-live-map":
            live_map = seq[1]
        # --- entry
        extra = {}
        if is_for:
            if live_map is not None:
                extra = {"it": Z(0), "n": live_map.order.n}
            else:
                extra = {"it": Z(0), "n": seq[1]}
        rng = dict(seq[3]) if (is_for and len(seq) > 3) else {}
        extra.update(rng)
        for name, inv in spec.inv(ctx, View(f, extra)):
            ctx.check(inv, f"loop{lidx} invariant on entry: {name}", line, kind="inv-entry")
        # --- havoc
        names = self.assigned_names(s.body) | (self.assigned_names([s.target]) if is_for else set())
        names |= set(spec.kinds)
        ctx.stamp += 1
        for nm in sorted(names):
            if nm in spec.kinds:
                f.locals[nm] = spec.kinds[nm](ctx)
            elif nm in f.locals:
                f.locals[nm] = ctx.fresh_like(f.locals[nm], f"{nm}@L{lidx}")
            # names first assigned inside the loop stay undefined at the head
        if is_for:
            i = ctx.int(f"it@L{lidx}").e
            n = live_map.order.n if live_map is not None else seq[1]
            ctx.assume(i >= 0)
            ctx.assume(i <= n)
            extra = {"it": i, "n": n}
            extra.update(rng)
        # arrays the loop may write (modifies clause) hold arbitrary contents at the loop
        # head: the body has run any number of times.  The spec's own havoc may set them;
        # whatever it leaves as it was before the loop is replaced here.
        mod_arrs = []
        if spec.modifies is not None:
            try:
                mod_arrs = [o.root() for o in spec.modifies(ctx, View(f, extra)) if isinstance(o, SArr)]
            except (AttributeError, KeyError):
                mod_arrs = []      # names first bound inside the loop: nothing older than the loop to havoc
        before = [(r, r._a) for r in mod_arrs]
        if spec.havoc is not None:
            spec.havoc(ctx, View(f, extra))
        for r, a0 in before:
            if r._a is a0 or z3.eq(r._a, a0):
                r.set_a(z3.Const(ctx._name(f"{getattr(r, 'name', None) or 'arr'}@L{lidx}"), a0.sort()))
                ctx.engine.stats.setdefault("auto_havoc", []).append((f.unit.name, lidx))
        for name, inv in spec.inv(ctx, View(f, extra)):
            ctx.assume(inv)
        # --- step or exit
        if is_for:
            n = live_map.order.n if live_map is not None else seq[1]
            guard = i < n
        else:
            guard = self.truth(self.eval(s.test, f))
        took = ctx.decide(guard)
        st = ctx.engine.stats.setdefault("loops", {}).setdefault((f.unit.name, f.info.qualname, lidx, line),
                                                                 {"step": 0, "exit": 0})
        st["step" if took else "exit"] += 1
        if took:
            if spec.hints is not None:
                for name, h in spec.hints(ctx, View(f, extra)):
                    ctx.lemma(h, f"loop{lidx} hint (valid on its own): {name}", line)
            if is_for:
                if live_map is not None:
                    x = wrap(live_map.order.sel(i))
                    size0 = live_map.size
                else:
                    x = seq[2](i)
                self.assign(s.target, x, f)
            saved_writes = ctx.writes
            ctx.writes = {}
            allowed = None
            if spec.modifies is not None:
                allowed = {_uid(o) for o in spec.modifies(ctx, View(f, extra))}
            try:
                try:
                    self.exec_block(s.body, f)
                except _Continue:
                    pass
                if live_map is not None:
                    # CPython: "dictionary changed size during iteration"
                    if not ctx.decide(wrap(live_map.size == size0)):
                        raise PyRaise(RuntimeError, ("dictionary changed size during iteration",), s)
            except _Break:
                # a path that leaves the loop continues with the actual state:
                # no havoc is involved, hence no frame obligation
                ctx.writes = _merge(saved_writes, ctx.writes)
                return    # continue after the loop (no else clause)
            self.check_loop_frame(ctx, allowed, lidx, line)
            ctx.writes = _merge(saved_writes, ctx.writes)
            if is_for:
                extra2 = {"it": i + 1, "n": n}
                extra2.update(rng)
            else:
                extra2 = {}
            for name, inv in spec.inv(ctx, View(f, extra2)):
                ctx.check(inv, f"loop{lidx} invariant preserved: {name}", line, kind="inv-step")
            if spec.decreases is not None and not is_for:
                pass
            raise PathEnd("cut")
        else:
            self.exec_block(s.orelse, f)

    def check_loop_frame(self, ctx, allowed, lidx, line):
        if allowed is None:
            bad = [d for u, d in ctx.writes.items() if d[1] is not None and d[1] < ctx.stamp]
            # writes to objects older than the loop head without a modifies clause
            if bad:
                ctx.check(z3.BoolVal(False),
                          f"loop{lidx} frame: body writes heap object(s) "
                          f"{sorted(set(b[0] for b in bad))} but the loop spec declares no modifies",
                          line, kind="frame")
            return
        for u, d in ctx.writes.items():
            if d[1] is not None and d[1] < ctx.stamp and u not in allowed:
                ctx.check(z3.BoolVal(False),
                          f"loop{lidx} frame: body writes {d[0]} outside the declared modifies",
                          line, kind="frame")

    def heap_write(self, obj):
        if self.ctx.writes is not None:
            self.ctx.writes[_uid(obj)] = (repr(obj), getattr(obj, "birth", None))

    # ------------------------------------------------------------- assignment
    def assign(self, t, v, f):
        if isinstance(t, ast.Name):
            f.locals[t.id] = v
        elif isinstance(t, (ast.Tuple, ast.List)):
            vals = self.unpack(v, len(t.elts))
            for tt, vv in zip(t.elts, vals):
                self.assign(tt, vv, f)
        elif isinstance(t, ast.Attribute):
            obj = self.eval(t.value, f)
            self.setattr(obj, t.attr, v, f)
        elif isinstance(t, ast.Subscript):
            obj = self.eval(t.value, f)
            key = self.eval_index(t.slice, f)
            self.setitem(obj, key, v)
        else:
            raise Unsupported(f"assignment target {type(t).__name__}")

    def unpack(self, v, n):
        if isinstance(v, (tuple, list)):
            if len(v) != n:
                raise PyRaise(ValueError, ("unpack",))
            return list(v)
        if isinstance(v, SArr):
            nn = z3.simplify(v.n)
            if z3.is_int_value(nn) and nn.as_long() == n:
                return [wrap(v.sel(i)) for i in range(n)]
        if isinstance(v, SOpaque) and getattr(v, "pytype", None) is None:
            # components of an opaque tuple result
            parts = [SOpaque(self.ctx.const(f"{v.e}_part{i}", v.e.sort())) for i in range(n)]
            for i, r in enumerate(parts):
                SIGS[id(r)] = (r, ("part", i, sig_of(v)))
            return parts
        raise Unsupported(f"unpack of {type(v).__name__}")

    def setattr(self, obj, name, v, f):
        if isinstance(obj, SObj):
            # property setter?
            fi = self.lookup_method(obj, name + ".setter", f)
            if fi is not None:
                raise Unsupported("property setter")
            self.heap_write(obj)
            obj.fields[name] = v
            if obj.clsname == "ArrFlags" and name == "writeable":
                if not isinstance(v, bool):
                    raise Unsupported("symbolic writeable flag")
                arr = obj.fields["arr"]
                if v and arr.base is not None and not arr.base.writeable:
                    raise PyRaise(ValueError, ("cannot set WRITEABLE flag to True of this array",))
                arr.writeable = v
            return
        if isinstance(obj, SArr) and name == "flags":
            raise Unsupported("flags assignment")
        if isinstance(obj, PyRaise) and name == "args":
            # e.args = (...): the message of the exception being handled is replaced
            obj.args = tuple(v) if isinstance(v, (tuple, list)) else (v,)
            obj.eargs = obj.args
            return
        raise Unsupported(f"attribute store on {type(obj).__name__}.{name}")

    def setitem(self, obj, key, v):
        if isinstance(obj, SOpaque) and self._opaque_operands(obj):
            # in-place update of an opaque value: its signature records the dependency
            SIGS[id(obj)] = (obj, ("store", sig_of(obj), sig_of(key), sig_of(v)))
            return None
        m = self.models.setitem(self, obj, key, v)
        if m is NotImplemented:
            raise Unsupported(f"item store on {type(obj).__name__}")

    def delitem(self, obj, key):
        m = self.models.delitem(self, obj, key)
        if m is NotImplemented:
            raise Unsupported(f"item delete on {type(obj).__name__}")

    # ------------------------------------------------------------ expressions
    def eval(self, e, f):
        self.cur_frame = f
        m = getattr(self, "e_" + type(e).__name__, None)
        if m is None:
            raise Unsupported(f"expression {type(e).__name__} at line {getattr(e, 'lineno', '?')}")
        return m(e, f)

    def e_Constant(self, e, f):
        v = e.value
        if isinstance(v, bytes) and getattr(f.unit, "bytes_ghost", None) and v == b"":
            return SBytes(0, 0, f.unit.bytes_ghost)
        return v

    def e_Name(self, e, f):
        fr = f
        while fr is not None:
            if e.id in fr.locals:
                return fr.locals[e.id]
            fr = getattr(fr, "parent", None)
        if e.id in f.globals:
            return f.globals[e.id]
        if hasattr(builtins, e.id):
            return getattr(builtins, e.id)
        if f.info.path.endswith(".pyx"):
            # C-level (cdef) functions of an extension module are not in its Python
            # namespace: resolved in the cy2py text of the same file
            try:
                fi = source.find(f.info.path, e.id)
                return FuncRef(fi, f"{f.unit.module}:{e.id}", module=f.unit.module)
            except KeyError:
                pass
        raise PyRaise(NameError, (e.id,), e)

    def e_Tuple(self, e, f):
        return tuple(self.eval_elts(e.elts, f))

    def e_List(self, e, f):
        return list(self.eval_elts(e.elts, f))

    def e_Set(self, e, f):
        return set(self.eval_elts(e.elts, f))

    def eval_elts(self, elts, f):
        out = []
        for x in elts:
            if isinstance(x, ast.Starred):
                v = self.eval(x.value, f)
                p = self.iter_plan(v)
                if p[0] != "concrete":
                    raise Unsupported("starred symbolic sequence")
                out.extend(p[1])
            else:
                out.append(self.eval(x, f))
        return out

    def e_Dict(self, e, f):
        d = {}
        for k, v in zip(e.keys, e.values):
            if k is None:
                vv = self.eval(v, f)
                if not isinstance(vv, dict):
                    raise Unsupported("** of symbolic map in dict literal")
                d.update(vv)
            else:
                kk = self.eval(k, f)
                if is_sym(kk):
                    raise Unsupported("symbolic key in dict literal")
                d[kk] = self.eval(v, f)
        return d

    def e_JoinedStr(self, e, f):
        parts = []
        for v in e.values:
            if isinstance(v, ast.Constant):
                parts.append(v.value)
            else:
                try:
                    x = self.eval(v.value, f)
                except (Unsupported, PyRaise):
                    x = "<?>"
                if is_sym(x) or _has_sym(x):
                    return self.models.fstring(self, e, f)
                fmt = ""
                if v.format_spec is not None:
                    fmt = self.eval(v.format_spec, f)
                if v.conversion == 114:
                    x = repr(x)
                parts.append(format(x, fmt) if not is_sym(x) else "<sym>")
        return "".join(parts)

    def e_FormattedValue(self, e, f):
        return self.e_JoinedStr(ast.JoinedStr(values=[e]), f)

    def e_IfExp(self, e, f):
        c = self.truth(self.eval(e.test, f))
        if self.ctx.decide(c):
            return self.eval(e.body, f)
        return self.eval(e.orelse, f)

    def e_Lambda(self, e, f):
        return Closure(e, f)

    def e_BoolOp(self, e, f):
        isand = isinstance(e.op, ast.And)
        v = None
        for i, x in enumerate(e.values):
            v = self.eval(x, f)
            if i == len(e.values) - 1:
                return v
            t = self.ctx.decide(self.truth(v))
            if isand and not t:
                return v
            if not isand and t:
                return v
        return v

    def e_UnaryOp(self, e, f):
        v = self.eval(e.operand, f)
        op = type(e.op).__name__
        if op == "Not":
            t = self.truth(v)
            return (not t) if isinstance(t, bool) else wrap(z3.Not(t.e))
        if self._opaque_operands(v):
            from .sym import Elem
            r = SOpaque(self.ctx.const(f"unary_{op}", Elem))
            SIGS[id(r)] = (r, (op, sig_of(v)))
            return r
        return self.models.unaryop(self, op, v)

    def e_BinOp(self, e, f):
        a = self.eval(e.left, f)
        b = self.eval(e.right, f)
        return self.binop(type(e.op).__name__, a, b)

    def _opaque_operands(self, *vs):
        unit = getattr(getattr(self, "cur_frame", None), "unit", None)
        if not getattr(unit, "opaque_arith", False):
            return False
        return any(isinstance(v, SOpaque) and getattr(v, "pytype", None) is None for v in vs) \
            or any(isinstance(v, float) and v != v for v in vs)

    def binop(self, op, a, b, inplace=False):
        if self._opaque_operands(a, b):
            from .sym import Elem
            r = SOpaque(self.ctx.const(f"arith_{op}", Elem))
            SIGS[id(r)] = (r, (op, sig_of(a), sig_of(b)))
            return r
        return self.models.binop(self, op, a, b, inplace)

    def e_Compare(self, e, f):
        left = self.eval(e.left, f)
        result = None
        for op, rhs in zip(e.ops, e.comparators):
            right = self.eval(rhs, f)
            if self._opaque_operands(left, right) and type(op).__name__ not in ("Is", "IsNot", "In", "NotIn"):
                from .sym import Elem
                r = SOpaque(self.ctx.const(f"cmp_{type(op).__name__}", Elem))
                SIGS[id(r)] = (r, (type(op).__name__, sig_of(left), sig_of(right)))
            else:
                r = self.models.compare(self, type(op).__name__, left, right)
            if result is None:
                result = r
            else:
                # chained comparison: short-circuit semantics
                result = self.and_values(result, r)
            left = right
        return result

    def and_values(self, a, b):
        ta, tb = self.truth(a), self.truth(b)
        if isinstance(ta, bool):
            return b if ta else a
        if isinstance(tb, bool):
            return a if tb else False
        return wrap(z3.And(ta.e, tb.e))

    def e_Attribute(self, e, f):
        obj = self.eval(e.value, f)
        return self.getattr(obj, e.attr, f, e)

    def e_Subscript(self, e, f):
        obj = self.eval(e.value, f)
        key = self.eval_index(e.slice, f)
        r = self.models.getitem(self, obj, key)
        if r is NotImplemented:
            if self._opaque_operands(obj):
                from .sym import Elem
                r = SOpaque(self.ctx.const("opaque_item", Elem))
                SIGS[id(r)] = (r, ("getitem", sig_of(obj), sig_of(key)))
                return r
            raise Unsupported(f"subscript of {type(obj).__name__} with {type(key).__name__} (line {e.lineno})")
        return r

    def eval_index(self, sl, f):
        if isinstance(sl, ast.Slice):
            return slice(self.eval(sl.lower, f) if sl.lower is not None else None,
                         self.eval(sl.upper, f) if sl.upper is not None else None,
                         self.eval(sl.step, f) if sl.step is not None else None)
        if isinstance(sl, ast.Tuple):
            return tuple(self.eval_index(x, f) for x in sl.elts)
        return self.eval(sl, f)

    def e_Slice(self, e, f):
        return self.eval_index(e, f)

    def e_ListComp(self, e, f):
        return list(self.comprehension(e, f))

    def e_GeneratorExp(self, e, f):
        return list(self.comprehension(e, f))

    def e_SetComp(self, e, f):
        return set(self.comprehension(e, f))

    def e_DictComp(self, e, f):
        out = {}
        for fr in self.comp_frames(e.generators, f):
            out[self.eval(e.key, fr)] = self.eval(e.value, fr)
        return out

    def comprehension(self, e, f):
        for fr in self.comp_frames(e.generators, f):
            yield self.eval(e.elt, fr)

    def comp_frames(self, gens, f):
        if not gens:
            yield f
            return
        g = gens[0]
        it = self.eval(g.iter, f)
        p = self.iter_plan(it)
        if p[0] != "concrete":
            raise Unsupported("comprehension over a symbolic sequence")
        for x in p[1]:
            fr = Frame(f.unit, f.info, dict(f.locals), f.globals, f.depth)
            fr.old = f.old
            self.assign(g.target, x, fr)
            ok = True
            for c in g.ifs:
                if not self.ctx.decide(self.truth(self.eval(c, fr))):
                    ok = False
                    break
            if ok:
                yield from self.comp_frames(gens[1:], fr)

    def e_Starred(self, e, f):
        raise Unsupported("starred expression")

    def e_Yield(self, e, f):
        """generator under contract: the yielded value (its value *now*) is appended
        to the ghost output; per-yield obligations come from unit.on_yield"""
        if f.depth != 0 or "__out__" not in f.locals:
            raise Unsupported("yield outside a generator unit")
        v = self.eval(e.value, f) if e.value is not None else None
        unit = f.unit
        for name, g in unit.on_yield(self.ctx, View(f), v):
            self.ctx.check(g, f"at yield: {name}", e.lineno, kind="yield")
        out = f.locals["__out__"]
        if isinstance(v, SArr):
            k = z3.Int(self.ctx._name("k!y"))
            on, oa, va = out.n, out.a, v.a
            new = SArr(z3.simplify(out.n + v.n),
                       z3.Lambda([k], z3.If(k < on, z3.Select(oa, k), z3.Select(va, k - on))), out.kind)
        else:
            new = SArr(z3.simplify(out.n + 1), z3.Store(out.a, out.n, to_z3(v, out.kind)), out.kind)
        new.birth = self.ctx.stamp
        f.locals["__out__"] = new
        f.locals["__nyield__"] = wrap(to_z3(f.locals["__nyield__"]) + 1)
        return None

    # calls ------------------------------------------------------------------
    def e_Call(self, e, f):
        fn = self.eval(e.func, f)
        args = []
        for a in e.args:
            if isinstance(a, ast.Starred):
                v = self.eval(a.value, f)
                p = self.iter_plan(v)
                if p[0] != "concrete":
                    raise Unsupported("*args of symbolic length")
                args.extend(p[1])
            else:
                args.append(self.eval(a, f))
        kwargs = {}
        for k in e.keywords:
            if k.arg is None:
                v = self.eval(k.value, f)
                import collections.abc as _abc
                if not isinstance(v, dict) and isinstance(v, _abc.Mapping) and not is_sym(v):
                    v = dict(v)          # a concrete mapping object (e.g. hdf5plugin.Zstd)
                if not isinstance(v, dict):
                    raise Unsupported("**kwargs of symbolic map")
                kwargs.update(v)
            else:
                kwargs[k.arg] = self.eval(k.value, f)
        self.ctx.line = e.lineno
        return self.call(fn, args, kwargs, f, e)

    def call(self, fn, args, kwargs, f, node=None):
        ctx = self.ctx
        if isinstance(fn, BoundModel):
            return fn.fn(self, fn.obj, *args, **kwargs)
        if isinstance(fn, Closure):
            return self.call_closure(fn, args, kwargs)
        if isinstance(fn, FuncRef):
            return self.call_funcref(fn, args, kwargs, f)
        if isinstance(fn, PyRaise):
            raise Unsupported("calling an exception object")
        if isinstance(fn, SObj):
            m = self.getattr(fn, "__call__", f, node)
            return self.call(m, args, kwargs, f, node)
        np_opaque = False
        if getattr(f.unit, "opaque_arith", False):
            # effects-only units: numeric content is abstracted -- a numpy function
            # applied to opaque data (or one the models cannot handle) yields an opaque value
            fmod = getattr(fn, "__module__", None) or ""
            import numpy as _np
            np_opaque = (fmod.startswith(("numpy", "scipy")) or isinstance(fn, _np.ufunc)) \
                and (any(_has_sym(a) for a in args) or any(_has_sym(v) for v in kwargs.values()))

        def _opaque_np():
            from .sym import Elem
            r = SOpaque(self.ctx.const(f"np_{getattr(fn, '__name__', 'f')}", Elem))
            SIGS[id(r)] = (r, (f"numpy.{getattr(fn, '__name__', 'f')}", tuple(sig_of(a) for a in args),
                               tuple(sorted((k, sig_of(v)) for k, v in kwargs.items()))))
            return r
        has_untyped = any(isinstance(a, SOpaque) and getattr(a, "pytype", None) is None
                          for a in list(args) + list(kwargs.values()))
        # model registered for this very callable?
        model = self.models.lookup(fn)
        mode = getattr(f.unit, "opaque_arith", False)
        if np_opaque and mode is True:
            return _opaque_np()          # every numpy function on symbolic data is opaque
        if np_opaque and (model is None or has_untyped) \
                and not any(isinstance(a, SObj) for a in list(args) + list(kwargs.values())):
            return _opaque_np()          # mode "fallback": opaque only where the models do not apply
        if model is not None:
            if np_opaque:
                try:
                    return model(self, *args, **kwargs)
                except Unsupported:
                    return _opaque_np()
            return model(self, *args, **kwargs)
        if isinstance(fn, type) and issubclass(fn, BaseException):
            return PyRaiseValue(fn, args)
        if isinstance(fn, types.FunctionType) and fn.__name__ == "<lambda>" \
                and fn.__code__.co_code == (lambda x: x).__code__.co_code and len(args) == 1 and not kwargs:
            return args[0]       # an identity lambda returned by native code
        # dclab function or class -> contract / inline
        mod = getattr(fn, "__module__", None) or ""
        om = getattr(f.unit, "opaque_modules", ())
        if om and mod.startswith(tuple(om)) and callable(fn) and not isinstance(fn, type):
            # declared by the unit: functions of these modules are pure functions of
            # their arguments (they are not handed the object under contract)
            guard = getattr(f.unit, "opaque_guard", None)
            if guard is not None:
                guard(self, fn, args, kwargs)
            self.ctx.note(f"opaque pure call: {mod}.{getattr(fn, '__name__', '?')}")
            nm = getattr(fn, "__name__", "f")
            from .sym import Elem
            r = SOpaque(self.ctx.const(f"{nm}_result", Elem))
            r_sig = (f"{mod}.{nm}", tuple(sig_of(a) for a in args),
                     tuple(sorted((k, sig_of(v)) for k, v in kwargs.items())))
            SIGS[id(r)] = (r, r_sig)
            return r
        if isinstance(fn, (types.FunctionType, types.MethodType)) and mod.startswith("dclab"):
            key = f"{mod}:{getattr(fn, '__qualname__', '')}"
            if (key in f.unit.native or getattr(fn, "__qualname__", "") in f.unit.native) \
                    and not any(_has_sym(a) for a in args) \
                    and not any(_has_sym(v) for v in kwargs.values()):
                # trusted native call of a dclab table look-up on concrete arguments
                self.ctx.note(f"native call (trusted): {key}")
                try:
                    return fn(*args, **kwargs)
                except Exception as ex:
                    raise PyRaise(type(ex), ex.args, node)
            ref = self.funcref_for(fn, f)
            return self.call_funcref(ref, args, kwargs, f)
        if mod.startswith("dclab") and not isinstance(fn, (type, types.FunctionType, types.MethodType)) \
                and callable(fn):
            # compiled (Cython) dclab function: only a contract can stand for it
            nm = getattr(fn, "__name__", "")
            c = f.unit.callees.get(f"{mod}:{nm}") or f.unit.callees.get(nm)
            if c is not None:
                return c(self, *args, **kwargs)
            if nm in f.unit.inline or f"{mod}:{nm}" in f.unit.inline:
                # inlined from the .pyx source (cy2py text) of the extension module
                pyx = mod.replace(".", "/") + ".pyx"
                try:
                    info = source.find(pyx, nm)
                except (KeyError, OSError):
                    info = None
                if info is not None:
                    return self.inline_call(FuncRef(info, f"{mod}:{nm}", module=mod), args, kwargs, f)
            raise Unsupported(f"call to compiled dclab function {mod}:{nm} has no contract")
        if isinstance(fn, type) and mod.startswith("dclab"):
            key = f"{mod}:{fn.__qualname__}"
            c = f.unit.callees.get(key) or f.unit.callees.get(fn.__qualname__)
            if c is not None:
                return c(self, *args, **kwargs)
            if fn.__qualname__ in f.unit.classes and (fn.__qualname__ + ".__init__") in f.unit.inline:
                # construct a record of the class and run the real __init__ on it
                obj = self.ctx.obj(fn.__qualname__, {}, name=fn.__qualname__.lower())
                obj.realcls = fn
                fi = self.lookup_method(obj, "__init__", f)
                if fi is None:
                    raise Unsupported(f"{fn.__qualname__} has no __init__ in the declared sources")
                ref = FuncRef(fi, fi.qualname, module=f.unit.class_modules.get(fn.__qualname__))
                self.inline_call(ref, [obj] + list(args), kwargs, f)
                return obj
            raise Unsupported(f"constructor call {key} has no contract")
        # methods of concrete python containers that never compare elements
        slf = getattr(fn, "__self__", None)
        if isinstance(slf, (list, dict)) and not isinstance(fn, types.MethodType):
            nm = getattr(fn, "__name__", "")
            safe_list = {"append", "extend", "insert", "pop", "clear", "copy", "reverse"}
            safe_dict = {"update", "setdefault", "pop", "get", "keys", "values", "items", "copy", "clear"}
            if (isinstance(slf, list) and nm in safe_list) or (isinstance(slf, dict) and nm in safe_dict):
                keyargs = args[:1] if isinstance(slf, dict) and nm in ("setdefault", "pop", "get") else []
                if isinstance(slf, list) and nm in ("insert", "pop"):
                    keyargs = args[:1]
                if not any(is_sym(k) and not isinstance(k, SObj) for k in keyargs):
                    if nm in ("append", "extend", "insert", "pop", "clear", "reverse", "update", "setdefault"):
                        self.heap_write(slf)
                    if nm == "extend" and args and is_sym(args[0]):
                        p = self.iter_plan(args[0])
                        if p[0] != "concrete":
                            raise Unsupported("list.extend with a symbolic sequence")
                        slf.extend(p[1])
                        return None
                    try:
                        return fn(*args, **kwargs)
                    except Exception as ex:
                        raise PyRaise(type(ex), ex.args, node)
        if getattr(fn, "__name__", "") == "join" and isinstance(getattr(fn, "__self__", None), str) \
                and args and _has_sym(args[0]):
            return self.models.str_join(self, fn.__self__, args[0])
        # "...{}...".format(x) with symbolic fields: structured string
        if getattr(fn, "__name__", "") == "format" and isinstance(getattr(fn, "__self__", None), str):
            return self.models.str_format(self, fn.__self__, args, kwargs)
        # concrete pure call
        if not any(_has_sym(a) for a in args) and not any(_has_sym(v) for v in kwargs.values()):
            if fn in PURE_BUILTINS or self.models.is_pure(fn):
                try:
                    return fn(*args, **kwargs)
                except Exception as ex:   # the real library raised
                    raise PyRaise(type(ex), ex.args, node)
        raise Unsupported(f"call to {getattr(fn, '__qualname__', fn)!r} "
                          f"({mod}) has no model/contract (line {getattr(node, 'lineno', '?')})")

    def funcref_for(self, fn, f):
        if isinstance(fn, types.MethodType):
            # a method of a concrete (module-level) object of the library: only a callee contract
            # named "<Class>.<method>" can stand for it (the object itself is not modelled)
            short = f"{type(fn.__self__).__qualname__}.{fn.__name__}"
            key = f"{fn.__func__.__module__}:{short}"
            if key in f.unit.callees or short in f.unit.callees:
                return FuncRef(None, key, module=fn.__func__.__module__)
            raise Unsupported("bound method of a concrete dclab object")
        mod = fn.__module__
        path = mod.replace(".", "/") + ".py"
        import os
        if not os.path.exists(source.REPO / path):
            if os.path.exists(source.REPO / (mod.replace(".", "/") + ".pyx")):
                path = mod.replace(".", "/") + ".pyx"
            else:
                path = mod.replace(".", "/") + "/__init__.py"
        key = f"{mod}:{fn.__qualname__}"
        try:
            info = source.find(path, fn.__qualname__)
        except KeyError:
            info = None
        return FuncRef(info, key, module=mod)

    def call_funcref(self, ref, args, kwargs, f):
        unit = f.unit
        short = ref.key.split(":")[-1]
        c = unit.callees.get(ref.key) or unit.callees.get(short)
        if ref.bound is not None:
            args = [ref.bound] + list(args)
        if c is not None:
            return c(self, *args, **kwargs)
        if (ref.key in unit.inline or short in unit.inline) and ref.info is not None:
            return self.inline_call(ref, args, kwargs, f)
        raise Unsupported(f"call to dclab function {ref.key} has no contract and is not inlined")

    def inline_call(self, ref, args, kwargs, f):
        if f.depth > 12:
            raise Unsupported("inline depth")
        if ref.module:
            gl = importlib.import_module(ref.module).__dict__
        else:
            gl = f.globals
        fr = Frame(f.unit, ref.info, {}, gl, f.depth + 1)
        fr.old = f.old
        self.bind_params(ref.info, fr, {}, args, kwargs)
        return self.exec_function_body(ref.info.node, fr)

    def call_closure(self, c, args, kwargs):
        node = c.node
        fr = Frame(c.frame.unit, c.frame.info, {}, c.frame.globals, c.frame.depth + 1)
        fr.parent = c.frame
        fr.old = c.frame.old
        fake = types.SimpleNamespace(node=node)
        self.bind_params(fake, fr, {}, args, kwargs)
        if isinstance(node, ast.Lambda):
            return self.eval(node.body, fr)
        fr.info = types.SimpleNamespace(node=node, qualname=c.frame.info.qualname + ".<locals>." + c.name)
        return self.exec_function_body(node, fr)

    def call_method(self, obj, name, args, kwargs, f, default=None):
        try:
            m = self.getattr(obj, name, f, None)
        except (PyRaise, Unsupported):
            if default is not None:
                return default()
            raise
        return self.call(m, list(args), dict(kwargs), f)

    # attribute access ---------------------------------------------------------
    def lookup_method(self, obj, name, f):
        """FuncInfo of a method of an SObj's class (through declared bases)"""
        cls = obj.clsname
        seen = set()
        todo = [cls]
        while todo:
            c = todo.pop(0)
            if c in seen:
                continue
            seen.add(c)
            loc = f.unit.classes.get(c)
            if loc is None:
                continue
            sf = source.load(loc[0])
            fi = sf.get(f"{loc[1]}.{name}")
            if fi is not None:
                return fi
            for b in sf.class_bases(loc[1]):
                todo.append(b.split(".")[-1])
        return None

    def getattr(self, obj, name, f, node=None):
        ctx = self.ctx
        if isinstance(obj, SObj):
            if name in obj.fields:
                return obj.fields[name]
            if name == "__class__":
                return types.SimpleNamespace(__name__=obj.clsname)
            # contract for attribute (property) access
            key = f"{obj.clsname}.{name}"
            fi = self.lookup_method(obj, name, f)
            if key in f.unit.callees:
                c = f.unit.callees[key]
                if getattr(c, "is_property", False):
                    return c(self, obj)
                if fi is not None and fi.is_static:
                    return BoundModel(lambda interp, o, *a, **k: c(interp, *a, **k), obj, name)
                return BoundModel(lambda interp, o, *a, **k: c(interp, o, *a, **k), obj, name)
            if fi is not None:
                loc = f.unit.classes.get(obj.clsname)
                ref = FuncRef(fi, f"{fi.path}:{fi.qualname}", bound=None if fi.is_static else obj,
                              module=f.unit.class_modules.get(fi.qualname.split(".")[0]))
                if fi.is_property:
                    if key in f.unit.inline or fi.qualname in f.unit.inline:
                        return self.inline_call(ref, [obj], {}, f)
                    raise Unsupported(f"property {fi.qualname} has no contract and is not inlined")
                # allow contract lookup by qualname
                c = f.unit.callees.get(fi.qualname)
                if c is not None:
                    if fi.is_static:
                        return BoundModel(lambda interp, o, *a, **k: c(interp, *a, **k), obj, name)
                    return BoundModel(lambda interp, o, *a, **k: c(interp, o, *a, **k), obj, name)
                ref.key = fi.qualname
                return ref
            m = self.models.obj_attr(self, obj, name)
            if m is not NotImplemented:
                return m
            if getattr(obj, "closed", False):
                raise PyRaise(AttributeError, (f"{obj.clsname}.{name}",), node)
            # the record is a partial model of the real object: an attribute the
            # model does not have is a limit of the model, not an AttributeError
            raise Unsupported(f"model of {obj.clsname} has no attribute '{name}'")
        if is_sym(obj) or isinstance(obj, (PyRaiseValue,)):
            m = self.models.sym_attr(self, obj, name)
            if m is NotImplemented and isinstance(obj, SOpaque) and getattr(obj, "pytype", None) is None \
                    and getattr(getattr(self, "cur_frame", None), "unit", None) is not None \
                    and getattr(self.cur_frame.unit, "opaque_arith", False) and not name.startswith("__"):
                # method of an opaque array (max, min, flatten, ...): an opaque value tagged with the call
                def _meth(interp, o, *a, _name=name, **k):
                    from .sym import Elem
                    r = SOpaque(interp.ctx.const(f"method_{_name}", Elem))
                    SIGS[id(r)] = (r, ("method", _name, sig_of(o), tuple(sig_of(x) for x in a),
                                       tuple(sorted((kk, sig_of(v)) for kk, v in k.items()))))
                    return r
                if name in ("shape",):
                    raise Unsupported("shape of an opaque value")
                return BoundModel(_meth, obj, name)
            if m is NotImplemented:
                raise Unsupported(f"attribute {name} of {type(obj).__name__}")
            return m
        # concrete python object
        if isinstance(obj, (list, dict, tuple, str, bytes, set)) and _has_sym(obj):
            m = self.models.container_attr(self, obj, name)
            if m is not NotImplemented:
                return m
        try:
            return getattr(obj, name)
        except AttributeError:
            raise PyRaise(AttributeError, (name,), node)

    # truthiness -----------------------------------------------------------------
    def truth(self, v):
        return self.models.truth(self, v)


class PyRaiseValue:
    """an exception instance created by the interpreted program"""

    def __init__(self, etype, args):
        self.etype = etype
        self.args = args
        self.__name__ = etype.__name__


_INPLACE_DONE = object()


def _load(t):
    import copy
    t2 = copy.copy(t)
    t2.ctx = ast.Load()
    return t2


def _uid(o):
    if isinstance(o, SArr):
        return ("a", o.root().uid)
    return ("o", getattr(o, "uid", id(o)))


def _merge(a, b):
    if a is None:
        return None
    a.update(b)
    return a


def _has_sym(v, depth=0):
    if is_sym(v) or isinstance(v, (Closure, FuncRef, BoundModel)):
        return True
    if depth > 3:
        return False
    if isinstance(v, (list, tuple, set)):
        return any(_has_sym(x, depth + 1) for x in v)
    if isinstance(v, dict):
        return any(_has_sym(x, depth + 1) for x in v.values())
    if isinstance(v, slice):
        return any(_has_sym(x) for x in (v.start, v.stop, v.step))
    return False


# --------------------------------------------------------------------------
# verification units
# --------------------------------------------------------------------------
class Unit:
    """One function under contract.  Subclass or instantiate with callables."""
    name = ""
    path = ""
    qualname = ""
    module = None
    loops = {}
    callees = {}
    inline = ()
    classes = {}
    class_modules = {}
    bytes_ghost = None
    extra_globals = None
    native = ()
    asserts = None

    def __init__(self, **kw):
        for k, v in kw.items():
            setattr(self, k, v)
        if not self.name:
            self.name = self.qualname
        self.loops = dict(self.loops)
        self.callees = dict(self.callees)
        self.inline = set(self.inline)
        self.classes = dict(self.classes)
        self.class_modules = dict(self.class_modules)

    def get_globals(self):
        gl = {}
        if self.module:
            gl = dict(importlib.import_module(self.module).__dict__)
        if self.extra_globals:
            gl.update(self.extra_globals)
        return gl

    def setup(self, ctx):
        return {}

    def post(self, ctx, st):
        return []

    def raises(self, ctx, st, exc):
        """formula under which raising `exc` is permitted; None = never"""
        return None

    def on_yield(self, ctx, v, value):
        """obligations at every yield of a generator under contract"""
        return []
