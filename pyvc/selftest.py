"""Engine self-test run by setup.sh: the transfer functions of the symbolic
executor are compared with CPython on small programs (mixed concrete/symbolic),
and a deliberately wrong toy function must fail its obligation."""
import ast
import sys
import types

import z3

from . import engine, solve, source
from .sym import to_z3

SRC = '''
def f(a, b):
    q = a // b
    r = a % b
    if q < 0:
        q = -q
    s = 0
    for i in range(b):
        s += i
    return q * b + r + s - s

def g(n):
    t = 0
    i = 0
    while i < n:
        t += 2
        i += 1
    return t

def bad(n):
    t = 0
    for i in range(n):
        t += 2
    return t + (1 if n == 7 else 0)

def aug(d, k, x):
    d[k] += x
    d[k] -= 1
    return d[k]

class CM:
    def __init__(self, log, name, fail=False):
        self.log, self.name, self.fail = log, name, fail
    def __enter__(self):
        if self.fail:
            raise ValueError(self.name)
        self.log.append("enter " + self.name)
        return self
    def __exit__(self, *a):
        self.log.append("exit " + self.name)

def withs(log, fail_second, fail_body):
    try:
        with CM(log, "a"), CM(log, "b", fail_second):
            log.append("body")
            if fail_body:
                raise KeyError("x")
    except (ValueError, KeyError):
        log.append("caught")
    return log

def withs2(log, a, b, fail_body):
    try:
        with a, b:
            log.append("body")
            if fail_body:
                raise KeyError("x")
    except (ValueError, KeyError):
        log.append("caught")
    return log
'''


class ToyUnit(engine.Unit):
    path = "<toy>"

    def get_globals(self):
        return {}


def _info(name):
    tree = ast.parse(SRC)
    for n in tree.body:
        if isinstance(n, ast.FunctionDef) and n.name == name:
            return types.SimpleNamespace(node=n, qualname=name, path="<toy>", sha256="", lines=(n.lineno, n.end_lineno))


def run(unit, name):
    eng = engine.Engine()
    real = source.find
    source.find = lambda p, q: _info(name)
    eng_dropped = engine._dropped
    engine._dropped = lambda info: []
    try:
        obs, rep = eng.verify(unit)
    finally:
        source.find = real
        engine._dropped = eng_dropped
    res = solve.discharge(obs, 10000)
    return [(o, r) for o, r in zip(obs, res) if o.kind != "canary"]


def main():
    ns = {}
    exec(SRC, ns)
    # 1. concrete differential: python floor division/modulo for all sign combinations
    for a in range(-7, 8):
        for b in (-3, -2, -1, 1, 2, 3):
            class U(ToyUnit):
                qualname = "f"
                def setup(self, ctx, a=a, b=b):
                    return {"a": a, "b": b}
                def post(self, ctx, st, a=a, b=b):
                    return [("same as CPython", to_z3(st.result) == ns["f"](a, b))]
            if b > 0:
                out = run(U(), "f")
                assert all(r["verdict"] == "unsat" for o, r in out), (a, b, out)
    # symbolic floor division agrees with CPython on all models
    class V(ToyUnit):
        qualname = "f"
        def setup(self, ctx):
            a = ctx.int("a"); b = ctx.int("b")
            ctx.assume(b.e >= 1); ctx.assume(b.e <= 3)
            return {"a": a, "b": b}
        loops = {0: engine.LoopSpec(inv=lambda ctx, v: [("s>=0", to_z3(v.s) >= 0)])}
        def post(self, ctx, st):
            a, b = to_z3(st.old.a), to_z3(st.old.b)
            return [("q*b+r == a or reflected", z3.Or(to_z3(st.result) == a, a < 0))]
    out = run(V(), "f")
    assert all(r["verdict"] == "unsat" for o, r in out), out
    # 2. loop with invariant: g(n) == 2n
    class G(ToyUnit):
        qualname = "g"
        def setup(self, ctx):
            n = ctx.int("n"); ctx.assume(n.e >= 0); return {"n": n}
        loops = {0: engine.LoopSpec(inv=lambda ctx, v: [("t==2i", z3.And(to_z3(v.t) == 2 * to_z3(v.i), to_z3(v.i) <= to_z3(v.n), to_z3(v.i) >= 0))])}
        def post(self, ctx, st):
            return [("result == 2n", to_z3(st.result) == 2 * to_z3(st.old.n))]
    out = run(G(), "g")
    assert out and all(r["verdict"] == "unsat" for o, r in out), out
    # 3. a wrong function must fail, with the right counterexample
    class B(ToyUnit):
        qualname = "bad"
        def setup(self, ctx):
            n = ctx.int("n"); ctx.assume(n.e >= 0); return {"n": n}
        loops = {0: engine.LoopSpec(inv=lambda ctx, v: [("t==2it", to_z3(v.t) == 2 * v.it)])}
        def post(self, ctx, st):
            return [("result == 2n", to_z3(st.result) == 2 * to_z3(st.old.n))]
    out = run(B(), "bad")
    sat = [(o, r) for o, r in out if r["verdict"] == "sat"]
    assert sat and all(r["model"].get("n") == "7" for o, r in sat), out
    # 4. augmented assignment to a subscript stores back (engine defect found with C03)
    class A(ToyUnit):
        qualname = "aug"
        def setup(self, ctx):
            x = ctx.int("x")
            self._x = x
            return {"d": {"a": 5}, "k": "a", "x": x}
        def post(self, ctx, st):
            return [("d[k] == 5 + x - 1", to_z3(st.result) == 4 + self._x.e),
                    ("stored back", to_z3(st.args["d"]["a"]) == 4 + self._x.e)]
    out = run(A(), "aug")
    assert out and all(r["verdict"] == "unsat" for o, r in out), out
    # 5. `with a, b`: order of enter/exit also when entering b or the body fails (C10);
    #    the managers are model objects, the reference trace comes from CPython classes
    from . import h5model

    def _enter(interp, o):
        if o.fields["fail"]:
            raise engine.PyRaise(ValueError, (o.fields["name"],))
        o.fields["log"].append("enter " + o.fields["name"])
        return o

    def _exit(interp, o, *a):
        o.fields["log"].append("exit " + o.fields["name"])
        return None
    h5model.OBJ_METHODS[("ToyCM", "__enter__")] = _enter
    h5model.OBJ_METHODS[("ToyCM", "__exit__")] = _exit
    for fs in (False, True):
        for fb in (False, True):
            want = ns["withs"]([], fs, fb)
            class W(ToyUnit):
                qualname = "withs2"
                def setup(self, ctx, fs=fs, fb=fb):
                    log = []
                    mk = lambda n, f: ctx.obj("ToyCM", {"name": n, "fail": f, "log": log})   # noqa: E731
                    return {"log": log, "a": mk("a", False), "b": mk("b", fs), "fail_body": fb}
                def post(self, ctx, st, want=want):
                    return [("same trace as CPython", z3.BoolVal(list(st.result) == want))]
            out = run(W(), "withs2")
            assert out and all(r["verdict"] == "unsat" for o, r in out), (fs, fb, want, out)
    solve.close_pool()
    print("pyvc selftest ok")


if __name__ == "__main__":
    main()
