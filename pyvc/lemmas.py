"""Ghost lemmas about specification functions, proved by explicit induction
(base case and step are separate z3 queries; z3 does no induction itself).

summary functions over F arrays (recursive definition):
    S(A, 0)   = (cnt 0, sum 0, min NaN, max NaN)
    S(A, n+1) = step(S(A, n), A[n])
        step((c,s,mn,mx), x) = (c + [x finite], s + (x if finite), fmin(mn,x), fmax(mx,x))

N-SUM-PREFIX   A and B agree on [0,n)                   =>  S(A,n) = S(B,n)
N-SUM-CONCAT   C agrees with A on [0,a), C[a+k] = B[k]  =>  S(C,a+m) = S(A,a) (+) S(B,m)
N-EXT-NAN      min/max are NaN exactly when cnt == 0; cnt == 0 => sum == 0; 0 <= cnt <= n
"""
from __future__ import annotations

import time

import z3

from .sym import F
from .npmodel import fmin, fmax, fterm

AF = z3.ArraySort(z3.IntSort(), F)
cnt = z3.Function("L.cnt", AF, z3.IntSort(), z3.IntSort())
sm = z3.Function("L.sum", AF, z3.IntSort(), z3.RealSort())
mn = z3.Function("L.min", AF, z3.IntSort(), F)
mx = z3.Function("L.max", AF, z3.IntSort(), F)


def defs(A, n):
    """the recursive definition instantiated at (A, n): S(A, n+1) from S(A, n)"""
    x = z3.Select(A, n)
    c, t = fterm(x)
    return z3.And(cnt(A, n + 1) == cnt(A, n) + c, sm(A, n + 1) == sm(A, n) + t,
                  mn(A, n + 1) == fmin(mn(A, n), x), mx(A, n + 1) == fmax(mx(A, n), x))


def base(A):
    return z3.And(cnt(A, 0) == 0, sm(A, 0) == 0, mn(A, 0) == F.nan, mx(A, 0) == F.nan)


def eqS(A, n, B, m):
    return z3.And(cnt(A, n) == cnt(B, m), sm(A, n) == sm(B, m), mn(A, n) == mn(B, m),
                  mx(A, n) == mx(B, m))


def plus(A, a, B, m, C, n):
    """S(C,n) == S(A,a) (+) S(B,m)"""
    return z3.And(cnt(C, n) == cnt(A, a) + cnt(B, m), sm(C, n) == sm(A, a) + sm(B, m),
                  mn(C, n) == fmin(mn(A, a), mn(B, m)), mx(C, n) == fmax(mx(A, a), mx(B, m)))


def wf(A, n):
    """range facts used as induction hypothesis of N-EXT-NAN"""
    return z3.And(cnt(A, n) >= 0, cnt(A, n) <= n,
                  F.is_nan(mn(A, n)) == (cnt(A, n) == 0), F.is_nan(mx(A, n)) == (cnt(A, n) == 0),
                  z3.Or(F.is_nan(mn(A, n)), F.is_fin(mn(A, n))),
                  z3.Or(F.is_nan(mx(A, n)), F.is_fin(mx(A, n))),
                  z3.Implies(cnt(A, n) == 0, sm(A, n) == 0),
                  z3.Implies(cnt(A, n) > 0, F.val(mn(A, n)) <= F.val(mx(A, n))))


def _prove(name, hyps, goal, timeout_ms=20000):
    s = z3.Solver()
    s.set("timeout", timeout_ms)
    for h in hyps:
        s.add(h)
    s.add(z3.Not(goal))
    t0 = time.time()
    r = s.check()
    return {"lemma": name, "verdict": str(r), "time_s": round(time.time() - t0, 3)}


def summary_lemmas():
    A, B, C = z3.Consts("A B C", AF)
    n, a, m = z3.Ints("n a m")
    k = z3.Int("k")
    out = []
    agree = lambda X, Y, hi: z3.ForAll([k], z3.Implies(z3.And(k >= 0, k < hi),  # noqa
                                                       z3.Select(X, k) == z3.Select(Y, k)))
    # N-SUM-PREFIX ----------------------------------------------------------------
    out.append(_prove("N-SUM-PREFIX base", [base(A), base(B)], eqS(A, 0, B, 0)))
    out.append(_prove("N-SUM-PREFIX step",
                      [n >= 0, agree(A, B, n + 1),
                       z3.Implies(agree(A, B, n), eqS(A, n, B, n)),     # induction hypothesis
                       defs(A, n), defs(B, n)],
                      eqS(A, n + 1, B, n + 1)))
    # N-SUM-CONCAT (induction on m; uses PREFIX for the base) ------------------------
    shifted = lambda hi: z3.ForAll([k], z3.Implies(z3.And(k >= 0, k < hi),   # noqa
                                                   z3.Select(C, a + k) == z3.Select(B, k)))
    out.append(_prove("N-SUM-CONCAT base",
                      [a >= 0, agree(C, A, a), eqS(C, a, A, a),        # PREFIX instance
                       wf(A, a),                                        # N-EXT-NAN instance
                       base(B)],
                      plus(A, a, B, 0, C, a + 0)))
    out.append(_prove("N-SUM-CONCAT step",
                      [a >= 0, m >= 0, agree(C, A, a), shifted(m + 1),
                       z3.Implies(shifted(m), plus(A, a, B, m, C, a + m)),   # induction hypothesis
                       defs(C, a + m), defs(B, m)],
                      plus(A, a, B, m + 1, C, a + m + 1)))
    # N-EXT-NAN -------------------------------------------------------------------
    out.append(_prove("N-EXT-NAN base", [base(A)], wf(A, 0)))
    out.append(_prove("N-EXT-NAN step", [n >= 0, wf(A, n), defs(A, n),
                                         z3.Or(F.is_fin(z3.Select(A, n)), F.is_nan(z3.Select(A, n)))],
                      wf(A, n + 1)))
    return out


if __name__ == "__main__":
    for r in summary_lemmas():
        print(r)
