"""Per-event payload statistics (used by the brightness contracts of C18).

An event image / mask / background image is an opaque payload (sort Elem).  The
numpy operations the brightness functions apply to *one* event are uninterpreted
functions of the payloads they are given -- which is what "the mean of the
background-corrected image under the mask" means at the level of these
functions:

  P-CAST     np.array(img, dtype=int)      -> cast_int(img)
  P-SUB      a - b  (two payloads)         -> psub(a, b)
  P-SELECT   img[mask]                     -> pselect(img, mask)
  P-MEAN / P-STD / P-PERC                  -> real-valued functions of the selected pixels

``np.zeros(n) * np.nan`` (an output buffer initialised with NaN) is an array of
unspecified reals: entries that are never overwritten stay unspecified, so a
postcondition about them cannot be proved.

Active for units with ``payload_stats = True``.
"""
from __future__ import annotations

import numpy as np
import z3

from . import models, npmodel
from .sym import SArr, SOpaque, SReal, Elem, to_z3, wrap, is_sym

CAST_INT = z3.Function("cast_int", Elem, Elem)
PSUB = z3.Function("psub", Elem, Elem, Elem)
PSELECT = z3.Function("pselect", Elem, Elem, Elem)
MEAN = z3.Function("pixel_mean", Elem, z3.RealSort())
STD = z3.Function("pixel_std", Elem, z3.RealSort())
PERC = z3.Function("pixel_percentile", Elem, z3.RealSort(), z3.RealSort())


def _eng():
    from . import engine
    return engine


def _active(interp):
    return getattr(getattr(interp.cur_frame, "unit", None), "payload_stats", False)


def _is_payload(v):
    return isinstance(v, SOpaque) and getattr(v, "pytype", None) is None and v.e.sort() == Elem


_prev_binop = models.binop


def binop(interp, op, a, b, inplace=False):
    if _active(interp):
        if _is_payload(a) and _is_payload(b) and op == "Sub":
            models.axiom("P-SUB")
            return SOpaque(PSUB(a.e, b.e))
        # buffer of NaN: np.zeros(n) * np.nan
        if op == "Mult" and isinstance(a, SArr) and isinstance(b, float) and b != b:
            r = interp.ctx.arr("nan_buffer", "real", n=a.n)
            return r
    return _prev_binop(interp, op, a, b, inplace)


models.binop = binop

_prev_getitem = models.getitem


def getitem(interp, obj, key):
    if _active(interp) and _is_payload(obj) and _is_payload(key):
        models.axiom("P-SELECT")
        return SOpaque(PSELECT(obj.e, key.e))
    return _prev_getitem(interp, obj, key)


models.getitem = getitem

_prev_array = models._MODELS[np.array]


def _np_array(interp, obj, dtype=None, **kw):
    if _active(interp) and _is_payload(obj):
        if dtype is int or dtype in (np.int64, np.int32, "int"):
            models.axiom("P-CAST")
            return SOpaque(CAST_INT(obj.e))
        return obj
    return _prev_array(interp, obj, dtype=dtype, **kw)


models._MODELS[np.array] = _np_array


def _stat(fn, name):
    prev = models._MODELS.get(getattr(np, name))

    def m(interp, x, *a, **k):
        if _active(interp) and _is_payload(x):
            models.axiom("P-" + name.upper())
            return wrap(fn(x.e))
        if prev is not None:
            return prev(interp, x, *a, **k)
        raise _eng().Unsupported(f"np.{name} of {type(x).__name__}")
    models._MODELS[getattr(np, name)] = m


_stat(MEAN, "mean")
_stat(STD, "std")

_prev_perc = models._MODELS.get(np.percentile)


def _percentile(interp, x, q=None, **k):
    if _active(interp) and _is_payload(x):
        models.axiom("P-PERC")
        if isinstance(q, (list, tuple)):
            return tuple(wrap(PERC(x.e, z3.RealVal(v))) for v in q)
        return wrap(PERC(x.e, to_z3(q, "real")))
    if _prev_perc is not None:
        return _prev_perc(interp, x, q=q, **k)
    raise _eng().Unsupported("np.percentile")


models._MODELS[np.percentile] = _percentile
