"""Driver: decide one property.

  python -m pyvc.run C19 --tier quick|thorough
  python -m pyvc.run C19 --replay replays/C19-....json

Exit codes: 0 held (known findings are printed as KNOWN-FINDING lines),
1 violation (VIOLATION line), 2 undecided (a solver gave up / the function left
the accepted subset and the bounded stand-in found nothing), 3 machinery error.
"""
from __future__ import annotations

import argparse
import importlib
import json
import os
import pathlib
import sys
import time
import traceback

import z3

HERE = pathlib.Path(__file__).resolve().parent.parent
sys.path.insert(0, str(HERE))

from pyvc import engine, solve, source, models   # noqa: E402
from pyvc.sym import SArr   # noqa: E402


def load_known():
    p = HERE / "known_findings.json"
    if p.exists():
        return json.loads(p.read_text())
    return []


def run_review_script(rel, timeout=180):
    """(reproduces?, last output line) of a demonstration script kept under /verif/review: exit code 1 and
    FAIL on the current tree means the defect is still there, exit code 0 that it is gone"""
    import os
    import subprocess
    import sys
    script = HERE / rel
    env = dict(os.environ, PYTHONPATH=str(source.REPO), PYTHONDONTWRITEBYTECODE="1")
    try:
        r = subprocess.run([sys.executable, str(script)], cwd=str(source.REPO), env=env, capture_output=True,
                           text=True, timeout=timeout)
    except Exception as ex:
        return None, f"demonstration could not be run: {type(ex).__name__}"
    out = (r.stdout.strip().splitlines() or [""])[-1]
    if r.returncode == 1:
        return True, out
    if r.returncode == 0:
        return False, out
    return None, f"demonstration ended with exit code {r.returncode}: {(r.stderr.strip().splitlines() or [''])[-1][:200]}"


def active_findings(pid):
    return [k for k in load_known() if k["property"] == pid and k["kind"] == "finding"]


# ----------------------------------------------------------------------------
def minimise_model(ob, inputs, timeout_ms=5000, bound=40):
    """prefer a small witness: re-solve with |int inputs| <= bound"""
    s = z3.Solver()
    s.set("timeout", timeout_ms)
    for p in ob.pc:
        s.add(p)
    s.add(z3.Not(ob.goal))
    terms = []
    for name, t in inputs.items():
        if isinstance(t, SArr):
            terms.append(t.n)
        elif z3.is_expr(t) and z3.is_int(t):
            terms.append(t)
    for b in (8, bound, 4096):
        s.push()
        for t in terms:
            s.add(t <= b, t >= -b)
        r = s.check()
        if r == z3.sat:
            m = s.model()
            s.pop()
            return extract(m, inputs), "bounded<=%d" % b
        s.pop()
    r = s.check()
    if r == z3.sat:
        return extract(s.model(), inputs), "unbounded"
    return None, "none"


def _has_quant(f):
    seen = set()
    todo = [f]
    while todo:
        x = todo.pop()
        if x.get_id() in seen:
            continue
        seen.add(x.get_id())
        if z3.is_quantifier(x):
            return True
        todo.extend(x.children())
    return False


def _instantiate(f, dom=range(-1, 7)):
    """finite instantiation of universally quantified conjuncts over a small
    integer range (a relaxation: used only to *propose* inputs, which are then
    validated on the real code)"""
    import itertools
    if z3.is_and(f):
        out = []
        for c in f.children():
            out.extend(_instantiate(c, dom))
        return out
    if z3.is_quantifier(f) and f.is_forall():
        nv = f.num_vars()
        if nv > 2 or any(f.var_sort(i) != z3.IntSort() for i in range(nv)):
            return []
        body = f.body()
        out = []
        for vals in itertools.product(dom, repeat=nv):
            inst = z3.substitute_vars(body, *[z3.IntVal(v) for v in reversed(vals)])
            if not _has_quant(inst):
                out.append(inst)
        return out
    if not _has_quant(f):
        return [f]
    return []


def candidate_models(ob, inputs, limit=12, timeout_ms=3000, full=False):
    """models of (quantifier-free part of pc) and not goal, small inputs first"""
    if not inputs:
        return
    s = z3.Solver()
    s.set("timeout", timeout_ms)
    for p in ob.pc:
        if full or not _has_quant(p):
            s.add(p)
        else:
            for q in _instantiate(p):
                s.add(q)
    if full or not _has_quant(ob.goal):
        s.add(z3.Not(ob.goal))
    else:
        # not(forall k. P) is an existential: a witness inside the range suffices
        g = ob.goal
        if z3.is_quantifier(g) and g.is_forall():
            inst = _instantiate(g)
            if inst:
                s.add(z3.Not(z3.And(*inst)))
    terms = []
    for name, t in inputs.items():
        if isinstance(t, SArr):
            terms.append(t.n)
        elif z3.is_expr(t) and z3.is_int(t):
            terms.append(t)
    n = 0
    for b in (6, 12, 40):
        s.push()
        for t in terms:
            s.add(t <= b, t >= -b)
        while n < limit and s.check() == z3.sat:
            m = s.model()
            yield extract(m, inputs)
            n += 1
            blk = [t != m.eval(t, model_completion=True) for t in terms]
            if not blk:
                break
            s.add(z3.Or(*blk))
        s.pop()
        if n >= limit:
            return


def extract(m, inputs):
    out = {}
    for name, t in inputs.items():
        try:
            if isinstance(t, SArr):
                n = m.eval(t.n, model_completion=True)
                nn = n.as_long() if z3.is_int_value(n) else 0
                vals = []
                for i in range(min(nn, 64)):
                    vals.append(_pyval(m.eval(t.sel(i), model_completion=True)))
                out[name] = vals
            else:
                out[name] = _pyval(m.eval(t, model_completion=True))
        except Exception as ex:   # pragma: no cover
            out[name] = f"<unevaluated: {ex}>"
    return out


def _pyval(v):
    if z3.is_int_value(v):
        return v.as_long()
    if z3.is_true(v):
        return True
    if z3.is_false(v):
        return False
    if z3.is_rational_value(v):
        num, den = v.numerator_as_long(), v.denominator_as_long()
        return num / den if den != 1 else float(num)
    if z3.is_string_value(v):
        return v.as_string()
    if z3.is_app(v) and v.sort().name() == "F":
        nm = v.decl().name()
        if nm == "fin":
            return _pyval(v.arg(0))
        return {"nan": float("nan"), "pinf": float("inf"), "ninf": float("-inf")}[nm]
    if z3.is_algebraic_value(v):
        return float(v.approx(12).as_fraction())
    return str(v)


class ObLite:
    """what the accounting needs of an obligation discharged in a worker process"""

    def __init__(self, ob):
        self.name, self.line, self.kind, self.key = ob.name, ob.line, ob.kind, ob.key
        self.goal_true = bool(z3.is_true(ob.goal))
        self.goal = str(ob.goal)[:400] if ob.kind in ("post", "inv-step") and not self.goal_true else ""
        self.pc = [None] * len(ob.pc)


def _goal_true(ob):
    return ob.goal_true if isinstance(ob, ObLite) else z3.is_true(ob.goal)


def _unit_job(pid, idx, timeout_ms, tier):
    """worker: one unit, all obligations; returns None unless everything was
    discharged (the parent then redoes the unit itself)"""
    os.environ["VERIF_JOBS"] = "2"
    mod = importlib.import_module(f"contracts.{pid}")
    unit = mod.UNITS[idx]
    try:
        eng = engine.Engine()
        obs, rep = eng.verify(unit)
        res = solve.discharge(obs, timeout_ms, cross_check=(tier == "thorough"))
    except Exception:
        return None
    finally:
        solve.close_pool()
    for ob, r in zip(obs, res):
        if ob.kind == "canary":
            continue
        if r["verdict"] != "unsat":
            return None
    lite = [ObLite(ob) for ob in obs]
    res = [{k: v for k, v in r.items() if k != "model"} for r in res]
    return rep, lite, res


def _unit_child(pid, idx, timeout_ms, tier, conn):
    try:
        conn.send(_unit_job(pid, idx, timeout_ms, tier))
    except Exception:
        try:
            conn.send(None)
        except Exception:
            pass
    finally:
        conn.close()


# ----------------------------------------------------------------------------
class Run:
    def __init__(self, pid, tier, seed):
        self.pid = pid
        self.tier = tier
        self.seed = seed
        self.t0 = time.time()
        self.mod = importlib.import_module(f"contracts.{pid}")
        self.violations = []
        self.undecided = []
        self.known_lines = []
        self.units = []
        self.samples = []
        self.solver_time = 0.0
        self.by_backend = {}
        self.n_ob = 0
        self.n_dis = 0
        self.unsupported = []
        self.extra = {}
        self._bounded_done = set()

    def timeout_ms(self):
        return int(os.environ.get("VERIF_TIMEOUT_MS", "10000" if self.tier == "quick" else "60000"))

    # ------------------------------------------------------------------
    def run_units(self):
        eng = engine.Engine()
        mod = self.mod
        pre = {}
        if getattr(mod, "PARALLEL_UNITS", False) and not os.environ.get("VERIF_SERIAL"):
            pre = self.prefetch_units()
        for idx, unit in enumerate(getattr(mod, "UNITS", [])):
            rec = {"function": unit.name, "file": unit.path, "qualname": unit.qualname}
            self.units.append(rec)
            if idx in pre:
                # every obligation of this unit was discharged in a worker process:
                # account its summary; anything else is redone here with the full
                # machinery (counterexample extraction, replay)
                rep, lite, res = pre[idx]
                rec.update(rep)
                self.account(unit, rec, lite, res)
                continue
            try:
                obs, rep = eng.verify(unit)
            except engine.Unsupported as ex:
                rec["status"] = "unsupported"
                rec["reason"] = str(ex)
                self.unsupported.append((unit, str(ex)))
                continue
            except KeyError as ex:
                # the function the contract is attached to has disappeared
                rec["status"] = "contract does not attach"
                rec["reason"] = str(ex)
                self.unsupported.append((unit, f"contract does not attach: {ex}"))
                continue
            rec.update(rep)
            res = solve.discharge(obs, self.timeout_ms(), cross_check=(self.tier == "thorough"))
            self.account(unit, rec, obs, res)

    def prefetch_units(self):
        """generate and discharge the units of this property in parallel worker
        processes (one unit per task); returns {index: (report, obligations-lite,
        results)} for the units whose obligations were all discharged"""
        import multiprocessing as mp
        from multiprocessing.pool import ThreadPool
        units = getattr(self.mod, "UNITS", [])
        n = min(len(units), int(os.environ.get("VERIF_JOBS", "0")) or min(16, os.cpu_count() or 4))
        if n < 2:
            return {}
        solve.close_pool()
        ctx = mp.get_context("fork")
        args = (self.pid, self.timeout_ms(), self.tier)

        def one(i):
            # one process per unit, forked from this process as it is now: what a worker
            # has generated before then cannot leak into the names of the next unit
            parent, child = ctx.Pipe(duplex=False)
            p = ctx.Process(target=_unit_child, args=(args[0], i, args[1], args[2], child))
            p.start()
            child.close()
            try:
                r = parent.recv()
            except (EOFError, OSError):
                r = None
            p.join()
            parent.close()
            return r
        out = {}
        with ThreadPool(n) as tp:
            for i, r in enumerate(tp.map(one, range(len(units)), chunksize=1)):
                if r is not None:
                    out[i] = r
        return out

    def account(self, unit, rec, obs, res):
        named = {}
        canaries = {"sat": 0, "unknown": 0, "unsat": 0}
        nvc = 0
        for ob, r in zip(obs, res):
            self.solver_time += r.get("time_s", 0.0)
            if r.get("time_s", 0.0) > 2.0:
                # slow queries are the unstable ones: recorded so that they can be split or given hints
                self.extra.setdefault("slow_obligations", []).append(
                    {"obligation": getattr(ob, "key", str(ob))[:200], "seconds": round(r["time_s"], 1),
                     "verdict": r.get("verdict"), "backend": r.get("backend", "z3")})
            if ob.kind == "canary":
                canaries[r["verdict"]] += 1
                continue
            nvc += 1
            be = r.get("backend", "z3")
            self.by_backend[be] = self.by_backend.get(be, 0) + 1
            if r.get("cvc5") == "unsat":
                self.by_backend["cvc5-crosscheck"] = self.by_backend.get("cvc5-crosscheck", 0) + 1
            d = named.setdefault((ob.name, ob.line), {"vcs": 0, "unsat": 0, "fail": []})
            d["vcs"] += 1
            if r["verdict"] == "unsat":
                d["unsat"] += 1
            else:
                d["fail"].append((ob, r))
        rec["vcs"] = nvc
        rec["canaries"] = canaries
        rec["obligations"] = len(named)
        rec["discharged"] = sum(1 for d in named.values() if not d["fail"])
        self.n_ob += len(named)
        self.n_dis += rec["discharged"]
        if canaries["sat"] + canaries["unknown"] == 0 and rec["ends"]["return"] > 0:
            self.undecided.append(f"{unit.name}: every normal path end is unreachable (vacuous contract)")
        if nvc == 0:
            self.undecided.append(f"{unit.name}: no obligations generated")
        for lname, st in (rec.get("cut_loops") or {}).items():
            # vacuity guard for loop invariants: both the loop body and the loop exit
            # must be reachable under the invariant on some path
            if st["step"] == 0 or st["exit"] == 0:
                self.undecided.append(f"{unit.name}: {lname}: the invariant makes the loop "
                                      f"{'body' if st['step'] == 0 else 'exit'} unreachable (vacuous invariant)")
        if len(self.samples) < 6 and obs:
            for ob in obs:
                if ob.kind in ("post", "inv-step") and not _goal_true(ob):
                    self.samples.append({"function": unit.name, "obligation": ob.name,
                                         "line": ob.line, "kind": ob.kind,
                                         "path_condition_conjuncts": len(ob.pc),
                                         "goal": (ob.goal if isinstance(ob.goal, str) else str(ob.goal))[:400]})
                    break
        for (name, line), d in named.items():
            if not d["fail"]:
                continue
            sat = [(ob, r) for ob, r in d["fail"] if r["verdict"] == "sat"]
            if sat:
                self.handle_sat(unit, name, line, sat)
            else:
                self.handle_unknown(unit, name, line, d["fail"])

    # ------------------------------------------------------------------
    def handle_sat(self, unit, name, line, sat):
        ob, r = sat[0]
        inputs, how = None, "none"
        ctx_inputs = {}
        try:
            # the inputs were registered by the contract's setup on this path
            ctx_inputs = self.inputs_for(unit, ob)
            if r.get("backend") == "cvc5" and isinstance(r.get("model"), dict):
                # model of the second back end (strings): use it as it is; z3 is not
                # asked again (its string solver does not honour time limits)
                inputs, how = {}, "cvc5 model"
                for name in ctx_inputs:
                    if name in r["model"]:
                        inputs[name] = _parse_smt_value(r["model"][name])
            elif ctx_inputs:
                inputs, how = minimise_model(ob, ctx_inputs)
            else:
                inputs, how = {}, "the unit has no symbolic inputs (the replay harness chooses its own)"
        except Exception:
            inputs = None
        replay_dir = HERE / "replays"
        replay_dir.mkdir(exist_ok=True)
        fn = replay_dir / f"{self.pid}-{_slug(unit.name)}-{_slug(name)}.json"
        doc = {"property": self.pid, "unit": unit.name, "file": unit.path, "obligation": name,
               "line": line, "solver": r.get("backend"), "solver_verdict": "sat",
               "model_inputs": inputs, "model_kind": how,
               "solver_model_raw": {k: v for k, v in list((r.get("model") or {}).items())[:40]},
               "path": list(ob.path)}
        outcome = None
        # replays on the real code share a time budget per run: a change that breaks
        # many obligations at once is reported for all of them, replayed for the first ones
        budget = float(os.environ.get("VERIF_REPLAY_BUDGET_S", "240"))
        spent = getattr(self, "_replay_spent", 0.0)
        t_r = time.time()
        if spent > budget:
            outcome = {"failed": None, "detail": f"not replayed: the replay budget of this run ({budget:.0f} s) is used up"}
        elif inputs is not None and hasattr(self.mod, "replay"):
            try:
                outcome = self.mod.replay(unit.name, inputs, name)
            except Exception:
                outcome = {"failed": None, "detail": "replay harness error: " + traceback.format_exc()[-600:]}
        if spent <= budget and hasattr(self.mod, "replay") and not (outcome and outcome.get("failed")) \
                and r.get("backend") != "cvc5":
            # the smallest model did not fail on the real code: try further models
            try:
                for cand in candidate_models(ob, ctx_inputs, limit=16, full=True):
                    if time.time() - t_r > 60:
                        break
                    out2 = self.mod.replay(unit.name, cand, name)
                    if out2.get("failed"):
                        outcome, doc["model_inputs"], doc["model_kind"] = out2, cand, "further model"
                        break
            except Exception:
                pass
        self._replay_spent = spent + (time.time() - t_r)
        doc["replay"] = outcome
        fn.write_text(json.dumps(doc, indent=1, default=str))
        rel = fn.relative_to(HERE)
        if outcome and outcome.get("failed"):
            self.violations.append(f"VIOLATION property={self.pid} replay={rel}")
        else:
            self.violations.append(f"VIOLATION property={self.pid} replay={rel} no-failing-input-found")
        print(f"  failed obligation: {unit.name} :: {name} (line {line})")
        if outcome:
            print(f"  replay: {outcome.get('detail', '')[:300]}")

    def handle_unknown(self, unit, name, line, fails):
        """Neither solver decided.  Look for a counterexample *candidate* (models
        of the quantifier-free part of the path condition, small values first)
        and validate each on the real code: a candidate that fails the replay is
        a genuine violation with a failing input; otherwise the obligation stays
        undecided (never reported as a violation)."""
        ob, r = fails[0]
        tried = 0
        if hasattr(self.mod, "replay"):
            try:
                ctx_inputs = self.inputs_for(unit, ob)
            except Exception:
                ctx_inputs = {}
            for ob2, _ in fails[:4]:
                for cand in candidate_models(ob2, ctx_inputs, limit=12):
                    tried += 1
                    try:
                        out = self.mod.replay(unit.name, cand, name)
                    except Exception:
                        continue
                    if out.get("failed"):
                        replay_dir = HERE / "replays"
                        replay_dir.mkdir(exist_ok=True)
                        fn = replay_dir / f"{self.pid}-{_slug(unit.name)}-{_slug(name)}.json"
                        fn.write_text(json.dumps({
                            "property": self.pid, "unit": unit.name, "file": unit.path,
                            "obligation": name, "line": line,
                            "solver_verdict": "unknown (" + str(r.get("reason", "")) + ")",
                            "model_inputs": cand, "model_kind": "candidate from the quantifier-free "
                            "part of the path condition, validated on the real code",
                            "replay": out, "path": list(ob2.path)}, indent=1, default=str))
                        print(f"  failed obligation: {unit.name} :: {name} (line {line})")
                        print(f"  replay: {out.get('detail', '')[:300]}")
                        self.violations.append(f"VIOLATION property={self.pid} replay={fn.relative_to(HERE)}")
                        return
        # the obligation held on the unchanged tree and cannot be established now: also
        # try the bounded inputs of the contract on the real code
        if unit.name not in self._bounded_done:
            self._bounded_done.add(unit.name)
            if self.bounded_standin(unit, f"obligation '{name}' undecided by the solvers"):
                return
        self.undecided.append(f"{unit.name}::{name} (line {line}): solver verdict "
                              f"{r['verdict']} ({r.get('reason', '')}); {tried} candidate inputs "
                              f"replayed on the real code without failure")

    def run_lemmas(self):
        """ghost lemmas the contracts rely on: each base/step query is one obligation"""
        names = getattr(self.mod, "LEMMAS", [])
        if not names:
            return
        from pyvc import lemmas
        recs = []
        for nm in names:
            fn = getattr(self.mod, nm, None) or getattr(lemmas, nm)      # property-specific or shared lemma set
            for r in fn():
                recs.append(r)
                self.n_ob += 1
                self.solver_time += r["time_s"]
                self.by_backend["z3"] = self.by_backend.get("z3", 0) + 1
                if r["verdict"] == "unsat":
                    self.n_dis += 1
                else:
                    self.undecided.append(f"lemma {r['lemma']}: {r['verdict']}")
        self.extra["lemmas"] = recs

    def bounded_standin(self, unit, reason, budget=600):
        """The function cannot be verified (engine limit).  Its obligations, which
        held on the unchanged tree, can no longer be established; look for a
        concrete failing input by running the real code against the contract's
        postcondition on small inputs.  Labelled bounded, never counted as proved."""
        if not (hasattr(self.mod, "bounded_inputs") and hasattr(self.mod, "replay")):
            return False
        import random
        rng = random.Random(self.seed)
        n = 0
        rec = {"function": unit.name, "tool": "concrete replay of the contract on small inputs",
               "reason": reason, "cases": 0, "bound": f"first {budget} inputs of contracts.{self.pid}.bounded_inputs"}
        self.extra.setdefault("bounded_standins", []).append(rec)
        for inp in self.mod.bounded_inputs(unit.name, rng):
            n += 1
            if n > budget:
                break
            if hasattr(self.mod, "in_carve_out") and self.mod.in_carve_out(unit.name, inp):
                continue      # a recorded known finding, not a new violation
            try:
                out = self.mod.replay(unit.name, inp, "")
            except Exception:
                # an error of the harness decides nothing, but it must not go unnoticed
                err = traceback.format_exc().strip().splitlines()
                rec.setdefault("harness_errors", []).append(" | ".join(err[-3:])[:400])
                print(f"NOTE: bounded stand-in of {unit.name}: harness error on input {n}: {err[-1][:200]}")
                self.harness_errors = getattr(self, "harness_errors", 0) + 1
                continue
            rec["cases"] = n
            if out.get("failed"):
                replay_dir = HERE / "replays"
                replay_dir.mkdir(exist_ok=True)
                fn = replay_dir / f"{self.pid}-{_slug(unit.name)}-bounded.json"
                fn.write_text(json.dumps({
                    "property": self.pid, "unit": unit.name, "file": unit.path,
                    "obligation": "postcondition of " + unit.name + " (function left the accepted "
                    "subset: " + reason + "; failing input found by the bounded stand-in)",
                    "model_inputs": inp, "model_kind": "bounded enumeration", "replay": out},
                    indent=1, default=str))
                print(f"  failed contract: {unit.name} (bounded stand-in)")
                print(f"  replay: {out.get('detail', '')[:300]}")
                self.violations.append(f"VIOLATION property={self.pid} replay={fn.relative_to(HERE)}")
                return True
        return False

    def inputs_for(self, unit, ob):
        """re-run the setup of the unit to get the input terms (deterministic names)"""
        ctx = engine.Ctx(engine.Engine(), unit, [])
        unit.setup(ctx)
        return ctx.inputs

    # ------------------------------------------------------------------
    def known_findings(self):
        # fixed defects: the stored witness must pass on the current tree
        for k in load_known():
            if k["property"] == self.pid and k["kind"] == "fixed" and k.get("script"):
                # a repaired review finding: its demonstration must pass on the current tree
                ok, detail = run_review_script(k["script"])
                self.extra.setdefault("fixed_witnesses_replayed", []).append({"id": k["id"], "passes_now": ok is False})
                if ok:
                    replay_dir = HERE / "replays"
                    replay_dir.mkdir(exist_ok=True)
                    fn = replay_dir / f"{self.pid}-regression-{k['id']}.json"
                    fn.write_text(json.dumps({"property": self.pid, "script": k["script"], "replay": {"failed": True, "detail": detail},
                                              "note": "demonstration of a defect recorded as fixed fails again"}, indent=1))
                    print(f"  fixed defect {k['id']} has returned: {detail[:300]}")
                    self.violations.append(f"VIOLATION property={self.pid} replay={fn.relative_to(HERE)}")
                continue
            if k["property"] == self.pid and k["kind"] == "fixed" and k.get("witness") is not None \
                    and hasattr(self.mod, "replay"):
                w = _denan(k["witness"])
                try:
                    out = self.mod.replay(k["unit"], w, k.get("obligation", ""))
                except Exception:
                    continue
                self.extra.setdefault("fixed_witnesses_replayed", []).append(
                    {"id": k["id"], "passes_now": not out.get("failed")})
                if out.get("failed"):
                    replay_dir = HERE / "replays"
                    replay_dir.mkdir(exist_ok=True)
                    fn = replay_dir / f"{self.pid}-regression-{k['id']}.json"
                    fn.write_text(json.dumps({"property": self.pid, "unit": k["unit"],
                                              "obligation": k.get("obligation"), "model_inputs": w,
                                              "replay": out, "note": "witness of a defect recorded as fixed fails again"},
                                             indent=1, default=str))
                    print(f"  fixed defect {k['id']} has returned: {out.get('detail', '')[:300]}")
                    self.violations.append(f"VIOLATION property={self.pid} replay={fn.relative_to(HERE)}")
        for k in active_findings(self.pid):
            k["witness"] = _denan(k.get("witness"))
            ok = None
            detail = ""
            if k.get("script"):
                # a finding of the code review (a defect of dclab outside what the contracts of this property
                # decide): its demonstration script is run on the current tree on every check
                ok, detail = run_review_script(k["script"])
            elif hasattr(self.mod, "replay") and k.get("witness") is not None:
                try:
                    out = self.mod.replay(k["unit"], k["witness"], k.get("obligation", ""))
                    ok = bool(out.get("failed"))
                    detail = out.get("detail", "")
                except Exception:
                    detail = traceback.format_exc()[-300:]
            k["_reproduces"] = ok
            k["_detail"] = detail[:300]
            if ok is False:
                print(f"NOTE: known finding {k['id']} no longer reproduces on this tree "
                      f"(carve-out still applied): {detail[:200]}")
            else:
                print(f"KNOWN-FINDING: property={self.pid} {k['id']}: {k['what_fails']}")
            self.known_lines.append(k)

    # ------------------------------------------------------------------
    def evidence(self, status):
        mod = self.mod
        trusted = list(getattr(mod, "TRUSTED_BASE", []))
        trusted += sorted("axiom " + a for a in models.AXIOMS_USED)
        for t in getattr(mod, "TRUSTED", []):
            trusted.append(f"assumed contract (not verified): {t.name} -- {(t.__doc__ or '').strip().splitlines()[0] if t.__doc__ else ''}")
        cov = {
            "obligations": self.n_ob,
            "discharged": self.n_dis,
            "checker_cmd": f"./check {self.pid} --tier {self.tier}",
            "trusted_base": trusted,
            "functions_under_contract": self.units,
            "by_backend": self.by_backend,
            "solver_time_s": round(self.solver_time, 2),
            "samples": self.samples or [{"note": "no obligations"}],
            "unsupported": [{"function": u.name, "reason": r} for u, r in self.unsupported],
            "undecided": self.undecided,
            "known_findings": [{k2: v for k2, v in k.items() if not k2.startswith("_")} |
                               {"reproduces_now": k.get("_reproduces")} for k in self.known_lines],
            "status": status,
        }
        cov.update(self.extra)
        ev = {"property_id": self.pid, "tier": self.tier, "seed": self.seed,
              "level": getattr(mod, "LEVEL", "proof"),
              "coverage": cov,
              "assumptions": list(getattr(mod, "ASSUMPTIONS", [])),
              "wall_s": round(time.time() - self.t0, 2),
              "violations": len(self.violations)}
        if self.n_ob == 0:
            # nothing could be generated (e.g. every function left the accepted subset):
            # not a proof-level run
            ev["level"] = "other"
            cov["explanation"] = ("no obligation could be generated on this tree: " +
                                  "; ".join(self.undecided)[:600])
        out = HERE / "evidence" / f"{self.pid}.json"
        out.parent.mkdir(exist_ok=True)
        try:
            import jsonschema
            schema = json.loads(pathlib.Path("/root/.vp/EVIDENCE.schema.json").read_text())
            jsonschema.validate(ev, schema)
        except FileNotFoundError:
            pass
        out.write_text(json.dumps(ev, indent=1, default=str))

    # ------------------------------------------------------------------
    def main(self):
        source.reset()
        self.run_units()
        self.run_lemmas()
        # property-specific extra layers (frames, lemmas, bounded stand-ins, audits)
        if hasattr(self.mod, "extra_checks"):
            self.mod.extra_checks(self)
        self.known_findings()
        # functions that fell out of the subset: bounded stand-in decides
        for unit, reason in self.unsupported:
            print(f"  not verified (outside the accepted subset): {unit.name}: {reason}")
            errs = getattr(self, "harness_errors", 0)
            found = self.bounded_standin(unit, reason)
            if not found and getattr(self, "harness_errors", 0) > errs:
                self.undecided.append(f"{unit.name}: the bounded stand-in could not run "
                                      f"({getattr(self, 'harness_errors', 0) - errs} harness error(s))")
                continue
            if not found and getattr(unit, "bounded_by_design", False):
                # declared in the contract module and in DESIGN.md: this function is outside
                # the reach of the verifier; the bounded stand-in is its (labelled) check
                continue
            if not found:
                self.undecided.append(f"{unit.name}: left the accepted subset ({reason}); "
                                      f"bounded stand-in found no failing input")
        if self.violations:
            status = "violation"
            code = 1
        elif self.undecided:
            status = "undecided"
            code = 2
        else:
            status = "held"
            code = 0
        self.evidence(status)
        for u in self.undecided:
            print("UNDECIDED:", u)
        for v in self.violations:
            print(v)
        print(f"{self.pid}: {status}; {self.n_dis}/{self.n_ob} obligations discharged over "
              f"{len(self.units)} functions, solver time {self.solver_time:.1f}s, "
              f"wall {time.time() - self.t0:.1f}s")
        solve.close_pool()
        return code


def _parse_smt_value(v):
    v = v.strip()
    if v.startswith('"') and v.endswith('"'):
        return v[1:-1]
    if v in ("true", "false"):
        return v == "true"
    try:
        return int(v)
    except ValueError:
        pass
    import re
    m = re.fullmatch(r"\(/\s*(-?\d+)\s+(\d+)\)", v)
    if m:
        return int(m.group(1)) / int(m.group(2))
    try:
        return float(v)
    except ValueError:
        return v


def _denan(w):
    if isinstance(w, dict):
        return {k: _denan(v) for k, v in w.items()}
    if isinstance(w, list):
        return [_denan(v) for v in w]
    if w == "nan":
        return float("nan")
    return w


def _slug(s):
    return "".join(c if c.isalnum() else "_" for c in s)[:60]


def main(argv=None):
    ap = argparse.ArgumentParser()
    ap.add_argument("pid")
    ap.add_argument("--tier", default=os.environ.get("VERIF_TIER", "quick"))
    ap.add_argument("--replay")
    a = ap.parse_args(argv)
    seed = int(os.environ.get("VERIF_SEED", "0"))
    if a.replay:
        doc = json.loads(pathlib.Path(a.replay).read_text())
        mod = importlib.import_module(f"contracts.{a.pid}")
        out = mod.replay(doc["unit"], doc["model_inputs"], doc.get("obligation", ""))
        print(json.dumps(out, indent=1, default=str))
        return 1 if out.get("failed") else 0
    try:
        return Run(a.pid, a.tier, seed).main()
    except Exception:
        traceback.print_exc()
        solve.close_pool()
        return 3


if __name__ == "__main__":
    sys.exit(main())
