"""Frame analyser (solver-free part of the contract family): facts about which
code may write which location, computed from the AST of the working tree."""
from __future__ import annotations

import ast
import pathlib

from . import source


def py_files(subdir="dclab"):
    root = source.REPO / subdir
    return sorted(p for p in root.rglob("*.py"))


def attribute_stores(attr, subdir="dclab"):
    """every place where `<expr>.attr` is assigned, a class body assigns `attr`,
    or setattr(..., "attr", ...) is called: list of dicts"""
    out = []
    for p in py_files(subdir):
        try:
            tree = ast.parse(p.read_text())
        except SyntaxError:
            continue
        rel = str(p.relative_to(source.REPO))

        class V(ast.NodeVisitor):
            def __init__(self):
                self.stack = []

            def visit_ClassDef(self, node):
                self.stack.append(node.name)
                for st in node.body:
                    targets = []
                    if isinstance(st, ast.Assign):
                        targets = st.targets
                        val = st.value
                    elif isinstance(st, ast.AnnAssign) and st.value is not None:
                        targets = [st.target]
                        val = st.value
                    for t in targets:
                        if isinstance(t, ast.Name) and t.id == attr:
                            out.append({"file": rel, "line": st.lineno, "where": ".".join(self.stack),
                                        "kind": "class attribute", "rhs": val})
                self.generic_visit(node)
                self.stack.pop()

            def visit_FunctionDef(self, node):
                self.stack.append(node.name)
                self.generic_visit(node)
                self.stack.pop()

            visit_AsyncFunctionDef = visit_FunctionDef

            def _store(self, t, val, node):
                if isinstance(t, ast.Attribute) and t.attr == attr:
                    out.append({"file": rel, "line": node.lineno, "where": ".".join(self.stack),
                                "kind": "attribute store", "rhs": val, "target": ast.unparse(t)})
                elif isinstance(t, (ast.Tuple, ast.List)):
                    for e in t.elts:
                        self._store(e, None, node)

            def visit_Assign(self, node):
                for t in node.targets:
                    self._store(t, node.value, node)
                self.generic_visit(node)

            def visit_AugAssign(self, node):
                self._store(node.target, None, node)
                self.generic_visit(node)

            def visit_AnnAssign(self, node):
                self._store(node.target, node.value, node)
                self.generic_visit(node)

            def visit_Call(self, node):
                if isinstance(node.func, ast.Name) and node.func.id in ("setattr", "delattr") \
                        and len(node.args) >= 2:
                    a1 = node.args[1]
                    if not isinstance(a1, ast.Constant) or a1.value == attr:
                        if not isinstance(a1, ast.Constant):
                            kind = "setattr with a computed name"
                        else:
                            kind = "setattr"
                        out.append({"file": rel, "line": node.lineno, "where": ".".join(self.stack),
                                    "kind": kind, "rhs": node.args[2] if len(node.args) > 2 else None})
                self.generic_visit(node)
        V().visit(tree)
    return out
