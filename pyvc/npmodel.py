"""numpy models (N-* axioms of DESIGN.md §6) on symbolic 1-D arrays.

Specification functions used by contracts (ghost):
  nancnt(A, n)  number of non-NaN entries among A[0..n)
  nansum(A, n)  sum of the non-NaN entries among A[0..n)
  is_nanmin(r, A, n) / is_nanmax(r, A, n)  r is the NaN-ignoring minimum/maximum
nancnt/nansum are uninterpreted functions constrained by their recursive
definition (unrolled for the first entries at each use) and by the
concatenation lemma, which is emitted where the code builds a concatenation
and is itself proved by induction in lemmas.py (N-SUM-CONCAT).
"""
from __future__ import annotations

import numpy as np
import z3

from . import models
from .models import model, axiom, arr_new, arr_map, where_idx, forall_idx
from .sym import (SArr, SBool, SF, SInt, SObj, SReal, Sym, F, Z, is_sym, kind_of,
                  to_z3, wrap, exists_idx)


def _eng():
    from . import engine
    return engine


class Summary:
    """ghost summary of the first n entries of an array value:
    cnt = number of non-NaN entries, sum = their sum, mn/mx = NaN-ignoring
    extrema (NaN iff cnt == 0).  For integer arrays cnt == n."""
    __slots__ = ("cnt", "sum", "mn", "mx")

    def __init__(self, cnt, sum_, mn, mx):
        self.cnt, self.sum, self.mn, self.mx = cnt, sum_, mn, mx


def fmin(x, y):
    """NaN-ignoring minimum of two F values (NaN only if both are NaN)"""
    return z3.If(z3.Not(F.is_fin(x)), y, z3.If(z3.Not(F.is_fin(y)), x,
                                               z3.If(F.val(y) < F.val(x), y, x)))


def fmax(x, y):
    return z3.If(z3.Not(F.is_fin(x)), y, z3.If(z3.Not(F.is_fin(y)), x,
                                               z3.If(F.val(y) > F.val(x), y, x)))


def fterm(x):
    """contribution of one F entry to (count, sum)"""
    return (z3.If(F.is_fin(x), Z(1), Z(0)),
            z3.If(F.is_fin(x), F.val(x), z3.RealVal(0)))


def elemF(arr, k):
    e = arr.sel(k)
    if arr.kind == "F":
        return e
    if arr.kind == "int":
        return F.fin(z3.ToReal(e))
    if arr.kind == "real":
        return F.fin(e)
    raise _eng().Unsupported("summary of kind " + arr.kind)


_summaries = {}


def summary(ctx, arr, n=None):
    """the ghost Summary of arr[0:n] (n defaults to len(arr)).

    The summary functions are *defined* by recursion over the entries
    (cnt/sum/min/max of the empty prefix, then one entry at a time); here they
    are ghost constants attached to the array value, constrained by
      * the explicit value for arrays of concrete length <= 4,
      * range facts (0 <= cnt <= n; extrema NaN iff cnt == 0),
      * the concatenation lemma where the code builds a concatenation
        (note_slice_write; lemma N-SUM-CONCAT proved by induction in lemmas.py).
    """
    n = arr.n if n is None else to_z3(n)
    n = z3.simplify(n)
    store = ctx.__dict__.setdefault("_summaries", {})
    key = (arr.a.get_id() if arr.base is None else ("view", arr.uid), n.get_id())
    if key in store:
        return store[key]
    if z3.is_int_value(n) and n.as_long() <= 4:
        cnt, sm, mn, mx = Z(0), z3.RealVal(0), F.nan, F.nan
        for j in range(n.as_long()):
            x = elemF(arr, Z(j))
            c, t = fterm(x)
            cnt, sm, mn, mx = cnt + c, sm + t, fmin(mn, x), fmax(mx, x)
        s = Summary(cnt, sm, mn, mx)
    else:
        nm = ctx._name("S")
        s = Summary(z3.Int(nm + ".cnt"), z3.Real(nm + ".sum"),
                    z3.Const(nm + ".min", F), z3.Const(nm + ".max", F))
        ctx.assume(z3.And(s.cnt >= 0, s.cnt <= z3.If(n >= 0, n, Z(0))))
        ctx.assume(F.is_nan(s.mn) == (s.cnt == 0))
        ctx.assume(F.is_nan(s.mx) == (s.cnt == 0))
        ctx.assume(z3.Or(F.is_nan(s.mn), F.is_fin(s.mn)))
        ctx.assume(z3.Or(F.is_nan(s.mx), F.is_fin(s.mx)))
        ctx.assume(z3.Implies(s.cnt > 0, F.val(s.mn) <= F.val(s.mx)))
        ctx.assume(z3.Implies(s.cnt == 0, s.sum == 0))
        if arr.kind in ("int", "real"):
            ctx.assume(s.cnt == z3.If(n >= 0, n, Z(0)))
        # the definition, unrolled for short arrays (keeps counterexamples genuine)
        cnt, sm, mn, mx = Z(0), z3.RealVal(0), F.nan, F.nan
        for j in range(0, 4):
            ctx.assume(z3.Implies(n == j, z3.And(s.cnt == cnt, s.sum == sm, s.mn == mn, s.mx == mx)))
            x = elemF(arr, Z(j))
            c, t = fterm(x)
            cnt, sm, mn, mx = cnt + c, sm + t, fmin(mn, x), fmax(mx, x)
    store[key] = s
    return s


def summary_facts(ctx, arr, unroll=3):
    summary(ctx, arr)


def note_slice_write(interp, content, old, a, b, val):
    """content = old[0:a] ++ val when b == len(content): the summaries of the new
    content split at a (lemma N-SUM-CONCAT, proved by induction in lemmas.py)"""
    ctx = interp.ctx
    if not isinstance(val, SArr):
        return
    if content.kind not in ("F", "int", "real") or val.kind not in ("F", "int", "real"):
        return
    axiom("N-SUM-CONCAT (lemma, proved by induction in pyvc/lemmas.py)")
    new = content
    cond = z3.And(b == new.n, val.n == b - a, a >= 0, a <= old.n)
    sn, so, sv = summary(ctx, new), summary(ctx, old, a), summary(ctx, val)
    ctx.assume(z3.Implies(cond, z3.And(sn.cnt == so.cnt + sv.cnt,
                                       sn.sum == so.sum + sv.sum,
                                       sn.mn == fmin(so.mn, sv.mn),
                                       sn.mx == fmax(so.mx, sv.mx))))
    # entries below a are untouched by the write
    sp_new, sp_old = summary(ctx, new, a), so
    if sp_new is not sp_old:
        ctx.assume(z3.And(sp_new.cnt == sp_old.cnt, sp_new.sum == sp_old.sum,
                          sp_new.mn == sp_old.mn, sp_new.mx == sp_old.mx))
    # the prefix summary at a == len(old) is the summary of old
    sfull = summary(ctx, old)
    if sfull is not so:
        ctx.assume(z3.Implies(a == old.n, z3.And(so.cnt == sfull.cnt, so.sum == sfull.sum,
                                                 so.mn == sfull.mn, so.mx == sfull.mx)))


def link_prefix(ctx, new, old, n):
    """new[k] == old[k] for k < n  =>  equal summaries at n (lemma N-SUM-PREFIX)"""
    if new.kind not in ("F", "int", "real"):
        return
    axiom("N-SUM-PREFIX (lemma, proved by induction in pyvc/lemmas.py)")
    a, b = summary(ctx, new, n), summary(ctx, old, n)
    if a is not b:
        ctx.assume(z3.And(a.cnt == b.cnt, a.sum == b.sum, a.mn == b.mn, a.mx == b.mx))


# predicates --------------------------------------------------------------------
def is_nanmin(ctx, r, arr):
    return r == summary(ctx, arr).mn


def is_nanmax(ctx, r, arr):
    return r == summary(ctx, arr).mx


def is_nanmean(ctx, r, arr):
    """r is the NaN-ignoring mean of arr (NaN iff no entry counts)"""
    s = summary(ctx, arr)
    return z3.If(s.cnt == 0, F.is_nan(r),
                 z3.And(F.is_fin(r), F.val(r) * z3.ToReal(s.cnt) == s.sum))


# helpers -----------------------------------------------------------------------
def as_arr(interp, x):
    """SArr view of an array-like value"""
    eng = _eng()
    if isinstance(x, SArr):
        return x
    if isinstance(x, SObj):
        if x.clsname == "H5Dataset":
            return x.fields["content"]
        fn = None
        try:
            fn = interp.getattr(x, "__array__", interp.cur_frame)
        except eng.PyRaise:
            pass
        if fn is not None:
            return as_arr(interp, interp.call(fn, [], {}, interp.cur_frame))
    if isinstance(x, (list, tuple)):
        if not x:
            raise eng.Unsupported("empty list as array")
        kinds = {kind_of(v) if not isinstance(v, SF) else "F" for v in x}
        kind = "F" if "F" in kinds else ("real" if "real" in kinds else
                                         ("int" if "int" in kinds else "bool"))
        if kinds - {"F", "real", "int", "bool"}:
            raise eng.Unsupported(f"list of {kinds} as array")
        a = z3.K(z3.IntSort(), to_z3(x[0], kind) if kind != "F" else _toF(x[0]))
        for i, v in enumerate(x):
            a = z3.Store(a, Z(i), _toF(v) if kind == "F" else to_z3(v, kind))
        r = SArr(Z(len(x)), a, kind)
        r.birth = interp.ctx.stamp
        return r
    raise eng.Unsupported(f"array view of {type(x).__name__}")


def _toF(v):
    if isinstance(v, SF):
        return v.e
    if isinstance(v, float):
        return to_z3(v, "F")
    e = to_z3(v, "real")
    return F.fin(e)


def _all_concrete(*xs):
    return not any(_eng()._has_sym(x) for x in xs)


# models ------------------------------------------------------------------------
@model(np.isnan)
def _isnan(interp, x):
    if _all_concrete(x):
        return np.isnan(x)
    if isinstance(x, SF):
        return wrap(F.is_nan(x.e))
    if isinstance(x, (SReal, SInt)):
        return False
    a = as_arr(interp, x)
    if a.kind == "F":
        r = arr_map(interp, a, lambda e: F.is_nan(e), "bool")
    else:
        r = arr_map(interp, a, lambda e: z3.BoolVal(False), "bool")
    r.isnan_of = SArr(a.n, a.a, a.kind)     # value snapshot (for np.sum)
    if a.base is None:
        r.isnan_of = a if True else None
        r.isnan_key = (a.a.get_id(), z3.simplify(a.n).get_id())
        r.isnan_arr_n = (a.a, a.n, a.kind)
    return r


@model(np.isinf)
def _isinf(interp, x):
    if _all_concrete(x):
        return np.isinf(x)
    if isinstance(x, SF):
        return wrap(z3.Or(F.is_pinf(x.e), F.is_ninf(x.e)))
    if isinstance(x, (SReal, SInt)):
        return False
    a = as_arr(interp, x)
    if a.kind == "F":
        return arr_map(interp, a, lambda e: z3.Or(F.is_pinf(e), F.is_ninf(e)), "bool")
    return arr_map(interp, a, lambda e: z3.BoolVal(False), "bool")


def _nanext(interp, x, ismin):
    eng = _eng()
    ctx = interp.ctx
    if _all_concrete(x):
        return (np.nanmin if ismin else np.nanmax)(x)
    a = as_arr(interp, x)
    axiom("N-NANMIN/NANMAX")
    if not ctx.decide(wrap(a.n > 0)):
        raise eng.PyRaise(ValueError, ("zero-size array to reduction operation",))
    s = summary(ctx, a)
    r = s.mn if ismin else s.mx
    if a.kind == "int":
        # integer arrays: the extremum is an integer entry
        i = ctx.int("iext")
        ctx.assume(r == F.fin(z3.ToReal(i.e)))
        return i
    return SF(r)


@model(np.nanmin)
def _nanmin(interp, x, *a, **k):
    return _nanext(interp, x, True)


@model(np.nanmax)
def _nanmax(interp, x, *a, **k):
    return _nanext(interp, x, False)


@model(np.nanmean)
def _nanmean(interp, x, *a, **k):
    ctx = interp.ctx
    if _all_concrete(x):
        return np.nanmean(x)
    arr = as_arr(interp, x)
    axiom("N-NANMEAN")
    r = ctx.const("nanmean", F)
    ctx.assume(is_nanmean(ctx, r, arr))
    return SF(r)


@model(np.asarray, np.array, np.ascontiguousarray)
def _asarray(interp, x, dtype=None, copy=None, **kw):
    eng = _eng()
    if isinstance(x, list) and x and all(isinstance(r, SArr) for r in x):
        return models.Arr2D(list(x))          # a table built from equally long columns
    if _all_concrete(x, dtype):
        return np.array(x, dtype=dtype, **kw) if copy is None else np.array(x, dtype=dtype, copy=copy, **kw)
    if isinstance(x, SOpaque):
        if dtype is None:
            return x
        src = dtype_name(getattr(x, "dtype", None) or "stored")
        axiom("N-ELEMWISE (astype/asarray act on each event payload separately)")
        r = SOpaque(elem_fn(f"cast_{src}_to_{dtype_name(dtype)}")(x.e))
        return r
    a = as_arr(interp, x)
    kind = a.kind
    if a.kind == "elem":
        if dtype is None:
            return a
        return cast_elem_arr(interp, a, dtype)
    if dtype is not None:
        kind = _cast_kind(a, dtype)
    # np.array copies by default; np.asarray / copy=False returns the same object
    # when no conversion is needed -- model both as the object itself when the
    # kind is unchanged and a copy is not requested
    if kind == a.kind:
        if copy is True or (copy is None and False):
            r = SArr(a.n, a.a, a.kind, dtype=a.dtype)
            r.item_shape = getattr(a, "item_shape", ())
            r.birth = interp.ctx.stamp
            return r
        return a
    return cast_arr(interp, a, kind, dtype)


def _cast_kind(a, dtype):
    if dtype is bool or dtype is np.bool_:
        return "bool"
    try:
        dt = np.dtype(dtype)
    except TypeError:
        return a.kind
    if dt.kind == "b":
        return "bool"
    if dt.kind in "iu":
        return "int"
    if dt.kind == "f":
        return "F" if a.kind == "F" else "real"
    return a.kind


from .sym import Elem, SOpaque   # noqa: E402

_elem_fns = {}


def elem_fn(name):
    """uninterpreted elementwise function on opaque event payloads"""
    if name not in _elem_fns:
        _elem_fns[name] = z3.Function(name, Elem, Elem)
    return _elem_fns[name]


def dtype_name(dt):
    try:
        return np.dtype(dt).name
    except TypeError:
        return str(dt)


def cast_elem_arr(interp, a, dtype):
    src, dst = dtype_name(a.dtype) if a.dtype is not None else "unknown", dtype_name(dtype)
    if src == dst:
        return a
    axiom("N-ELEMWISE (astype/asarray act on each event payload separately)")
    fn = elem_fn(f"cast_{src}_to_{dst}")
    r = arr_map(interp, a, lambda e: fn(e), "elem")
    r.dtype = np.dtype(dtype)
    r.item_shape = getattr(a, "item_shape", ())
    return r


def cast_arr(interp, a, kind, dtype=None):
    eng = _eng()
    if a.kind == kind:
        return a
    if a.kind == "bool" and kind == "int":
        return arr_map(interp, a, lambda e: z3.If(e, Z(1), Z(0)), "int")
    if a.kind == "int" and kind == "bool":
        return arr_map(interp, a, lambda e: e != 0, "bool")
    if a.kind == "int" and kind == "real":
        return arr_map(interp, a, lambda e: z3.ToReal(e), "real")
    if a.kind == "int" and kind == "F":
        return arr_map(interp, a, lambda e: F.fin(z3.ToReal(e)), "F")
    if a.kind == "real" and kind == "F":
        return arr_map(interp, a, lambda e: F.fin(e), "F")
    raise eng.Unsupported(f"array cast {a.kind} -> {kind}")


@model(np.arange)
def _arange(interp, *args, **kw):
    eng = _eng()
    if _all_concrete(args, kw):
        return np.arange(*args, **kw)
    if len(args) == 1:
        lo, hi = 0, args[0]
    elif len(args) == 2:
        lo, hi = args
    else:
        raise eng.Unsupported("arange with step")
    lo_e, hi_e = to_z3(lo), to_z3(hi)
    n = z3.If(hi_e > lo_e, hi_e - lo_e, Z(0))
    axiom("N-ARANGE")
    return arr_new(interp, z3.simplify(n), lambda k: k + lo_e, "int")


def _full(interp, shape, val, kind):
    eng = _eng()
    item_shape = ()
    if isinstance(shape, tuple):
        if len(shape) != 1:
            # n-d array: a stack of opaque event payloads, all equal to the fill payload
            item_shape = tuple(shape[1:])
            fill = elem_fn(f"filled_{kind}")(z3.Const("fill!payload", Elem))
            r = arr_new(interp, to_z3(shape[0]), lambda k: fill, "elem")
            r.item_shape = item_shape
            return r
        shape = shape[0]
    return arr_new(interp, to_z3(shape), lambda k: val, kind)


def _kind_val(dtype, one, like=None):
    if dtype is bool or dtype is np.bool_:
        return "bool", z3.BoolVal(bool(one))
    dt = np.dtype(dtype if dtype is not None else float)
    if dt.kind == "b":
        return "bool", z3.BoolVal(bool(one))
    if dt.kind in "iu":
        return "int", Z(one)
    if like is not None and like.kind == "F":
        return "F", F.fin(z3.RealVal(one))     # float array that may later hold NaN
    return "real", z3.RealVal(one)


@model(np.zeros)
def _zeros(interp, shape, dtype=float, **kw):
    sym_arrays = getattr(getattr(interp.cur_frame, "unit", None), "symbolic_arrays", False)
    if _all_concrete(shape) and not (sym_arrays and isinstance(shape, int)):
        return np.zeros(shape, dtype=dtype, **kw)
    k, v = _kind_val(dtype, 0)
    return _full(interp, shape, v, k)


@model(np.ones)
def _ones(interp, shape, dtype=float, **kw):
    if _all_concrete(shape):
        return np.ones(shape, dtype=dtype, **kw)
    k, v = _kind_val(dtype, 1)
    return _full(interp, shape, v, k)


@model(np.zeros_like)
def _zeros_like(interp, a, dtype=None, **kw):
    if _all_concrete(a):
        return np.zeros_like(a, dtype=dtype, **kw)
    arr = as_arr(interp, a)
    k, v = _kind_val(dtype, 0, arr) if dtype is not None else (arr.kind, to_z3(0, arr.kind) if arr.kind != "F" else F.fin(z3.RealVal(0)))
    return _full(interp, arr.n, v, k)


@model(np.ones_like)
def _ones_like(interp, a, dtype=None, **kw):
    if _all_concrete(a):
        return np.ones_like(a, dtype=dtype, **kw)
    arr = as_arr(interp, a)
    k, v = _kind_val(dtype, 1, arr) if dtype is not None else (arr.kind, to_z3(1, arr.kind) if arr.kind != "F" else F.fin(z3.RealVal(1)))
    return _full(interp, arr.n, v, k)


@model(np.where)
def _where(interp, cond, *rest):
    eng = _eng()
    if _all_concrete(cond, rest):
        return np.where(cond, *rest)
    if rest:
        raise eng.Unsupported("3-argument np.where")
    m = as_arr(interp, cond)
    if m.kind != "bool":
        m = cast_arr(interp, m, "bool")
    return (where_idx(interp, m),)


count_true = z3.Function("count_true", z3.ArraySort(z3.IntSort(), z3.BoolSort()),
                         z3.IntSort(), z3.IntSort())


@model(np.sum)
def _sum(interp, x, *a, **k):
    eng = _eng()
    if _all_concrete(x):
        return np.sum(x, *a, **k)
    arr = as_arr(interp, x)
    if arr.kind == "bool":
        if getattr(arr, "isnan_arr_n", None) is not None and arr.base is None:
            # np.sum(np.isnan(x)) == len(x) - (number of non-NaN entries of x)
            A, n, kind = arr.isnan_arr_n
            src = SArr(n, A, kind)
            axiom("N-COUNT-NAN")
            return wrap(n - summary(interp.ctx, src).cnt)
        # number of true entries == length of the where-enumeration (N-WHERE)
        idx = where_idx(interp, arr)
        return wrap(idx.n)
    raise eng.Unsupported("np.sum of kind " + arr.kind)


@model(np.isin)
def _isin(interp, elements, test, **kw):
    eng = _eng()
    if _all_concrete(elements, test):
        return np.isin(elements, test, **kw)
    e = as_arr(interp, elements)
    t = as_arr(interp, test)
    axiom("N-ISIN")
    j = z3.Int("j!isin")
    return arr_new(interp, e.n,
                   lambda k: z3.Exists([j], z3.And(j >= 0, j < t.n, t.sel(j) == e.sel(k))), "bool")


@model(np.atleast_1d)
def _atleast_1d(interp, x):
    if _all_concrete(x):
        return np.atleast_1d(x)
    if isinstance(x, SArr):
        return x
    return as_arr(interp, [x])


@model(np.abs, np.absolute)
def _npabs(interp, x):
    if _all_concrete(x):
        return np.abs(x)
    if isinstance(x, (SInt, SReal)):
        return wrap(z3.If(x.e < 0, -x.e, x.e))
    a = as_arr(interp, x)
    return arr_map(interp, a, lambda e: z3.If(e < 0, -e, e), a.kind)


# array methods -------------------------------------------------------------------
@models.arr_method("min")
def _m_min(interp, a, *args, **kw):
    return _nanext_plain(interp, a, True)


@models.arr_method("max")
def _m_max(interp, a, *args, **kw):
    return _nanext_plain(interp, a, False)


def _nanext_plain(interp, a, ismin):
    """ndarray.min/max: NaN propagates"""
    eng = _eng()
    ctx = interp.ctx
    if not ctx.decide(wrap(a.n > 0)):
        raise eng.PyRaise(ValueError, ("zero-size array to reduction operation",))
    s = summary(ctx, a)
    if a.kind == "F":
        r = s.mn if ismin else s.mx
        return SF(z3.If(s.cnt == a.n, r, F.nan))
    if a.kind == "int":
        i = ctx.int("iext")
        ctx.assume((s.mn if ismin else s.mx) == F.fin(z3.ToReal(i.e)))
        return i
    raise eng.Unsupported("min/max of kind " + a.kind)


@models.arr_method("mean")
def _m_mean(interp, a, *args, **kw):
    """ndarray.mean: NaN propagates"""
    ctx = interp.ctx
    s = summary(ctx, a)
    r = ctx.const("amean", F)
    ctx.assume(z3.If(s.cnt == a.n, is_nanmean(ctx, r, a), F.is_nan(r)))
    return SF(r)


@models.arr_method("astype")
def _m_astype(interp, a, dtype, **kw):
    return cast_arr(interp, a, _cast_kind(a, dtype), dtype)


@models.arr_method("reshape")
def _m_reshape(interp, a, *shape):
    if shape in ((-1,), ((-1,),)) and not getattr(a, "item_shape", ()):
        return a
    raise _eng().Unsupported("reshape of a symbolic array")


@models.arr_method("view")
def _m_view(interp, a, *args):
    if args and args[0] in (np.uint8, "uint8") and not getattr(a, "item_shape", ()):
        b = models.BytesOf(SArr(a.n, a.a, a.kind, dtype=a.dtype))
        b.arr.uid_src = getattr(a, "uid_src", a.uid)
        return b
    if not args:
        v = SArr(a.n, None, a.kind, dtype=a.dtype, base=a, off=Z(0), writeable=a.writeable)
        v.birth = a.birth
        return v
    raise _eng().Unsupported("view with dtype")


@models.arr_method("__array__")
def _m_array(interp, a, dtype=None, copy=None):
    return a


@models.arr_method("sum")
def _m_sum(interp, a, *args, **kw):
    return _sum(interp, a)


@models.arr_method("tolist")
def _m_tolist(interp, a):
    r = SArr(a.n, a.a, a.kind)
    r.is_list = True
    r.birth = interp.ctx.stamp
    for extra in ("from_set", "concat_of"):
        if getattr(a, extra, None) is not None:
            setattr(r, extra, getattr(a, extra))
    return r


@model(np.prod)
def _prod(interp, x, *a, **k):
    eng = _eng()
    if _all_concrete(x):
        return np.prod(x, *a, **k)
    p = interp.iter_plan(x)
    if p[0] != "concrete":
        raise eng.Unsupported("np.prod of symbolic-length sequence")
    r = 1
    for v in p[1]:
        r = models.binop(interp, "Mult", r, v)
    if isinstance(r, SInt):
        r = SInt(r.e, dtype="int64")
    return r


@model(np.floor)
def _floor(interp, x):
    eng = _eng()
    if _all_concrete(x):
        return np.floor(x)
    if isinstance(x, SInt):
        return wrap(z3.ToReal(x.e))
    if isinstance(x, SReal):
        return wrap(z3.ToReal(z3.ToInt(x.e)))      # z3 ToInt is floor
    raise eng.Unsupported("np.floor of " + type(x).__name__)


@model(np.ceil)
def _ceil(interp, x):
    eng = _eng()
    if _all_concrete(x):
        return np.ceil(x)
    if isinstance(x, SInt):
        return wrap(z3.ToReal(x.e))
    if isinstance(x, SReal):
        return wrap(z3.ToReal(-z3.ToInt(-x.e)))
    raise eng.Unsupported("np.ceil of " + type(x).__name__)


@model(np.atleast_2d)
def _atleast_2d(interp, x):
    eng = _eng()
    if _all_concrete(x):
        return np.atleast_2d(x)
    if isinstance(x, SArr) and len(getattr(x, "item_shape", ())) >= 1:
        return x
    raise eng.Unsupported("np.atleast_2d of a 1-D symbolic array")


np_all = z3.Function("np_all", Elem, z3.BoolSort())
np_any = z3.Function("np_any", Elem, z3.BoolSort())


@model(np.all)
def _np_all(interp, x, *a, **k):
    eng = _eng()
    if _all_concrete(x):
        return np.all(x, *a, **k)
    if isinstance(x, SOpaque):
        axiom("N-ALL/ANY on one event payload: uninterpreted predicate of the payload")
        return wrap(np_all(x.e))
    if isinstance(x, SArr) and x.kind == "bool":
        return wrap(forall_idx(x.n, lambda kk: x.sel(kk)))
    raise eng.Unsupported("np.all of " + type(x).__name__)


@model(np.any)
def _np_any(interp, x, *a, **k):
    eng = _eng()
    if _all_concrete(x):
        return np.any(x, *a, **k)
    if isinstance(x, SOpaque):
        axiom("N-ALL/ANY on one event payload: uninterpreted predicate of the payload")
        return wrap(np_any(x.e))
    if isinstance(x, SArr) and x.kind == "bool":
        return wrap(exists_idx(x.n, lambda kk: x.sel(kk)))
    raise eng.Unsupported("np.any of " + type(x).__name__)


@model(np.empty)
def _empty(interp, shape, dtype=float, **kw):
    """N-EMPTY: an array of the requested shape with unspecified content"""
    eng = _eng()
    if _all_concrete(shape):
        return np.empty(shape, dtype=dtype, **kw)
    ctx = interp.ctx
    if isinstance(shape, tuple) and len(shape) > 1:
        r = ctx.arr("empty", "elem", n=to_z3(shape[0]), dtype=dtype)
        r.item_shape = tuple(shape[1:])
        return r
    n = shape[0] if isinstance(shape, tuple) else shape
    k, _ = _kind_val(dtype, 0)
    return ctx.arr("empty", k, n=to_z3(n), dtype=dtype)


@model(np.sort)
def _np_sort(interp, x, *a, **k):
    """N-SORT: nondecreasing rearrangement (same length, same set of values)"""
    eng = _eng()
    if _all_concrete(x):
        return np.sort(x, *a, **k)
    arr = as_arr(interp, x)
    if arr.kind not in ("int", "real"):
        raise eng.Unsupported("np.sort of kind " + arr.kind)
    ctx = interp.ctx
    axiom("N-SORT")
    r = ctx.arr("sorted", arr.kind, n=arr.n, dtype=arr.dtype)
    i, j = z3.Int("i!so"), z3.Int("j!so")
    ctx.assume(z3.ForAll([i, j], z3.Implies(z3.And(i >= 0, i < j, j < r.n), r.sel(i) <= r.sel(j))))
    ctx.assume(z3.ForAll([i], z3.Implies(z3.And(i >= 0, i < r.n),
                                         z3.Exists([j], z3.And(j >= 0, j < arr.n, arr.sel(j) == r.sel(i))))))
    ctx.assume(z3.ForAll([j], z3.Implies(z3.And(j >= 0, j < arr.n),
                                         z3.Exists([i], z3.And(i >= 0, i < r.n, r.sel(i) == arr.sel(j))))))
    return r


@model(np.allclose)
def _np_allclose(interp, a, b, rtol=1e-05, atol=1e-08, **kw):
    """N-ALLCLOSE: all |a - b| <= atol + rtol * |b|"""
    eng = _eng()
    if _all_concrete(a, b):
        return np.allclose(a, b, rtol=rtol, atol=atol, **kw)
    x, y = as_arr(interp, a), as_arr(interp, b)
    if x.kind not in ("int", "real") or y.kind not in ("int", "real"):
        raise eng.Unsupported("np.allclose of kinds " + x.kind + "/" + y.kind)
    axiom("N-ALLCLOSE")
    interp.ctx.check(x.n == y.n, "np.allclose operands have equal length", kind="noraise-lib")
    k = z3.Int("k!ac")

    def R(e):
        return z3.ToReal(e) if z3.is_int(e) else e
    ab = lambda t: z3.If(t < 0, -t, t)   # noqa
    return wrap(z3.ForAll([k], z3.Implies(z3.And(k >= 0, k < x.n),
                                          ab(R(x.sel(k)) - R(y.sel(k))) <=
                                          to_z3(float(atol), "real") + to_z3(float(rtol), "real") * ab(R(y.sel(k))))))
