"""Locate the *real* source of the functions under contract.

Every run re-reads the files of /repo's working tree; nothing is cached between
runs.  ``.pyx`` files are converted by cy2py (deletions only, checked).
"""
from __future__ import annotations

import ast
import hashlib
import os
import pathlib

REPO = pathlib.Path(os.environ.get("VERIF_REPO", "/repo"))


class FuncInfo:
    def __init__(self, path, qualname, node, cls=None, text=""):
        self.path = path
        self.qualname = qualname
        self.node = node
        self.cls = cls
        seg = ast.get_source_segment(text, node) or ""
        self.sha256 = hashlib.sha256(seg.encode()).hexdigest()
        self.lines = (node.lineno, node.end_lineno)
        self.decorators = [ast.unparse(d) for d in node.decorator_list]

    @property
    def is_property(self):
        return "property" in self.decorators

    @property
    def is_static(self):
        return "staticmethod" in self.decorators

    @property
    def is_classmethod(self):
        return "classmethod" in self.decorators

    def __repr__(self):
        return f"<FuncInfo {self.path}:{self.qualname}>"


class SourceFile:
    def __init__(self, relpath):
        self.relpath = str(relpath)
        p = REPO / relpath
        raw = p.read_text()
        self.dropped = []
        if self.relpath.endswith(".pyx"):
            from . import cy2py
            raw, self.dropped = cy2py.convert(raw)
        self.text = raw
        self.tree = ast.parse(raw, filename=str(p))
        self.funcs = {}
        self.classes = {}
        self._index(self.tree.body, "", None)

    def _index(self, body, prefix, cls):
        for node in body:
            if isinstance(node, (ast.FunctionDef, ast.AsyncFunctionDef)):
                qn = prefix + node.name
                fi = FuncInfo(self.relpath, qn, node, cls, self.text)
                # a later definition of the same qualname (e.g. property
                # setter) does not replace the getter
                if qn in self.funcs and "setter" in " ".join(fi.decorators):
                    self.funcs[qn + ".setter"] = fi
                else:
                    self.funcs[qn] = fi
                # nested functions: "<outer>.<locals>.<inner>"
                inner = [n for n in ast.walk(node) if n is not node
                         and isinstance(n, (ast.FunctionDef, ast.AsyncFunctionDef))]
                for n in inner:
                    iqn = f"{qn}.<locals>.{n.name}"
                    if iqn not in self.funcs:
                        self.funcs[iqn] = FuncInfo(self.relpath, iqn, n, cls, self.text)
            elif isinstance(node, ast.ClassDef):
                self.classes[prefix + node.name] = node
                self._index(node.body, prefix + node.name + ".", prefix + node.name)

    def get(self, qualname):
        return self.funcs.get(qualname)

    def class_bases(self, clsname):
        node = self.classes.get(clsname)
        if node is None:
            return []
        return [ast.unparse(b) for b in node.bases]


_files = {}


def load(relpath):
    relpath = str(relpath)
    if relpath not in _files:
        _files[relpath] = SourceFile(relpath)
    return _files[relpath]


def reset():
    _files.clear()


def find(relpath, qualname):
    sf = load(relpath)
    fi = sf.get(qualname)
    if fi is None:
        raise KeyError(f"function {qualname} not found in {relpath}")
    return fi
