#!/bin/bash
# Build /verif/.venv offline: python 3.12 (from /venv's interpreter), solver and
# contract wheels from the offline wheelhouse, and a .pth that makes the real
# dclab (editable install of /repo) and its third-party dependencies visible.
set -euo pipefail
cd "$(dirname "$0")"
HERE="$(pwd)"
export PIP_NO_INDEX=1 PIP_DISABLE_PIP_VERSION_CHECK=1
if [ ! -x .venv/bin/python ] || ! .venv/bin/python -c "import z3, jsonschema, dclab" >/dev/null 2>&1; then
    rm -rf .venv
    /venv/bin/python -m venv .venv
    .venv/bin/python -m pip install -q --no-index --find-links /opt/veriftools/wheels \
        z3-solver cvc5 jsonschema crosshair-tool deal icontract >/dev/null
    SP="$(.venv/bin/python -c 'import site; print(site.getsitepackages()[0])')"
    echo "import site; site.addsitedir('/venv/lib/python3.12/site-packages')" > "$SP/zz_repo_deps.pth"
fi
.venv/bin/python -c "import z3, cvc5, jsonschema, numpy, h5py, dclab; print('setup ok: z3', z3.get_version_string(), 'dclab from', dclab.__file__)"
.venv/bin/python -m compileall -q pyvc contracts >/dev/null 2>&1 || true
.venv/bin/python -m pyvc.selftest
