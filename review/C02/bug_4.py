"""An empty hierarchy child (parent filter removes all events) cannot be
exported with filtered=False: Export.hdf5 takes the "no filtering" fast path
and RTDCWriter.write_ndarray raises "Empty data object".  With filtered=True
the very same (empty) selection is exported fine (file with event count 0).
"""
import pathlib
import sys
import tempfile
import warnings

import numpy as np

import dclab
import dclab.rtdc_dataset.writer as w
import dclab.rtdc_dataset.export as e

w.version = e.version = "0.60.0"
warnings.simplefilter("ignore")

tmp = pathlib.Path(tempfile.mkdtemp())
rng = np.random.RandomState(42)
ds = dclab.new_dataset({"deform": rng.rand(10), "area_um": rng.rand(10)})
ds.filter.manual[:] = False
ds.apply_filter()
child = dclab.new_dataset(ds)
assert len(child) == 0

errors = []
for filtered in (True, False):
    path = tmp / f"out_{filtered}.rtdc"
    try:
        child.export.hdf5(path, features=["deform", "area_um"],
                          filtered=filtered)
        with dclab.new_dataset(path) as d2:
            if len(d2) != 0 or d2.config["experiment"]["event count"] != 0:
                errors.append(f"filtered={filtered}: wrong event count")
    except BaseException as exc:
        errors.append(f"filtered={filtered}: {type(exc).__name__}: {exc}")

if errors:
    print("FAIL: export of empty hierarchy child: " + " | ".join(errors))
    sys.exit(1)
print("PASS")
