"""A dataset that gets its "trace" feature from a *mapped* basin cannot be
exported with traces (and no hierarchy child can be created from it).

feat_basin.BasinProxy wraps every basin feature in BasinProxyFeature, which
assumes an array-like feature.  "trace" is a dict-like object of arrays:
BasinProxyFeature has no `keys()` and indexes the trace group with integers.
Export.hdf5 calls `ds["trace"].keys()` -> AttributeError (filtered or not).
"""
import pathlib
import sys
import tempfile
import warnings

import numpy as np

import dclab
import dclab.rtdc_dataset.writer as w
import dclab.rtdc_dataset.export as e

w.version = e.version = "0.60.0"
warnings.simplefilter("ignore")

tmp = pathlib.Path(tempfile.mkdtemp())
rng = np.random.RandomState(42)
NB = 10
meta = {"experiment": {"sample": "test", "run index": 1,
                       "date": "2024-01-01", "time": "12:00:00"},
        "setup": {"channel width": 20.0, "chip region": "channel",
                  "flow rate": 0.04, "medium": "CellCarrier"},
        "fluorescence": {"samples per event": 100}}
traces = {"fl1_raw": rng.randint(-50, 50, size=(NB, 100)).astype(np.int16),
          "fl1_median": rng.randint(-50, 50, size=(NB, 100)).astype(np.int16)}
path_basin = tmp / "basin.rtdc"
with w.RTDCWriter(path_basin) as hw:
    hw.store_metadata(meta)
    hw.store_feature("deform", rng.rand(NB))
    hw.store_feature("trace", traces)

bmap = np.array([7, 2, 2, 5, 9, 0], dtype=np.uint64)
path_map = tmp / "mapped.rtdc"
with w.RTDCWriter(path_map) as hw:
    hw.store_metadata(meta)
    hw.store_feature("area_um", rng.rand(len(bmap)) * 100)
    hw.store_basin(basin_name="b", basin_type="file", basin_format="hdf5",
                   basin_locs=[str(path_basin)], basin_map=bmap)

errors = []
with dclab.new_dataset(path_map) as ds:
    assert "trace" in ds.features_basin
    ds.filter.manual[1] = False
    ds.apply_filter()
    for filtered in (True, False):
        sel = np.where(ds.filter.all)[0] if filtered else np.arange(len(ds))
        path_out = tmp / f"out_{filtered}.rtdc"
        try:
            ds.export.hdf5(path_out, features=["area_um", "trace"],
                           filtered=filtered)
            with dclab.new_dataset(path_out) as d2:
                for key in traces:
                    if not np.array_equal(d2["trace"][key][:],
                                          traces[key][bmap.astype(int)][sel]):
                        errors.append(f"filtered={filtered}: wrong {key}")
        except BaseException as exc:
            errors.append(f"filtered={filtered}: {type(exc).__name__}: {exc}")

if errors:
    print("FAIL: trace export from mapped basin: " + " | ".join(errors))
    sys.exit(1)
print("PASS")
