"""Exported values of fl1_max/fl2_max/fl3_max (and the other features in
writer.FEATURES_UINT32) are silently changed.

RTDCWriter.store_feature forces dtype uint32 for these features, no matter
what the source data look like.  Floating point maxima (as found e.g. in
tests/data/fmt-hdf5_fl_2017.zip: 994.067 -> 994) are truncated, negative
maxima (the traces are int16 and may be negative) become 0 and NaN becomes 0.
The property requires the exported values to be unchanged.
"""
import pathlib
import sys
import tempfile
import warnings

import numpy as np

import dclab
import dclab.rtdc_dataset.writer as w
import dclab.rtdc_dataset.export as e

w.version = e.version = "0.60.0"
warnings.simplefilter("ignore")

tmp = pathlib.Path(tempfile.mkdtemp())
fl1_max = np.array([994.06701332, 997.72458674, -12.0, np.nan, 1002.5, 7.0])
ds = dclab.new_dataset({
    "deform": np.linspace(0.01, 0.1, fl1_max.size),
    "fl1_max": fl1_max,
})
ds.filter.manual[-1] = False
ds.apply_filter()

errors = []
for filtered in (True, False):
    path = tmp / f"out_{filtered}.rtdc"
    ds.export.hdf5(path, features=["deform", "fl1_max"], filtered=filtered)
    expected = fl1_max[ds.filter.all] if filtered else fl1_max
    with dclab.new_dataset(path) as d2:
        got = d2["fl1_max"][:]
        if not np.array_equal(d2["deform"][:],
                              ds["deform"][:len(expected)]):
            errors.append("deform changed?!")
    if not np.array_equal(np.asarray(got, dtype=float), expected,
                          equal_nan=True):
        errors.append(f"filtered={filtered}: source {expected} -> "
                      f"exported {got} ({got.dtype})")

if errors:
    print("FAIL: fl1_max values changed by the export: " + "; ".join(errors))
    sys.exit(1)
print("PASS")
