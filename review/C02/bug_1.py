"""Unfiltered (or all-True filtered) export of a non-scalar feature that a
dataset obtains from a *mapped* basin writes the wrong number of events.

BasinProxyFeature.__getattr__ forwards `shape` to the underlying basin
feature, i.e. it reports the basin's event count instead of len(basinmap).
Export.hdf5 (fast path) -> RTDCWriter.write_ndarray trusts `data.shape` when
creating the HDF5 dataset:
- basin larger than the mapped dataset: the output "image" has as many
  events as the basin (trailing all-zero images; event count wrong)
- basin smaller than the mapped dataset: the export crashes (TypeError)
"""
import pathlib
import sys
import tempfile
import warnings

import h5py
import numpy as np

import dclab
import dclab.rtdc_dataset.writer as w
import dclab.rtdc_dataset.export as e

w.version = e.version = "0.60.0"
warnings.simplefilter("ignore")

tmp = pathlib.Path(tempfile.mkdtemp())
rng = np.random.RandomState(42)
NB = 10
meta = {"experiment": {"sample": "test", "run index": 1,
                       "date": "2024-01-01", "time": "12:00:00"},
        "setup": {"channel width": 20.0, "chip region": "channel",
                  "flow rate": 0.04, "medium": "CellCarrier"},
        "imaging": {"pixel size": 0.34}}

# the basin: 10 events with image data
path_basin = tmp / "basin.rtdc"
images = rng.randint(1, 255, size=(NB, 20, 30)).astype(np.uint8)
with w.RTDCWriter(path_basin) as hw:
    hw.store_metadata(meta)
    hw.store_feature("deform", rng.rand(NB))
    hw.store_feature("image", images)

errors = []
for name, bmap in [("basin larger than dataset", [7, 2, 2, 5, 9, 0]),
                   ("basin smaller than dataset", list(range(NB)) * 2)]:
    bmap = np.array(bmap, dtype=np.uint64)
    path_map = tmp / f"mapped_{len(bmap)}.rtdc"
    with w.RTDCWriter(path_map) as hw:
        hw.store_metadata(meta)
        hw.store_feature("area_um", rng.rand(len(bmap)) * 100)
        hw.store_basin(basin_name="b", basin_type="file",
                       basin_format="hdf5", basin_locs=[str(path_basin)],
                       basin_map=bmap)

    with dclab.new_dataset(path_map) as ds:
        assert len(ds) == len(bmap)
        assert "image" in ds.features_basin
        # what the dataset itself shows (event-wise access is correct)
        expected = np.array([ds["image"][ii] for ii in range(len(ds))])
        assert np.array_equal(expected, images[bmap.astype(int)])
        path_out = tmp / f"out_{len(bmap)}.rtdc"
        try:
            ds.export.hdf5(path_out, features=["area_um", "image"],
                           filtered=False)
        except BaseException as exc:
            errors.append(f"{name}: export raised {type(exc).__name__}: "
                          f"{str(exc)[:80]}")
            continue
    with h5py.File(path_out) as h5:
        out = h5["events/image"][:]
        n_scalar = h5["events/area_um"].shape[0]
    if out.shape != expected.shape or not np.array_equal(out, expected):
        errors.append(f"{name}: exported {out.shape[0]} images for "
                      f"{n_scalar} events (expected {expected.shape[0]})")

if errors:
    print("FAIL: mapped-basin image export: " + " | ".join(errors))
    sys.exit(1)
print("PASS")
