import hashlib
import http.server
import re
import sys
import threading
import warnings

from dclab.http_utils import HTTPFile

warnings.simplefilter("ignore")


class Handler(http.server.BaseHTTPRequestHandler):
    """Minimal range-capable endpoint (RFC 7233 semantics)"""
    protocol_version = "HTTP/1.1"
    resources = {}
    ranges = []

    def log_message(self, *args):
        pass

    def do_GET(self):
        data = self.resources[self.path]
        etag = '"' + hashlib.md5(data).hexdigest() + '"'
        rng = self.headers.get("Range")
        status, body = 200, data
        if rng:
            Handler.ranges.append(rng)
            m = re.fullmatch(r"bytes=(\d+)-(\d+)", rng.strip())
            if m and int(m.group(2)) >= int(m.group(1)):
                a, b = int(m.group(1)), int(m.group(2))
                if a >= len(data):
                    status, body = 416, b"<html>416 Range Not Satisfiable</html>"
                else:
                    status, body = 206, data[a:b + 1]
            # else: syntactically invalid byte-range-spec (last < first):
            # the Range header MUST be ignored -> 200 with the full body
        self.send_response(status)
        self.send_header("Content-Length", str(len(body)))
        self.send_header("Accept-Ranges", "bytes")
        self.send_header("ETag", etag)
        self.end_headers()
        self.wfile.write(body)


class Server(http.server.ThreadingHTTPServer):
    daemon_threads = True

    def handle_error(self, request, client_address):
        pass


def serve(data, name="/bucket/resource"):
    Handler.resources[name] = data
    srv = Server(("127.0.0.1", 0), Handler)
    threading.Thread(target=srv.serve_forever, daemon=True).start()
    return f"http://127.0.0.1:{srv.server_address[1]}{name}"


def main():
    # resource size is an exact multiple of the chunk size
    data = bytes(range(65, 65 + 20))
    url = serve(data)
    problems = []

    f = HTTPFile(url, chunk_size=10, keep_chunks=2)
    f.seek(10)
    r = f.read(10)  # in-bounds read of the last chunk, ends exactly at EOF
    if r != data[10:]:
        problems.append(f"read returned {r!r}")
    cached = sum(len(c) for c in f.cache.values())
    sizes = {k: len(v) for k, v in f.cache.items()}
    if cached > f.max_cache_size or max(sizes.values()) > 10:
        problems.append(
            f"after one in-bounds read(10) of the last chunk the cache holds "
            f"{cached} bytes in chunks {sizes} (chunk_size=10, keep_chunks=2, "
            f"max_cache_size={f.max_cache_size})")
    outside = [rg for rg in Handler.ranges
               if int(rg.split("=")[1].split("-")[0]) >= len(data)]
    if outside:
        problems.append(f"a chunk beyond the resource was requested with an "
                        f"invalid Range header {outside}")

    # mid-file: a read that ends exactly on a chunk boundary must only need
    # the chunks it covers
    del Handler.ranges[:]
    f = HTTPFile(url, chunk_size=5, keep_chunks=2)
    f.read(5)
    if sorted(f.cache) != [0]:
        problems.append(f"read(5) of chunk 0 (chunk_size=5) downloaded chunks "
                        f"{sorted(f.cache)} via {Handler.ranges}")

    if problems:
        print("FAIL: a read ending exactly on a chunk boundary also fetches "
              "the following chunk: " + "; ".join(problems))
        sys.exit(1)
    print("PASS")
    sys.exit(0)


if __name__ == "__main__":
    main()
