import hashlib
import http.server
import re
import sys
import threading
import warnings

from dclab.http_utils import HTTPFile

warnings.simplefilter("ignore")


class Handler(http.server.BaseHTTPRequestHandler):
    """Minimal range-capable endpoint (RFC 7233 semantics)"""
    protocol_version = "HTTP/1.1"
    resources = {}
    ranges = []

    def log_message(self, *args):
        pass

    def do_GET(self):
        data = self.resources[self.path]
        etag = '"' + hashlib.md5(data).hexdigest() + '"'
        rng = self.headers.get("Range")
        status, body = 200, data
        if rng:
            Handler.ranges.append(rng)
            m = re.fullmatch(r"bytes=(\d+)-(\d+)", rng.strip())
            if m and int(m.group(2)) >= int(m.group(1)):
                a, b = int(m.group(1)), int(m.group(2))
                if a >= len(data):
                    status, body = 416, b"<html>416 Range Not Satisfiable</html>"
                else:
                    status, body = 206, data[a:b + 1]
            # else: syntactically invalid byte-range-spec (last < first):
            # the Range header MUST be ignored -> 200 with the full body
        self.send_response(status)
        self.send_header("Content-Length", str(len(body)))
        self.send_header("Accept-Ranges", "bytes")
        self.send_header("ETag", etag)
        self.end_headers()
        self.wfile.write(body)


class Server(http.server.ThreadingHTTPServer):
    daemon_threads = True

    def handle_error(self, request, client_address):
        pass


def serve(data, name="/bucket/resource"):
    Handler.resources[name] = data
    srv = Server(("127.0.0.1", 0), Handler)
    threading.Thread(target=srv.serve_forever, daemon=True).start()
    return f"http://127.0.0.1:{srv.server_address[1]}{name}"


def main():
    data = bytes(range(65, 65 + 25))  # 25 bytes, chunk size 10 -> 3 chunks
    url = serve(data)
    problems = []

    # a read that reaches (requests more than) the end of the resource
    f = HTTPFile(url, chunk_size=10, keep_chunks=5)
    r = f.read(100)
    if r != data:
        problems.append(f"read(100) of a 25-byte resource returned "
                        f"{len(r)} bytes (expected the 25 bytes)")
    if f.tell() != len(data):
        problems.append(f"tell() after it is {f.tell()} (expected 25)")

    # short read near the end: position must advance by what was returned
    f = HTTPFile(url, chunk_size=10, keep_chunks=5)
    f.seek(-5, 2)
    r = f.read(10)
    f.seek(-5, 1)
    r2 = f.read(5)
    if r != data[20:] or r2 != data[20:]:
        problems.append(f"seek(-5,END); read(10) -> {r!r}; seek(-5,CUR); "
                        f"read(5) -> {r2!r} (expected {data[20:]!r} twice)")

    # reading at the end of the resource must return b""
    f = HTTPFile(url, chunk_size=10, keep_chunks=5)
    f.seek(0, 2)
    f.read(10)
    r3 = f.read(10)
    if r3 != b"":
        problems.append(f"second read(10) at EOF returned {len(r3)} bytes "
                        f"{r3[:12]!r}... (expected b'')")

    bad = [rg for rg in Handler.ranges
           if int(rg.split("=")[1].split("-")[0]) >= len(data)]
    if problems:
        print("FAIL: reads reaching the end of the resource are not clamped "
              "to its length: " + "; ".join(problems)
              + f"; requests outside the resource: {sorted(set(bad))}")
        sys.exit(1)
    print("PASS")
    sys.exit(0)


if __name__ == "__main__":
    main()
