import hashlib
import http.server
import re
import sys
import threading
import warnings

from dclab.http_utils import HTTPFile

warnings.simplefilter("ignore")


class Handler(http.server.BaseHTTPRequestHandler):
    """Minimal range-capable endpoint (RFC 7233 semantics)"""
    protocol_version = "HTTP/1.1"
    resources = {}
    ranges = []

    def log_message(self, *args):
        pass

    def do_GET(self):
        data = self.resources[self.path]
        etag = '"' + hashlib.md5(data).hexdigest() + '"'
        rng = self.headers.get("Range")
        status, body = 200, data
        if rng:
            Handler.ranges.append(rng)
            m = re.fullmatch(r"bytes=(\d+)-(\d+)", rng.strip())
            if m and int(m.group(2)) >= int(m.group(1)):
                a, b = int(m.group(1)), int(m.group(2))
                if a >= len(data):
                    status, body = 416, b"<html>416 Range Not Satisfiable</html>"
                else:
                    status, body = 206, data[a:b + 1]
            # else: syntactically invalid byte-range-spec (last < first):
            # the Range header MUST be ignored -> 200 with the full body
        self.send_response(status)
        self.send_header("Content-Length", str(len(body)))
        self.send_header("Accept-Ranges", "bytes")
        self.send_header("ETag", etag)
        self.end_headers()
        self.wfile.write(body)


class Server(http.server.ThreadingHTTPServer):
    daemon_threads = True

    def handle_error(self, request, client_address):
        pass


def serve(data, name="/bucket/resource"):
    Handler.resources[name] = data
    srv = Server(("127.0.0.1", 0), Handler)
    threading.Thread(target=srv.serve_forever, daemon=True).start()
    return f"http://127.0.0.1:{srv.server_address[1]}{name}"


def main():
    data = bytes(range(65, 65 + 25))  # 25 bytes "ABC...Y"
    url = serve(data)
    problems = []

    # read(0) must return b"" and must not move the position
    f = HTTPFile(url, chunk_size=10, keep_chunks=3)
    f.seek(5)
    r0 = f.read(0)
    if r0 != b"" or f.tell() != 5:
        problems.append(f"read(0) at pos 5 -> {r0!r}, tell()={f.tell()} "
                        f"(expected b'' and 5)")
    nxt = f.read(3)
    if nxt != data[5:8]:
        problems.append(f"read(3) after read(0) -> {nxt!r} "
                        f"(expected {data[5:8]!r})")

    # read() / read(-1) must return everything up to the end of the resource
    f = HTTPFile(url, chunk_size=10, keep_chunks=3)
    rall = f.read()
    if rall != data:
        problems.append(f"read() at pos 0 -> {rall!r} (expected all 25 bytes)")
    f = HTTPFile(url, chunk_size=10, keep_chunks=3)
    f.seek(7)
    rrest = f.read(-1)
    if rrest != data[7:]:
        problems.append(f"read(-1) at pos 7 -> {rrest!r} "
                        f"(expected {data[7:]!r})")

    if problems:
        print("FAIL: HTTPFile.read(size<=0) is wrong: " + "; ".join(problems))
        sys.exit(1)
    print("PASS")
    sys.exit(0)


if __name__ == "__main__":
    main()
