"""`.shape` of image-like features in a grandchild raises IndexError when
the intermediate child has no events (the parent itself reports (0, h, w))."""
import sys
import numpy as np
import dclab
from dclab.rtdc_dataset import RTDC_Hierarchy

n = 6
root = dclab.new_dataset({"deform": np.linspace(0.01, 0.2, n),
                          "area_um": np.linspace(20, 200, n),
                          "image": np.zeros((n, 4, 5), dtype=np.uint8),
                          "mask": np.zeros((n, 4, 5), dtype=bool)})
c1 = RTDC_Hierarchy(root)
c2 = RTDC_Hierarchy(c1)
# root filter selects nothing -> c1 and c2 are empty
root.config["filtering"]["deform min"] = 5
root.config["filtering"]["deform max"] = 6
c2.rejuvenate()
assert len(c1) == 0 and len(c2) == 0
ok = True
for feat in ["image", "mask"]:
    exp = c1[feat].shape  # (0, 4, 5)
    try:
        got = c2[feat].shape
    except BaseException as e:
        print(f"FAIL: c2['{feat}'].shape raised {type(e).__name__}: {e} "
              f"(parent reports {exp})")
        ok = False
        continue
    if tuple(got) != tuple(exp):
        print(f"FAIL: c2['{feat}'].shape = {got}, expected {exp}")
        ok = False
if not ok:
    sys.exit(1)
print("PASS")
