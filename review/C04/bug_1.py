"""A manual exclusion made in the youngest hierarchy child is lost when a
temporary feature is assigned on an intermediate member before the refresh."""
import sys
import numpy as np
import dclab
from dclab.rtdc_dataset import RTDC_Hierarchy
from dclab.rtdc_dataset import feat_temp

feat_temp.register_temporary_feature("tmp_c04_bug1")


def build():
    n = 20
    root = dclab.new_dataset({"deform": np.linspace(0.01, 0.2, n),
                              "area_um": np.linspace(20, 200, n),
                              "frame": np.arange(100, 100 + n)})
    c1 = RTDC_Hierarchy(root)
    c2 = RTDC_Hierarchy(c1)
    return root, c1, c2


def scenario(assign_temp):
    root, c1, c2 = build()
    c2.rejuvenate()  # everything is fresh
    # manually exclude the measurement event with frame 110 in c2
    excl_frame = 110
    idx = int(np.where(c2["frame"][:] == excl_frame)[0][0])
    c2.filter.manual[idx] = False
    # filter edit on the root (removes the first three events only)
    root.config["filtering"]["area_um min"] = 45
    root.config["filtering"]["area_um max"] = 1000
    if assign_temp:
        # temporary-feature assignment on the intermediate member
        feat_temp.set_temporary_feature(c1, "tmp_c04_bug1",
                                        np.arange(len(c1), dtype=float))
    # refresh from the youngest member
    c2.rejuvenate()
    pos = np.where(c2["frame"][:] == excl_frame)[0]
    assert len(pos) == 1, "event must still be part of c2"
    return bool(c2.filter.all[pos[0]]), bool(c2.filter.manual[pos[0]])


ref = scenario(assign_temp=False)
got = scenario(assign_temp=True)
if ref != (False, False):
    print("FAIL: reference scenario lost the exclusion", ref)
    sys.exit(1)
if got != (False, False):
    print("FAIL: manual exclusion of frame 110 in c2 lost after "
          "set_temporary_feature(c1, ...): filter.all/manual =", got)
    sys.exit(1)
print("PASS")
