"""Assigning a non-scalar temporary feature on a hierarchy child crashes."""
import sys
import numpy as np
import dclab
from dclab.rtdc_dataset import RTDC_Hierarchy
from dclab.rtdc_dataset import feat_temp

feat_temp.register_temporary_feature("tmp_c04_img", is_scalar=False)

n = 10
root = dclab.new_dataset({"deform": np.linspace(0.01, 0.2, n),
                          "area_um": np.linspace(20, 200, n)})
root.config["filtering"]["area_um min"] = 50
root.config["filtering"]["area_um max"] = 1000
c1 = RTDC_Hierarchy(root)

# works on the root and is visible in the child
feat_temp.set_temporary_feature(root, "tmp_c04_img",
                                np.arange(n * 6, dtype=float).reshape(n, 2, 3))
c1.rejuvenate()
assert np.array_equal(c1["tmp_c04_img"][:],
                      root["tmp_c04_img"][root.filter.all])

data = np.ones((len(c1), 2, 3))
try:
    feat_temp.set_temporary_feature(c1, "tmp_c04_img", data)
except BaseException as e:
    print("FAIL: set_temporary_feature(child, non-scalar) raised "
          f"{type(e).__name__}: {e}")
    sys.exit(1)
c1.rejuvenate()
if not np.array_equal(np.asarray(c1["tmp_c04_img"][:]), data):
    print("FAIL: child does not return the assigned non-scalar data")
    sys.exit(1)
print("PASS")
