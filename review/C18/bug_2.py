"""get_contour does not trace the boundary of border-touching masks

For a connected, hole-free mask that touches the image border,
`find_contours` leaves the iso-line open where it hits the array edge.
A mask that touches two borders (a band across the image, a blob in an
image corner, ...) is split into several open pieces or yields an open
piece that cannot be closed by a straight line. `get_contour` just takes
the longest piece, so part of the mask boundary is missing and the
mask cannot be recovered from the returned contour.
"""
import sys

import numpy as np

from dclab.external.skimage.measure import points_in_poly
from dclab.features.contour import get_contour


def fill_holes(mask):
    """numpy-only flood fill of the background from outside the image"""
    pad = np.pad(mask, 1, constant_values=False)
    outside = np.zeros_like(pad)
    outside[0, :] = outside[-1, :] = outside[:, 0] = outside[:, -1] = True
    while True:
        grown = outside.copy()
        grown[1:, :] |= outside[:-1, :]
        grown[:-1, :] |= outside[1:, :]
        grown[:, 1:] |= outside[:, :-1]
        grown[:, :-1] |= outside[:, 1:]
        grown &= ~pad
        if np.array_equal(grown, outside):
            break
        outside = grown
    return ~outside[1:-1, 1:-1]


def refill(cont, shape):
    """Generous refill: contour pixels + closed-polygon interior + holes"""
    mask = np.zeros(shape, dtype=bool)
    mask[cont[:, 1], cont[:, 0]] = True
    if len(cont) >= 3:
        yy, xx = np.mgrid[0:shape[0], 0:shape[1]]
        pts = np.stack([xx.ravel(), yy.ravel()], axis=1).astype(float)
        inside = np.asarray(points_in_poly(points=pts,
                                           verts=cont.astype(float)),
                            dtype=bool).reshape(shape)
        mask |= inside
    return fill_holes(mask)


def boundary(mask):
    """mask pixels that have a background pixel as 4-neighbor"""
    pad = np.pad(mask, 1, constant_values=True)
    inner = (pad[:-2, 1:-1] & pad[2:, 1:-1] & pad[1:-1, :-2] & pad[1:-1, 2:])
    return mask & ~inner


def main():
    shape = (12, 20)
    cases = {}
    band = np.zeros(shape, dtype=bool)
    band[4:8, :] = True  # touches the left and the right border
    cases["band across the image"] = band
    corner = np.zeros(shape, dtype=bool)
    corner[:5, :6] = True  # touches the top and the left border
    cases["blob in the image corner"] = corner

    msgs = []
    for name, mask in cases.items():
        try:
            cont = get_contour(mask)
        except BaseException as e:
            msgs.append(f"{name}: {e.__class__.__name__}: {e}")
            continue
        onc = np.zeros(shape, dtype=bool)
        onc[cont[:, 1], cont[:, 0]] = True
        missed = np.sum(boundary(mask) & ~onc)
        diff = np.sum(refill(cont, shape) != mask)
        if missed or diff:
            msgs.append(f"{name}: {missed} of {boundary(mask).sum()} boundary "
                        f"pixels (next to background) are not on the "
                        f"contour, refilled mask differs in {diff} of "
                        f"{mask.sum()} pixels")
    if msgs:
        print("FAIL: contour of a border-touching connected hole-free mask "
              "does not trace its boundary: " + "; ".join(msgs))
        return 1
    print("PASS")
    return 0


if __name__ == "__main__":
    sys.exit(main())
