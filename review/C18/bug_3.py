"""get_contour fails for a one-pixel mask

A mask that consists of a single pixel is connected and hole-free; its
contour is that pixel. `find_contours` returns a tiny closed loop around
the pixel, all of whose points are rounded to the same pixel.
`remove_duplicates` treats the contour as circular and thereby removes
*every* point (also the last remaining one), so `get_contour` raises
`NoValidContourFoundError` (a `BaseException`). In a dataset, this makes
`ds["contour"][i]` and all contour-derived features (volume,
inert_ratio_*, tilt) of the entire dataset fail.
"""
import sys

import numpy as np

from dclab.features.contour import get_contour, LazyContourList


def main():
    mask = np.zeros((12, 20), dtype=bool)
    mask[5, 6] = True
    try:
        cont = get_contour(mask)
    except BaseException as e:
        print(f"FAIL: get_contour of a single-pixel mask raises "
              f"{e.__class__.__name__}('{e}') instead of returning [[6, 5]]")
        return 1
    refilled = np.zeros_like(mask)
    refilled[cont[:, 1], cont[:, 0]] = True
    if not np.array_equal(refilled, mask):
        print("FAIL: contour of a single-pixel mask does not reproduce it")
        return 1
    # lazily, in a stack of masks
    masks = np.zeros((3, 12, 20), dtype=bool)
    masks[:, 5, 6] = True
    masks[0, 5:8, 6:9] = True
    lcl = LazyContourList(masks)
    try:
        lcl[1]
    except BaseException as e:
        print(f"FAIL: LazyContourList raises {e.__class__.__name__}('{e}')")
        return 1
    print("PASS")
    return 0


if __name__ == "__main__":
    sys.exit(main())
