"""get_volume(..., fix_orientation=True) returns a wrong volume for a
clockwise contour.

With `fix_orientation=True` the contour orientation must not matter:
the volume of revolution has to be the (positive) value that is obtained
for the counter-clockwise contour. In `dclab.features.volume.get_volume`
the re-oriented `contour_z` is never used; `vol_revolve` is called with
the original `contour_x`, so when the orientation is "fixed" the reversed
radial coordinates are paired with the un-reversed axial coordinates.
"""
import sys

import numpy as np

from dclab.features.contour import get_contour
from dclab.features.volume import get_volume


def main():
    msgs = []

    # 1. an asymmetric (bullet-like) polygon
    t = np.linspace(0, 2 * np.pi, 400, endpoint=False)
    rad = 20 * (1 + 0.4 * np.cos(t - 0.7) + 0.2 * np.sin(2 * t))
    cont = np.stack([100 + rad * np.cos(t), 50 + rad * np.sin(t)], axis=1)
    px, py, pix = 100., 50., 0.34
    # the orientation for which the plain volume is positive
    v_a = get_volume(cont, px * pix, py * pix, pix)
    v_b = get_volume(cont[::-1], px * pix, py * pix, pix)
    if not np.isclose(v_a, -v_b, rtol=1e-9):
        msgs.append(f"sign flip violated: {v_a} vs {v_b}")
    v_ref = max(v_a, v_b)
    f_a = get_volume(cont, px * pix, py * pix, pix, fix_orientation=True)
    f_b = get_volume(cont[::-1], px * pix, py * pix, pix,
                     fix_orientation=True)
    for name, val in [("as given", f_a), ("reversed", f_b)]:
        if not np.isclose(val, v_ref, rtol=1e-6):
            msgs.append(f"polygon ({name}): fix_orientation=True yields "
                        f"{val:.3f}, expected {v_ref:.3f}")

    # 2. contour of a discretised ellipse mask at an off-grid position
    yy, xx = np.mgrid[0:40, 0:70]
    mask = ((xx - 33.3) / 14.2) ** 2 + ((yy - 19.6) / 9.1) ** 2 <= 1
    cm = get_contour(mask)
    mx, my = xx[mask].mean(), yy[mask].mean()
    w_a = get_volume(cm, mx * pix, my * pix, pix)
    w_ref = abs(w_a)
    g_a = get_volume(cm, mx * pix, my * pix, pix, fix_orientation=True)
    g_b = get_volume(cm[::-1], mx * pix, my * pix, pix, fix_orientation=True)
    for name, val in [("as given", g_a), ("reversed", g_b)]:
        if not np.isclose(val, w_ref, rtol=1e-6):
            msgs.append(f"ellipse mask ({name}): fix_orientation=True "
                        f"yields {val:.4f}, expected {w_ref:.4f}")

    if msgs:
        print("FAIL: get_volume(fix_orientation=True) depends on the contour "
              "orientation (z not reversed together with r): "
              + "; ".join(msgs))
        return 1
    print("PASS")
    return 0


if __name__ == "__main__":
    sys.exit(main())
