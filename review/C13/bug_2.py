"""Fluorescence inconsistencies are not reported when the file has no
fl?_max feature: IntegrityChecker.has_fluorescence tests
`"fluorescence" in self.ds` (a *feature* lookup, always False) instead of
looking at the configuration, so all check_fl_* checks (samples per event,
laser count, ...) and the mandatory [fluorescence] keys are skipped for a
file that holds fluorescence traces and fluorescence metadata."""
import pathlib
import shutil
import sys
import tempfile

import h5py
import numpy as np

import dclab
import dclab.rtdc_dataset.writer as w
import dclab.rtdc_dataset.export as e
from dclab.rtdc_dataset import RTDCWriter, check_dataset

w.version = e.version = "0.60.0"

N = 7
META = {
    "experiment": {"date": "2020-01-01", "event count": N, "run index": 1,
                   "sample": "s", "time": "12:00:00"},
    "imaging": {"flash device": "LED", "flash duration": 2.0,
                "frame rate": 2000.0, "pixel size": 0.34,
                "roi position x": 10, "roi position y": 10,
                "roi size x": 32, "roi size y": 16},
    "setup": {"channel width": 20.0, "chip region": "channel",
              "flow rate": 0.04, "medium": "CellCarrier"},
    "fluorescence": {
        "bit depth": 16, "channel count": 2, "channels installed": 2,
        "laser count": 1, "lasers installed": 1, "sample rate": 1e6,
        "samples per event": 50, "signal max": 1.0, "signal min": -1.0,
        "trace median": 21, "channel 1 name": "a", "channel 2 name": "b",
        "laser 1 lambda": 488.0, "laser 1 power": 10.0},
}

td = pathlib.Path(tempfile.mkdtemp(prefix="bug2_"))
rng = np.random.default_rng(1)
src = td / "src.rtdc"
with RTDCWriter(src, mode="reset") as hw:
    hw.store_metadata(META)
    hw.store_feature("deform", rng.random(N) * .1)
    hw.store_feature("fl1_max", rng.random(N) * 100 + 1)
    hw.store_feature("fl2_max", rng.random(N) * 100 + 1)
    hw.store_feature("trace", {
        "fl1_raw": rng.integers(0, 100, (N, 50)).astype(np.int16),
        "fl2_raw": rng.integers(0, 100, (N, 50)).astype(np.int16)})
assert not check_dataset(src)[0]

# dclab write path: export deformation and the fluorescence traces
exp = td / "exp.rtdc"
with dclab.new_dataset(src) as ds:
    ds.export.hdf5(exp, features=["deform", "trace"], filtered=False)
assert not check_dataset(exp)[0]


def corrupt(path):
    """seeded corruption with raw h5py (traces have 50 samples, 1 laser)"""
    with h5py.File(path, "a") as h5:
        h5.attrs["fluorescence:samples per event"] = 99
        h5.attrs["fluorescence:laser count"] = 3
        del h5.attrs["fluorescence:bit depth"]


# control: same corruption in the file that has fl?_max features
ctl = td / "ctl.rtdc"
shutil.copy(src, ctl)
corrupt(ctl)
viol_ctl = check_dataset(ctl)[0]
assert len(viol_ctl) >= 3, viol_ctl

corrupt(exp)
viol, _, info = check_dataset(exp)
if not viol:
    print("FAIL: samples per event 99 (traces have 50), laser count 3 (one "
          "laser defined) and missing [fluorescence] 'bit depth' yield no "
          f"violation without fl?_max features ({info}); with fl?_max "
          f"features the same corruption yields {len(viol_ctl)} violations")
    sys.exit(1)
print("PASS")
