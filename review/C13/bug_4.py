"""Exporting a subset of the fluorescence channels of a clean dataset gives
a file with the violation "fluorescence channel count inconsistent":
Export.hdf5 copies [fluorescence] 'channel count' verbatim and
RTDCWriter.rectify_metadata only sets it when it is absent, while the
checker counts the fl?_max features actually present."""
import pathlib
import sys
import tempfile

import numpy as np

import dclab
import dclab.rtdc_dataset.writer as w
import dclab.rtdc_dataset.export as e
from dclab.rtdc_dataset import RTDCWriter, check_dataset

w.version = e.version = "0.60.0"

N = 7
META = {
    "experiment": {"date": "2020-01-01", "event count": N, "run index": 1,
                   "sample": "s", "time": "12:00:00"},
    "imaging": {"flash device": "LED", "flash duration": 2.0,
                "frame rate": 2000.0, "pixel size": 0.34,
                "roi position x": 10, "roi position y": 10,
                "roi size x": 32, "roi size y": 16},
    "setup": {"channel width": 20.0, "chip region": "channel",
              "flow rate": 0.04, "medium": "CellCarrier"},
    "fluorescence": {
        "bit depth": 16, "channel count": 2, "channels installed": 2,
        "laser count": 1, "lasers installed": 1, "sample rate": 1e6,
        "samples per event": 50, "signal max": 1.0, "signal min": -1.0,
        "trace median": 21, "channel 1 name": "a", "channel 2 name": "b",
        "laser 1 lambda": 488.0, "laser 1 power": 10.0},
}

td = pathlib.Path(tempfile.mkdtemp(prefix="bug4_"))
rng = np.random.default_rng(1)
src = td / "src.rtdc"
with RTDCWriter(src, mode="reset") as hw:
    hw.store_metadata(META)
    hw.store_feature("deform", rng.random(N) * .1)
    hw.store_feature("fl1_max", rng.random(N) * 100 + 1)
    hw.store_feature("fl2_max", rng.random(N) * 100 + 1)
assert not check_dataset(src)[0]

out = td / "out.rtdc"
with dclab.new_dataset(src) as ds:
    ds.export.hdf5(out, features=["deform", "fl1_max"], filtered=False)

viol = check_dataset(out)[0]
if viol:
    print("FAIL: export of ['deform', 'fl1_max'] from a clean two-channel "
          f"dataset is rejected by the integrity checker: {viol}")
    sys.exit(1)
print("PASS")
