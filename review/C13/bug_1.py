"""Exporting only the "trace" feature yields a file that dclab's own
integrity checker rejects: RTDCWriter.rectify_metadata takes
len(h5["events"][first feature]) as the event count, but "trace" is an HDF5
group, so the number of trace names is stored as experiment:event count."""
import pathlib
import sys
import tempfile

import numpy as np

import dclab
import dclab.rtdc_dataset.writer as w
import dclab.rtdc_dataset.export as e
from dclab.rtdc_dataset import RTDCWriter, check_dataset

w.version = e.version = "0.60.0"

N = 7
META = {
    "experiment": {"date": "2020-01-01", "event count": N, "run index": 1,
                   "sample": "s", "time": "12:00:00"},
    "imaging": {"flash device": "LED", "flash duration": 2.0,
                "frame rate": 2000.0, "pixel size": 0.34,
                "roi position x": 10, "roi position y": 10,
                "roi size x": 32, "roi size y": 16},
    "setup": {"channel width": 20.0, "chip region": "channel",
              "flow rate": 0.04, "medium": "CellCarrier"},
    "fluorescence": {
        "bit depth": 16, "channel count": 2, "channels installed": 2,
        "laser count": 1, "lasers installed": 1, "sample rate": 1e6,
        "samples per event": 50, "signal max": 1.0, "signal min": -1.0,
        "trace median": 21, "channel 1 name": "a", "channel 2 name": "b",
        "laser 1 lambda": 488.0, "laser 1 power": 10.0},
}

td = pathlib.Path(tempfile.mkdtemp(prefix="bug1_"))
rng = np.random.default_rng(1)
src = td / "src.rtdc"
with RTDCWriter(src, mode="reset") as hw:
    hw.store_metadata(META)
    hw.store_feature("deform", rng.random(N) * .1)
    hw.store_feature("fl1_max", rng.random(N) * 100 + 1)
    hw.store_feature("fl2_max", rng.random(N) * 100 + 1)
    hw.store_feature("trace", {
        "fl1_raw": rng.integers(0, 100, (N, 50)).astype(np.int16),
        "fl2_raw": rng.integers(0, 100, (N, 50)).astype(np.int16)})

viol_src = check_dataset(src)[0]
assert not viol_src, viol_src  # the source is clean

out = td / "only_trace.rtdc"
with dclab.new_dataset(src) as ds:
    ds.export.hdf5(out, features=["trace"], filtered=False)

viol = check_dataset(out)[0]
with dclab.new_dataset(out) as ds:
    nev = len(ds)
    ntr = len(ds["trace"]["fl1_raw"])

if viol or nev != N:
    print(f"FAIL: export of the 'trace' feature of a clean {N}-event dataset "
          f"has event count {nev} (trace length {ntr}); violations: {viol}")
    sys.exit(1)
print("PASS")
