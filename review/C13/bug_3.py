"""A contour feature whose length differs from the event count is never
reported for HDF5 files: H5Events.__getitem__ (fmt_hdf5/events.py) hands the
"experiment:event count" attribute to H5ContourEvent as its length, so
IntegrityChecker.check_feature_size compares the event count with itself."""
import pathlib
import sys
import tempfile

import h5py
import numpy as np

import dclab.rtdc_dataset.writer as w
import dclab.rtdc_dataset.export as e
from dclab.rtdc_dataset import RTDCWriter, check_dataset

w.version = e.version = "0.60.0"

N = 7
META = {
    "experiment": {"date": "2020-01-01", "event count": N, "run index": 1,
                   "sample": "s", "time": "12:00:00"},
    "imaging": {"flash device": "LED", "flash duration": 2.0,
                "frame rate": 2000.0, "pixel size": 0.34,
                "roi position x": 10, "roi position y": 10,
                "roi size x": 32, "roi size y": 16},
    "setup": {"channel width": 20.0, "chip region": "channel",
              "flow rate": 0.04, "medium": "CellCarrier"},
}

td = pathlib.Path(tempfile.mkdtemp(prefix="bug3_"))
rng = np.random.default_rng(1)
path = td / "src.rtdc"
cont = [np.array([[5, 5], [9, 5], [9, 9], [5, 9]]) + ii for ii in range(N)]
with RTDCWriter(path, mode="reset") as hw:
    hw.store_metadata(META)
    hw.store_feature("deform", rng.random(N) * .1)
    hw.store_feature("area_um", rng.random(N) * 100 + 10)
    hw.store_feature("contour", cont)
assert not check_dataset(path)[0]

# seeded corruption: drop the contours of the last three events
with h5py.File(path, "a") as h5:
    for ii in (4, 5, 6):
        del h5["events/contour"][str(ii)]
    n_cont = len(h5["events/contour"])
    # control: also shorten a scalar feature by one event
    data = h5["events/area_um"][:N - 1]
    del h5["events/area_um"]
    h5["events/area_um"] = data

viol = check_dataset(path)[0]
assert any("'area_um'" in v for v in viol), viol  # scalar mismatch is found
if not any("contour" in v for v in viol):
    print(f"FAIL: {n_cont} contours for {N} events are not reported as a "
          f"violation (only {viol})")
    sys.exit(1)
print("PASS")
