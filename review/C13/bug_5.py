"""An external link whose target file is missing crashes the integrity
checker (KeyError from `h5[key]` in check_compression /
hdf5_has_external) instead of being reported as an external-link violation.
The same holds for an 'index' feature of the wrong length (ValueError from
the `==` broadcast in check_feat_index)."""
import pathlib
import shutil
import sys
import tempfile

import h5py
import numpy as np

import dclab.rtdc_dataset.writer as w
import dclab.rtdc_dataset.export as e
from dclab.rtdc_dataset import RTDCWriter, check_dataset

w.version = e.version = "0.60.0"

N = 7
META = {
    "experiment": {"date": "2020-01-01", "event count": N, "run index": 1,
                   "sample": "s", "time": "12:00:00"},
    "imaging": {"flash device": "LED", "flash duration": 2.0,
                "frame rate": 2000.0, "pixel size": 0.34,
                "roi position x": 10, "roi position y": 10,
                "roi size x": 32, "roi size y": 16},
    "setup": {"channel width": 20.0, "chip region": "channel",
              "flow rate": 0.04, "medium": "CellCarrier"},
}

td = pathlib.Path(tempfile.mkdtemp(prefix="bug5_"))
rng = np.random.default_rng(1)
src = td / "src.rtdc"
with RTDCWriter(src, mode="reset") as hw:
    hw.store_metadata(META)
    hw.store_feature("deform", rng.random(N) * .1)
    hw.store_feature("area_um", rng.random(N) * 100 + 10)
    hw.store_feature("index", np.arange(1, N + 1))
assert not check_dataset(src)[0]

problems = []

# (a) external link to a file that does not exist (e.g. was not copied along)
pa = td / "a.rtdc"
shutil.copy(src, pa)
with h5py.File(pa, "a") as h5:
    h5["events/aspect"] = h5py.ExternalLink("other_file.rtdc",
                                            "/events/aspect")
try:
    viol = check_dataset(pa)[0]
    if not any("external" in v for v in viol):
        problems.append(f"dangling external link not reported: {viol}")
except BaseException as exc:
    problems.append(f"dangling external link -> {exc.__class__.__name__}")

# (b) index feature with the wrong number of entries
pb = td / "b.rtdc"
shutil.copy(src, pb)
with h5py.File(pb, "a") as h5:
    del h5["events/index"]
    h5["events/index"] = np.arange(1, N - 1)
try:
    viol = check_dataset(pb)[0]
    if not any("index" in v for v in viol):
        problems.append(f"short index not reported: {viol}")
except BaseException as exc:
    problems.append(f"index of wrong length -> {exc.__class__.__name__}")

if problems:
    print("FAIL: integrity checker crashes instead of reporting a "
          "violation: " + "; ".join(problems))
    sys.exit(1)
print("PASS")
