"""Saving a polygon filter to a .poly file and loading it back does not
preserve the vertices (and therefore not every classification).

dclab/polygon_filter.py: PolygonFilter.save writes the coordinates with
"{:.15e}", i.e. 16 significant digits, but a float64 needs 17 significant
digits for a loss-free round trip.  About half of all doubles come back
changed by 1-2 ulp, so events close to a polygon edge change sides.
"""
import pathlib
import sys
import tempfile

import numpy as np
from dclab import PolygonFilter

eps = np.finfo(float).eps
right = 1 + 2 * eps          # 1.0000000000000004 (exactly representable)
points = [[0.0, 0.0], [right, 0.0], [right, 1.0], [0.0, 1.0]]
# event strictly inside the rectangle: 0 < x=1+eps < 1+2*eps, 0 < y < 1
# (and also not on the boundary of the reloaded polygon)
datax = np.array([1 + eps, 0.5, 2.0])
datay = np.array([0.5, 0.5, 0.5])

rng = np.random.default_rng(42)
rand_points = rng.uniform(0, 1, size=(12, 2))

problems = []
with tempfile.TemporaryDirectory() as td:
    path = pathlib.Path(td) / "filters.poly"
    pf1 = PolygonFilter(axes=("area_um", "deform"), points=points,
                        name="rect", inverted=False)
    pf2 = PolygonFilter(axes=("area_um", "deform"), points=rand_points,
                        name="random", inverted=True)
    before1 = pf1.filter(datax, datay)
    saved = [(p.axes, p.inverted, p.name, p.unique_id, p.points.copy())
             for p in (pf1, pf2)]
    pf1.save(path)
    pf2.save(path)
    PolygonFilter.clear_all_filters()
    loaded = PolygonFilter.import_all(path)
    assert len(loaded) == 2
    for (axes, inv, name, uid, pts), q in zip(saved, loaded):
        assert list(axes) == list(q.axes)
        assert inv == q.inverted and name == q.name and uid == q.unique_id
        nbad = int(np.sum(pts != q.points))
        if nbad:
            problems.append("filter '{}': {} of {} coordinates changed in "
                            "the round trip (max abs diff {:.3g})".format(
                                name, nbad, pts.size,
                                np.max(np.abs(pts - q.points))))
    after1 = loaded[0].filter(datax, datay)
    if not np.array_equal(before1, after1):
        problems.append("event (1+eps, 0.5): inside={} before save, "
                        "inside={} after load".format(before1[0], after1[0]))

if problems:
    print("FAIL: .poly round trip (16 significant digits) alters polygon "
          "vertices and classifications")
    for pr in problems:
        print("  -", pr)
    sys.exit(1)
print("PASS")
