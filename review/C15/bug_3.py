"""Loading a .poly file does not always restore inversion / name.

dclab/polygon_filter.py: PolygonFilter._load
 (a) only ever sets `self.inverted = True` (for "Inverted = True"); for
     "Inverted = False" the constructor argument survives, although the
     docstring says `inverted` "is overridden if `filename` is given".
     PolygonFilter(filename=f, inverted=True) thus returns the complement
     of the saved filter.
 (b) `save` writes the name unescaped; a name containing a line break
     makes the file unloadable (ValueError in _load).
"""
import pathlib
import sys
import tempfile

import numpy as np
from dclab import PolygonFilter

problems = []
datax = np.array([0.5, 2.0])
datay = np.array([0.25, 0.25])
with tempfile.TemporaryDirectory() as td:
    td = pathlib.Path(td)
    pf = PolygonFilter(axes=("area_um", "deform"),
                       points=[[0, 0], [1, 0], [1, 1]], inverted=False)
    before = pf.filter(datax, datay)
    pf.save(td / "a.poly")
    PolygonFilter.clear_all_filters()
    q = PolygonFilter(filename=td / "a.poly", inverted=True)
    if q.inverted is not False or not np.array_equal(q.filter(datax, datay),
                                                     before):
        problems.append("(a) saved inverted=False, loaded with argument "
                        "inverted=True -> loaded.inverted={}, classification "
                        "{} instead of {}".format(q.inverted,
                                                  q.filter(datax, datay),
                                                  before))
    PolygonFilter.clear_all_filters()
    pf = PolygonFilter(axes=("area_um", "deform"),
                       points=[[0, 0], [1, 0], [1, 1]], name="line1\nline2")
    pf.save(td / "b.poly")
    PolygonFilter.clear_all_filters()
    try:
        q = PolygonFilter.import_all(td / "b.poly")
        if len(q) != 1 or q[0].name != "line1\nline2":
            problems.append("(b) name with line break not preserved")
    except Exception as e:
        problems.append("(b) name with line break: load raises {!r}".format(e))

if problems:
    print("FAIL: .poly load does not restore inversion/name")
    for pr in problems:
        print("  -", pr)
    sys.exit(1)
print("PASS")
