"""Polygon containment is not exact and depends on the orientation of the
vertex list (dclab/external/skimage/_shared/geometry.pyx: point_in_polygon).

The crossing abscissa is evaluated in floating point as
    (xp[j]-xp[i]) * (y-yp[i]) / (yp[j]-yp[i]) + xp[i]
which is (a) rounded and (b) not symmetric in i and j.  Points that are
NOT on the boundary (verified here with exact rational arithmetic) are
therefore misclassified, and reversing the vertex order of the very same
polygon flips the answer.
"""
import sys
from fractions import Fraction as F

import numpy as np
from dclab import PolygonFilter


def exact_inside(poly, p):
    """Exact even-odd rule (ray to +x); None if p is on the boundary"""
    x, y = F(p[0]), F(p[1])
    n = len(poly)
    c = False
    for i in range(n):
        x0, y0 = map(F, poly[i])
        x1, y1 = map(F, poly[(i + 1) % n])
        cross = (x1 - x0) * (y - y0) - (y1 - y0) * (x - x0)
        if (cross == 0 and min(x0, x1) <= x <= max(x0, x1)
                and min(y0, y1) <= y <= max(y0, y1)):
            return None
        if (y0 <= y < y1) or (y1 <= y < y0):
            if x < x0 + (x1 - x0) * (y - y0) / (y1 - y0):
                c = not c
    return c


def classify(poly, p):
    pf = PolygonFilter(axes=("area_um", "deform"), points=poly)
    res = bool(pf.filter(np.array([p[0]]), np.array([p[1]]))[0])
    inv = bool(pf.copy(invert=True).filter(np.array([p[0]]),
                                           np.array([p[1]]))[0])
    assert inv != res
    return res


problems = []

# Case A: triangle on a 3x3 integer grid; the query point is the double
# closest to 1/3 (which is strictly smaller than 1/3, i.e. strictly inside).
polyA = [(0., 0.), (1., 3.), (0., 3.)]
pA = (1 / 3, 1.0)
# Case B: coordinates spanning 12 orders of magnitude; the query point is
# 3e-5 (about 2.7e8 ulp of its x-coordinate) away from the boundary.
polyB = [(1e12, 0.), (0., 1.), (0., 0.)]
yB = 0.9999999992166584
pB = (783.3416443008468, yB)

for label, poly, p in [("A", polyA, pA), ("B", polyB, pB)]:
    truth = exact_inside(poly, p)
    assert truth is not None, "query point must be off the boundary"
    results = {}
    for k in range(len(poly)):
        fw = poly[k:] + poly[:k]
        results[("shift", k)] = classify(fw, p)
        results[("shift+reversed", k)] = classify(fw[::-1], p)
    wrong = [key for key, val in results.items() if val != truth]
    if wrong:
        problems.append(
            "case {}: point {} is {} (exact), but dclab says {} for "
            "vertex orders {}".format(label, p,
                                      "inside" if truth else "outside",
                                      "inside" if not truth else "outside",
                                      wrong))
    if len(set(results.values())) > 1:
        problems.append("case {}: classification depends on vertex order: {}"
                        .format(label, results))

if problems:
    print("FAIL: off-boundary points are misclassified / result depends on "
          "polygon orientation (floating-point crossing test)")
    for pr in problems:
        print("  -", pr)
    sys.exit(1)
print("PASS")
