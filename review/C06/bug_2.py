"""volume / inert_ratio_* / tilt stay stale after the mask data are replaced

Root cause: dclab/features/contour.py LazyContourList.__init__ sets
`self.identifier = str(masks[0][:].tobytes())` (first event only) and
util.obj2bytes() uses `.identifier` when AncillaryFeature.hash() hashes the
required feature "contour". Two different mask stacks that share the first
event therefore yield the same hash for every contour-based feature.
"""
import sys
import warnings

import numpy as np

import dclab
from dclab.rtdc_dataset import feat_temp

warnings.simplefilter("ignore")

N = 4
PX = 0.34


def masks(radius):
    """Discs; event 0 always has radius 6, the others have `radius`"""
    yy, xx = np.ogrid[:40, :60]
    m = np.zeros((N, 40, 60), dtype=bool)
    for ii in range(N):
        rr = 6 if ii == 0 else radius
        m[ii] = (yy - 20) ** 2 + (xx - 30) ** 2 <= rr ** 2
    return m


def new_ds():
    ds = dclab.new_dataset({"deform": np.linspace(.01, .02, N),
                            "pos_x": np.full(N, 30 * PX),
                            "pos_y": np.full(N, 20 * PX)})
    ds.config["imaging"]["pixel size"] = PX
    return ds


ds = new_ds()
feat_temp.set_temporary_feature(ds, "mask", masks(6))
vol_small = np.array(ds["volume"])  # computed and cached
# the segmentation is replaced (only event 0 keeps its mask)
feat_temp.set_temporary_feature(ds, "mask", masks(12))
vol_now = np.array(ds["volume"])

fresh = new_ds()
feat_temp.set_temporary_feature(fresh, "mask", masks(12))
vol_fresh = np.array(fresh["volume"])

if np.allclose(vol_now, vol_fresh):
    print("PASS")
    sys.exit(0)
else:
    print("FAIL: 'volume' is stale after the temporary 'mask' feature was "
          f"replaced: got {vol_now}, a fresh dataset computes {vol_fresh}")
    sys.exit(1)
