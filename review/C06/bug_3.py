"""A refreshed hierarchy child does not reflect the current emodulus

Root cause: Filter.update (dclab/rtdc_dataset/filter.py) recomputes the box
filter of a feature only if its "<feat> min/max" keys changed. When a
[calculation] key changes, the ancillary feature "emodulus" is recomputed,
but the cached box filter (computed from the old values) is kept by
apply_filter()/rejuvenate(). A hierarchy child then holds the events that
matched the *old* Young's modulus, so its feature data differ from a child
that is created freshly with the same data, settings and filters.
"""
import sys
import warnings

import numpy as np

import dclab

warnings.simplefilter("ignore")

N = 40
rng = np.random.default_rng(0)
area = rng.uniform(60, 120, N)
deform = rng.uniform(0.01, 0.03, N)
EMAX = 1.09


def new_ds(temperature):
    ds = dclab.new_dataset({"area_um": area, "deform": deform})
    ds.config["setup"]["flow rate"] = 0.04
    ds.config["setup"]["channel width"] = 20
    ds.config["imaging"]["pixel size"] = 0.34
    ds.config["calculation"]["emodulus lut"] = "LE-2D-FEM-19"
    ds.config["calculation"]["emodulus medium"] = "CellCarrier"
    ds.config["calculation"]["emodulus temperature"] = temperature
    ds.config["calculation"]["emodulus viscosity model"] = "buyukurganci-2022"
    ds.config["filtering"]["emodulus min"] = 0.0
    ds.config["filtering"]["emodulus max"] = EMAX
    ds.apply_filter()
    return ds


ds = new_ds(23.0)
child = dclab.new_dataset(ds)
ds.config["calculation"]["emodulus temperature"] = 35.0  # changed setting
child.rejuvenate()  # refresh the child

fresh_child = dclab.new_dataset(new_ds(35.0))

a = np.array(child["emodulus"])
b = np.array(fresh_child["emodulus"])
if a.shape == b.shape and np.allclose(a, b, equal_nan=True):
    print("PASS")
    sys.exit(0)
else:
    print(f"FAIL: refreshed child has {a.size} events, a freshly created "
          f"child with the same settings has {b.size} (box filter on "
          "'emodulus' still uses the values of the old temperature)")
    sys.exit(1)
