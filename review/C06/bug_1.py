"""features_loaded / features_local report a feature that cannot be read

Root cause: RTDCBase.features_local (dclab/rtdc_dataset/core.py) adds
`list(self._ancillaries.keys())`, i.e. everything that was ever computed,
without checking that the feature is still available for the current
configuration (features_loaded builds on features_local). __contains__,
.features and .features_ancillary correctly say "not available".
"""
import sys
import warnings

import numpy as np

import dclab

warnings.simplefilter("ignore")

N = 5
ds = dclab.new_dataset({"area_um": np.linspace(60, 120, N),
                        "deform": np.linspace(.01, .03, N)})
ds.config["setup"]["flow rate"] = 0.04
ds.config["setup"]["channel width"] = 20
ds.config["imaging"]["pixel size"] = 0.34
ds.config["calculation"]["emodulus lut"] = "LE-2D-FEM-19"
ds.config["calculation"]["emodulus medium"] = "CellCarrier"
ds.config["calculation"]["emodulus temperature"] = 23.0
ds.config["calculation"]["emodulus viscosity model"] = "buyukurganci-2022"
ds["emodulus"]  # read once
ds.config["calculation"].pop("emodulus lut")  # setting removed

try:
    ds["emodulus"]
    readable = True
except KeyError:
    readable = False

reported = {"in": "emodulus" in ds,
            "features": "emodulus" in ds.features,
            "features_loaded": "emodulus" in ds.features_loaded,
            "features_local": "emodulus" in ds.features_local}
bad = [k for k, v in reported.items() if v != readable]
if bad:
    print(f"FAIL: reading 'emodulus' succeeds={readable}, but it is reported "
          f"as available={not readable} by {bad}")
    sys.exit(1)
else:
    print("PASS")
    sys.exit(0)
