"""The cached "index" array of a hierarchy child is writable.

`RTDC_Hierarchy.apply_filter` stores `np.arange(1, n + 1)` in
`self._events["index"]` and `child["index"]` hands out exactly this array.
All other cached scalar features (ChildScalar, H5ScalarEvent, ancillary
features, dict datasets, the "index" of non-hierarchy datasets) are
read-only, this one is not: modifying the result changes what every later
`child["index"]` returns.
"""
import sys

import numpy as np
import dclab


def main():
    rng = np.random.default_rng(42)
    num = 30
    ds = dclab.new_dataset({"area_um": rng.normal(100, 10, num),
                            "deform": rng.uniform(0.01, 0.2, num)})
    child = dclab.new_dataset(ds)
    expected = np.arange(1, num + 1)
    result = child["index"]
    if not np.array_equal(result, expected):
        print("FAIL: unexpected initial index")
        return 1
    try:
        result[:] = 0
    except ValueError:
        pass  # read-only is fine
    later = child["index"]
    if not np.array_equal(later, expected):
        print("FAIL: child['index'] returns the user-modified array "
              f"{np.array(later[:5])}... instead of 1..{num}; the cached "
              "array of the hierarchy child is writable")
        return 1
    print("PASS")
    return 0


if __name__ == "__main__":
    sys.exit(main())
