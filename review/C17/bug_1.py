"""The file-hash cache cannot be called with positional arguments.

`hashfile(fname, blocksize=65536, count=0, ...)` is wrapped by
`file_monitoring_lru_cache`, whose wrapper forwards `*args` together with
`path=...` as a keyword: `cached_wrapper(path=..., path_stats=..., *args)`.
Any positional argument after the path collides with `path`, so
`hashfile(p, 1024, 3)` raises TypeError for every existing file, although
the undecorated function (and the keyword form) computes a hash.
"""
import hashlib
import pathlib
import sys
import tempfile

from dclab.util import hashfile


def main():
    tdir = pathlib.Path(tempfile.mkdtemp(prefix="hashfile_"))
    path = tdir / "data.bin"
    data = bytes(range(256)) * 100
    path.write_bytes(data)
    # fresh computation: 3 blocks of 1024 bytes
    expected = hashlib.md5(data[:3 * 1024]).hexdigest()
    by_keyword = hashfile(path, blocksize=1024, count=3)
    if by_keyword != expected:
        print("FAIL: keyword call returns a wrong hash")
        return 1
    try:
        by_position = hashfile(path, 1024, 3)
    except TypeError as exc:
        print("FAIL: hashfile(path, 1024, 3) raises instead of returning "
              f"the same hash as hashfile(path, blocksize=1024, count=3): "
              f"{exc}")
        return 1
    if by_position != expected:
        print("FAIL: positional call returns a different hash")
        return 1
    print("PASS")
    return 0


if __name__ == "__main__":
    sys.exit(main())
