"""Results of `downsample_grid` are shared with the cache.

`dclab.cached.Cache.__call__` returns the very object stored in
`Cache._cache`. For `downsampling.downsample_grid` this is a tuple of
writable ndarrays; modifying a returned array in-place changes what the
next call with the same arguments returns (until the entry is evicted,
after which the correct value is returned again).
"""
import sys

import numpy as np
from dclab import downsampling
from dclab.cached import Cache


def main():
    rng = np.random.default_rng(42)
    a = rng.normal(size=500)
    b = rng.normal(size=500)
    Cache.clear_cache()
    fresh = [np.array(r, copy=True) for r in
             downsampling.downsample_grid.func(a, b, 100, ret_idx=True)]
    res1 = downsampling.downsample_grid(a, b, 100, ret_idx=True)
    try:
        res1[0][:] = 0
        res1[2][:] = False
    except ValueError:
        pass  # read-only is fine
    res2 = downsampling.downsample_grid(a, b, 100, ret_idx=True)
    if not all(np.array_equal(p, q) for p, q in zip(res2, fresh)):
        print("FAIL: downsample_grid returns the user-modified arrays of "
              "the previous call (cached objects are writable and shared)")
        return 1
    print("PASS")
    return 0


if __name__ == "__main__":
    sys.exit(main())
