"""Cache key collision for tuple arguments that contain arrays.

`dclab.cached.Cache._update_hash` hashes ndarrays and lists by content,
but every other argument (e.g. a tuple) via `str(arg)`. The string
representation of a tuple of ndarrays is lossy (8 significant digits,
"..." for long arrays), so two different `bins=(xedges, yedges)` tuples
for `kde_histogram` (passed on to `numpy.histogram2d`, which accepts bin
edges) get the same key and the second call returns the density of the
first one.
"""
import sys

import numpy as np
import dclab
from dclab.cached import Cache


def main():
    rng = np.random.default_rng(42)
    num = 200
    x = rng.uniform(0, 1, num)
    y = rng.uniform(0, 1, num)
    yedges = np.linspace(0, 1, 6)
    xedges1 = np.linspace(0, 1, 6)
    xedges2 = xedges1.copy()
    xedges2[2] += 3e-9
    # put half of the events between the two alternative bin edges
    x[:100] = xedges1[2] + 1e-9
    ds = dclab.new_dataset({"area_um": x, "deform": y})

    Cache.clear_cache()
    d1 = ds.get_kde_scatter(kde_type="histogram",
                            kde_kwargs={"bins": (xedges1, yedges)})
    d2 = ds.get_kde_scatter(kde_type="histogram",
                            kde_kwargs={"bins": (xedges2, yedges)})
    Cache.clear_cache()
    d2_fresh = ds.get_kde_scatter(kde_type="histogram",
                                  kde_kwargs={"bins": (xedges2, yedges)})
    if not np.array_equal(d2, d2_fresh):
        print("FAIL: kde_histogram with bins=(xedges2, yedges) returned the "
              "cached density of bins=(xedges1, yedges); max deviation from "
              f"the fresh result: {np.abs(d2 - d2_fresh).max():.3g} "
              f"(identical to first call: {np.array_equal(d1, d2)})")
        return 1
    print("PASS")
    return 0


if __name__ == "__main__":
    sys.exit(main())
