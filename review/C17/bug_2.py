"""Lazily cached contours are handed out as writable arrays.

Modifying a contour obtained via ``ds["contour"][i]`` changes what later
``ds["contour"][i]`` calls return (as long as the contour is in the LRU
deque of `LazyContourList`); after eviction the fresh value is returned
again. The cached value is thus distinguishable from a fresh computation.
"""
import sys

import numpy as np
import dclab
from dclab.features.contour import get_contour


def main():
    num = 12
    mask = np.zeros((num, 40, 60), dtype=bool)
    for ii in range(num):
        mask[ii, 10:20 + ii % 5, 15:35 + ii % 7] = True
    ds = dclab.new_dataset({
        "mask": mask,
        "deform": np.linspace(0.01, 0.1, num),
        "area_um": np.linspace(50, 100, num),
    })
    fresh = get_contour(mask[3])
    first = ds["contour"][3]
    if not np.array_equal(first, fresh):
        print("FAIL: first access differs from fresh computation")
        return 1
    try:
        # in-place modification of a result obtained from the dataset
        first[:] = 0
    except ValueError:
        # read-only result: cannot be modified, the property holds
        pass
    second = ds["contour"][3]
    if not np.array_equal(second, fresh):
        print("FAIL: ds['contour'][3] returns the user-modified array "
              "(all zeros) instead of the contour of mask 3: the lazily "
              "cached contour is writable and shared with the caller")
        return 1
    print("PASS")
    return 0


if __name__ == "__main__":
    sys.exit(main())
