"""A file basin whose location exists but cannot be opened as an RT-DC
file (truncated copy, or a directory) is an unreachable basin. Instead of
making its features unavailable, every feature query on the referring
dataset (ds.features, `in`, ds.features_basin) raises OSError, because
RTDCBase.basins_retrieve calls Basin.verify_basin() (which opens the basin
to compare run identifiers) without any error handling.

Run with PYTHONPATH=/tmp/wt/h_C14
"""
import json
import pathlib
import sys
import tempfile
import warnings

import h5py
import numpy as np

import dclab


def make(path, feats, rid=None, basins=(), n=10):
    with h5py.File(path, "w") as h:
        h.attrs["setup:software version"] = "dclab 0.60.0"
        h.attrs["experiment:event count"] = n
        h.attrs["experiment:sample"] = "x"
        if rid is not None:
            h.attrs["experiment:run identifier"] = rid
        ev = h.require_group("events")
        for k, v in feats.items():
            ev[k] = v
        for key, bd in basins:
            lines = json.dumps(bd, indent=2).split("\n")
            h.require_group("basins").create_dataset(
                key, data=np.array(lines, dtype=h5py.string_dtype()))


warnings.simplefilter("ignore")
td = pathlib.Path(tempfile.mkdtemp())
d = np.linspace(0, 1, 10)
make(td / "full.rtdc", {"area_um": d * 3, "bright_avg": d}, rid="r")
# incomplete copy of the basin file
data = (td / "full.rtdc").read_bytes()
(td / "base.rtdc").write_bytes(data[:len(data) // 2])
(td / "adir.rtdc").mkdir()

failures = []
for label, loc in [("truncated file", td / "base.rtdc"),
                   ("directory", td / "adir.rtdc")]:
    ref = td / f"a_{label[:3]}.rtdc"
    make(ref, {"deform": d}, rid="r", basins=[
        ("k", {"description": "", "format": "hdf5", "name": "b",
               "type": "file", "paths": [str(loc)]})])
    ds = dclab.new_dataset(ref)
    try:
        feats = ds.features
        assert "deform" in feats and "area_um" not in feats
        assert "area_um" not in ds
    except Exception as e:
        failures.append(f"{label}: {type(e).__name__}")

if failures:
    print("FAIL: ds.features raises for an existing-but-unreadable file "
          "basin instead of hiding its features -> " + "; ".join(failures))
    sys.exit(1)
print("PASS")
sys.exit(0)
