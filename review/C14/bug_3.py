"""A dataset opened from an in-memory file object (io.BytesIO, supported by
dclab.new_dataset) that defines a file basin with a dangling location:
RTDCBase.basins_retrieve falls back to "relative to self.path" and calls
pathlib.Path(self.path) on the BytesIO object -> TypeError from
ds.features / `in` instead of the basin features simply being unavailable.

Run with PYTHONPATH=/tmp/wt/h_C14
"""
import io
import json
import pathlib
import sys
import tempfile
import warnings

import h5py
import numpy as np

import dclab


def make(path, feats, rid=None, basins=(), n=10):
    with h5py.File(path, "w") as h:
        h.attrs["setup:software version"] = "dclab 0.60.0"
        h.attrs["experiment:event count"] = n
        h.attrs["experiment:sample"] = "x"
        if rid is not None:
            h.attrs["experiment:run identifier"] = rid
        ev = h.require_group("events")
        for k, v in feats.items():
            ev[k] = v
        for key, bd in basins:
            lines = json.dumps(bd, indent=2).split("\n")
            h.require_group("basins").create_dataset(
                key, data=np.array(lines, dtype=h5py.string_dtype()))


warnings.simplefilter("ignore")
td = pathlib.Path(tempfile.mkdtemp())
d = np.linspace(0, 1, 10)
make(td / "a.rtdc", {"deform": d}, rid="r", basins=[
    ("k", {"description": "", "format": "hdf5", "name": "b",
           "type": "file", "paths": [str(td / "gone.rtdc")]})])

# control: opened by path, the dangling basin is silently dropped
with dclab.new_dataset(td / "a.rtdc") as dsp:
    assert dsp.features_basin == [] and "deform" in dsp.features

ds = dclab.new_dataset(io.BytesIO((td / "a.rtdc").read_bytes()))
try:
    feats = ds.features
    assert "deform" in feats and "area_um" not in ds
except Exception as e:
    print("FAIL: dangling file basin in a dataset opened from BytesIO makes "
          f"ds.features raise {type(e).__name__}: {str(e)[:80]}")
    sys.exit(1)
print("PASS")
sys.exit(0)
