"""A remote (http) basin whose run identifier differs from the referrer's
is still offered: its features appear in ds.features / `in ds`, although
the basin belongs to another measurement (reading them then fails).
For file basins the same mismatch correctly hides the features.

Uses a tiny local HTTP server with Range support (127.0.0.1 only).
Run with PYTHONPATH=/tmp/wt/h_C14
"""
import functools
import http.server
import json
import os
import pathlib
import re
import sys
import tempfile
import threading
import warnings

import h5py
import numpy as np

import dclab


class RangeHandler(http.server.SimpleHTTPRequestHandler):
    protocol_version = "HTTP/1.1"

    def log_message(self, *a):
        pass

    def do_HEAD(self):
        self._serve(True)

    def do_GET(self):
        self._serve(False)

    def _serve(self, head):
        path = self.translate_path(self.path)
        if not os.path.isfile(path):
            self.send_response(404)
            self.send_header("Content-Length", "0")
            self.end_headers()
            return
        size = os.path.getsize(path)
        rng = self.headers.get("Range")
        start, end, code = 0, size - 1, 200
        if rng:
            m = re.match(r"bytes=(\d*)-(\d*)", rng)
            if m.group(1):
                start = int(m.group(1))
                if m.group(2):
                    end = min(int(m.group(2)), size - 1)
            else:
                start = size - int(m.group(2))
            code = 206
        length = max(0, end - start + 1)
        self.send_response(code)
        self.send_header("Accept-Ranges", "bytes")
        self.send_header("Content-Length", str(length))
        self.send_header("ETag", '"%s-%d"' % (os.path.basename(path), size))
        if code == 206:
            self.send_header("Content-Range", f"bytes {start}-{end}/{size}")
        self.end_headers()
        if not head:
            with open(path, "rb") as f:
                f.seek(start)
                self.wfile.write(f.read(length))


class QuietServer(http.server.ThreadingHTTPServer):
    def handle_error(self, request, client_address):
        pass


def make(path, feats, rid=None, basins=(), n=10):
    with h5py.File(path, "w") as h:
        h.attrs["setup:software version"] = "dclab 0.60.0"
        h.attrs["experiment:event count"] = n
        h.attrs["experiment:sample"] = "x"
        if rid is not None:
            h.attrs["experiment:run identifier"] = rid
        ev = h.require_group("events")
        for k, v in feats.items():
            ev[k] = v
        for key, bd in basins:
            lines = json.dumps(bd, indent=2).split("\n")
            h.require_group("basins").create_dataset(
                key, data=np.array(lines, dtype=h5py.string_dtype()))


warnings.simplefilter("ignore")
served = pathlib.Path(tempfile.mkdtemp())
local = pathlib.Path(tempfile.mkdtemp())
srv = QuietServer(("127.0.0.1", 0), functools.partial(
    RangeHandler, directory=str(served)))
threading.Thread(target=srv.serve_forever, daemon=True).start()
url = f"http://127.0.0.1:{srv.server_address[1]}/other.rtdc"

d = np.linspace(0, 1, 10)
# basin of a DIFFERENT measurement
make(served / "other.rtdc", {"area_um": d * 5}, rid="other-measurement")
make(local / "a.rtdc", {"deform": d}, rid="my-measurement", basins=[
    ("k", {"description": "", "format": "http", "name": "b",
           "type": "remote", "urls": [url]})])
# control: same thing as file basin
make(local / "c.rtdc", {"deform": d}, rid="my-measurement", basins=[
    ("k", {"description": "", "format": "hdf5", "name": "b",
           "type": "file", "paths": [str(served / "other.rtdc")]})])

dsc = dclab.new_dataset(local / "c.rtdc")
assert "area_um" not in dsc and "area_um" not in dsc.features, "control"

ds = dclab.new_dataset(local / "a.rtdc")
assert ds.basins[0].is_available(), "local http server not reachable"
offered = ("area_um" in ds, "area_um" in ds.features,
           "area_um" in ds.features_basin)
if any(offered):
    try:
        ds["area_um"]
        readable = True
    except KeyError:
        readable = False
    print("FAIL: features of a remote basin with unrelated run identifier "
          f"are offered (in ds / features / features_basin = {offered}, "
          f"readable={readable})")
    sys.stdout.flush()
    os._exit(1)  # avoid interpreter-shutdown noise of server/h5py threads
print("PASS")
sys.stdout.flush()
os._exit(0)
