"""Hierarchy child: a manual exclusion that was taken back comes back to
life when the parent's filter changes.

HierarchyFilter.retrieve_manual_indices() skips its bookkeeping when
`self.manual` is all True ("remember the events we manually excluded in
case the parent reinserts them").  If the user re-includes the last
(visible) manually excluded event, the stale root index stays in
`_man_root_ids`; the next time the parent filter changes,
RTDC_Hierarchy._check_parent_filter() re-applies it to the new filter and
the event is excluded again although `manual` had been set back to True.
"""
import sys
import warnings

import numpy as np
import dclab

warnings.simplefilter("ignore")

root = dclab.new_dataset({"area_um": np.arange(10.),
                          "deform": np.linspace(0.01, 0.1, 10)})
child = dclab.new_dataset(root)

# exclude event with area_um == 3 manually, apply
child.filter.manual[3] = False
child.apply_filter()
assert not child.filter.all[3]

# take the manual exclusion back, apply
child.filter.manual[3] = True
child.apply_filter()
assert np.all(child.filter.manual) and np.all(child.filter.all)

# now change a range in the parent (drops only the event area_um == 0)
root.config["filtering"]["area_um min"] = 1
root.config["filtering"]["area_um max"] = 100
child.apply_filter()

# The child has no ranges, no polygons, no limit, and the user has no
# manual exclusion in effect: every child event must be selected.
area = child["area_um"][:]
if len(child) != 9:
    print("FAIL: unexpected child size", len(child))
    sys.exit(1)
if not np.all(child.filter.all):
    print("FAIL: child event(s) with area_um={} excluded by a manual "
          "exclusion that had been removed before (filter.manual={})".format(
              area[~child.filter.all].tolist(),
              child.filter.manual.astype(int).tolist()))
    sys.exit(1)
print("PASS")
