"""Box (min/max) filter is not (re)evaluated when the feature becomes
available or its data change after the range was first applied.

Filter.update() only recomputes a box filter when its "<feat> min/max"
config values differ from the values seen at the previous apply_filter().
If the feature was unavailable at that time (range ignored with a warning),
a later apply_filter() with the feature present silently keeps ignoring the
active range.
"""
import sys
import warnings

import numpy as np
import dclab

warnings.simplefilter("ignore")


def expected_range(data, lo, hi):
    with np.errstate(invalid="ignore"):
        return (data >= lo) & (data <= hi) & ~np.isnan(data)


fails = []

# --- Scenario A: ancillary feature (emodulus) becomes available later ---
rng = np.random.RandomState(1)
ds = dclab.new_dataset({"area_um": rng.uniform(50, 150, 30),
                        "deform": rng.uniform(0.01, 0.05, 30)})
ds.config["setup"]["flow rate"] = 0.04
ds.config["setup"]["channel width"] = 20
ds.config["imaging"]["pixel size"] = 0.34
ds.config["filtering"]["emodulus min"] = 1.0
ds.config["filtering"]["emodulus max"] = 2.0
ds.apply_filter()  # emodulus not available yet -> range ignored
# now the user completes the settings; emodulus becomes available
ds.config["calculation"]["emodulus lut"] = "LE-2D-FEM-19"
ds.config["calculation"]["emodulus medium"] = "CellCarrier"
ds.config["calculation"]["emodulus temperature"] = 23.0
ds.config["calculation"]["emodulus viscosity model"] = "buyukurganci-2022"
assert "emodulus" in ds.features_scalar
ds.apply_filter()
exp = expected_range(ds["emodulus"], 1.0, 2.0)
if not np.array_equal(ds.filter.all, exp):
    fails.append("A: active range 'emodulus' 1..2 ignored after the feature "
                 "became available: selected {} events, spec says {}".format(
                     ds.filter.all.sum(), exp.sum()))

# --- Scenario B: same with a temporary feature set after the first apply ---
dclab.register_temporary_feature("hunt_c03_feat")
ds2 = dclab.new_dataset({"area_um": np.arange(10.),
                         "deform": np.linspace(0.01, 0.1, 10)})
ds2.config["filtering"]["hunt_c03_feat min"] = 2
ds2.config["filtering"]["hunt_c03_feat max"] = 5
ds2.apply_filter()
dclab.set_temporary_feature(ds2, "hunt_c03_feat", np.arange(10.))
ds2.apply_filter()
exp2 = expected_range(ds2["hunt_c03_feat"], 2, 5)
if not np.array_equal(ds2.filter.all, exp2):
    fails.append("B: range on temporary feature ignored: got {}, spec {}"
                 .format(ds2.filter.all.astype(int), exp2.astype(int)))

# --- Scenario C: feature data change (emodulus temperature), same range ---
ds.config["calculation"]["emodulus temperature"] = 38.0
ds.apply_filter(force=["emodulus"])  # bring into a correct state first
ds.config["calculation"]["emodulus temperature"] = 15.0
ds.apply_filter()
exp3 = expected_range(ds["emodulus"], 1.0, 2.0)
if not np.array_equal(ds.filter.all, exp3):
    fails.append("C: range 'emodulus' 1..2 evaluated on outdated data: "
                 "selected {} events, spec says {}".format(
                     ds.filter.all.sum(), exp3.sum()))

if fails:
    print("FAIL: box filter not equal to current settings; " + fails[0])
    for f in fails[1:]:
        print("      also " + f)
    sys.exit(1)
print("PASS")
