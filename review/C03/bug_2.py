"""Polygon filter result is cached by the polygon's hash only.

Filter.update() recomputes a polygon filter only if the polygon itself
(axes/points/inverted) changed.  If the data of one of its axes change
(e.g. emodulus after changing [calculation] settings, or a replaced
temporary feature), the stale boolean array is reused -- and, unlike for
box filters, `apply_filter(force=[...])` cannot refresh it.
"""
import sys
import warnings

import numpy as np
import dclab
from dclab.polygon_filter import PolygonFilter
from dclab.external.skimage.measure import points_in_poly

warnings.simplefilter("ignore")


def expected_poly(ds, pf):
    pts = np.stack([ds[pf.axes[0]], ds[pf.axes[1]]], axis=1).astype(float)
    ins = points_in_poly(points=pts, verts=np.array(pf.points, dtype=float))
    return ~ins if pf.inverted else ins


rng = np.random.RandomState(1)
ds = dclab.new_dataset({"area_um": rng.uniform(50, 150, 40),
                        "deform": rng.uniform(0.01, 0.05, 40)})
ds.config["setup"]["flow rate"] = 0.04
ds.config["setup"]["channel width"] = 20
ds.config["imaging"]["pixel size"] = 0.34
ds.config["calculation"]["emodulus lut"] = "LE-2D-FEM-19"
ds.config["calculation"]["emodulus medium"] = "CellCarrier"
ds.config["calculation"]["emodulus temperature"] = 23.0
ds.config["calculation"]["emodulus viscosity model"] = "buyukurganci-2022"

pf = PolygonFilter(axes=["area_um", "emodulus"],
                   points=[[0, 1], [200, 1], [200, 2], [0, 2]])
ds.polygon_filter_add(pf)
ds.apply_filter()
first_ok = np.array_equal(ds.filter.all, expected_poly(ds, pf))

# change a setting that changes the emodulus values, then apply again
ds.config["calculation"]["emodulus temperature"] = 38.0
ds.apply_filter(force=["area_um", "emodulus"])
exp = expected_poly(ds, pf)
got = ds.filter.all

if not first_ok:
    print("FAIL: polygon filter wrong already on first application")
    sys.exit(1)
if not np.array_equal(got, exp):
    print("FAIL: polygon filter evaluated on outdated feature data after a "
          "setting change (+apply, even with force): {} events selected, "
          "{} are inside the polygon; {} events differ".format(
              got.sum(), exp.sum(), np.sum(got != exp)))
    sys.exit(1)
print("PASS")
