"""dclab-condense replaces a basin-provided "index" by a plain enumeration

A file exported with filtering and `basins=True` obtains all features that
are not stored from its (mapped) basin, including the stored "index" of the
original measurement (e.g. [1, 3, 5, 7, 9]).  `condense_dataset` writes the
basin features via `RTDCWriter.store_feature`, which ignores the data
passed for "index" and writes `arange(1, N+1)` instead.  The scalar feature
"index" of the condensed file therefore differs from that of the input.
"""
import pathlib
import sys
import tempfile
import warnings

import h5py
import numpy as np

import dclab
import dclab.rtdc_dataset.writer as w
import dclab.rtdc_dataset.export as e
from dclab.cli import condense

w.version = e.version = "0.60.0"


def make_basin(path, n=10):
    with h5py.File(path, "w") as h5:
        h5.attrs["experiment:date"] = "2020-01-01"
        h5.attrs["experiment:event count"] = n
        h5.attrs["experiment:run index"] = 1
        h5.attrs["experiment:run identifier"] = "xyz"
        h5.attrs["experiment:sample"] = "s"
        h5.attrs["experiment:time"] = "12:00:00"
        h5.attrs["imaging:pixel size"] = 0.34
        h5.attrs["setup:channel width"] = 20.0
        h5.attrs["setup:chip region"] = "channel"
        h5.attrs["setup:flow rate"] = 0.04
        h5.attrs["setup:medium"] = "CellCarrier"
        h5.attrs["setup:software version"] = "dclab 0.60.0"
        ev = h5.create_group("events")
        ev["deform"] = np.linspace(0.01, 0.2, n)
        ev["area_um"] = np.linspace(20, 200, n)
        ev["index"] = np.arange(1, n + 1, dtype=np.uint32)


def main():
    warnings.simplefilter("ignore")
    td = pathlib.Path(tempfile.mkdtemp(prefix="bug3_"))
    p_basin = td / "basin.rtdc"
    make_basin(p_basin)
    p_in = td / "in.rtdc"
    with dclab.new_dataset(p_basin) as ds:
        ds.filter.manual[1::2] = False
        ds.apply_filter()
        ds.export.hdf5(p_in, features=["deform"], filtered=True, basins=True)
    p_out = td / "out.rtdc"
    condense(p_in, p_out)
    with dclab.new_dataset(p_in) as a, dclab.new_dataset(p_out) as b:
        assert "index" in a.features_basin
        fails = []
        for feat in a.features_scalar:
            x = np.array(a[feat][:])
            if feat not in b:
                fails.append(f"{feat} missing")
            elif not np.array_equal(x, np.array(b[feat][:]), equal_nan=True):
                fails.append(f"{feat}: input {x.tolist()} vs condensed "
                             f"{np.array(b[feat][:]).tolist()}")
    if fails:
        print("FAIL: condense changed scalar feature(s): " + "; ".join(fails))
        return 1
    print("PASS")
    return 0


if __name__ == "__main__":
    sys.exit(main())
