"""compress / repack crash on a measurement with zero events

`h5ds_copy` returns None for an empty, not-yet-compressed dataset
("Ignore empty datasets"), contradicting its documented return value.
`rtdc_copy` then accesses `dst.attrs` for every scalar feature
-> AttributeError.  (If the empty dataset is already Zstd-compressed, the
`np.nanmin(dst)` a few lines later raises ValueError instead.)  An aborted
recording with zero events (datasets of shape (0,)) can therefore be neither
compressed nor repacked, although the statement covers empty datasets.
"""
import pathlib
import sys
import tempfile
import warnings

import h5py
import hdf5plugin
import numpy as np

import dclab.rtdc_dataset.writer as w
import dclab.rtdc_dataset.export as e
from dclab.cli import compress, repack

w.version = e.version = "0.60.0"


def make_input(path, **kw):
    with h5py.File(path, "w") as h5:
        h5.attrs["experiment:date"] = "2020-01-01"
        h5.attrs["experiment:event count"] = 0
        h5.attrs["experiment:run index"] = 1
        h5.attrs["experiment:sample"] = "s"
        h5.attrs["experiment:time"] = "12:00:00"
        h5.attrs["imaging:pixel size"] = 0.34
        h5.attrs["setup:channel width"] = 20.0
        h5.attrs["setup:chip region"] = "channel"
        h5.attrs["setup:flow rate"] = 0.04
        h5.attrs["setup:medium"] = "CellCarrier"
        h5.attrs["setup:software version"] = "ShapeIn 2.2.2.4"
        ev = h5.create_group("events")
        for feat in ["deform", "area_um"]:
            ev.create_dataset(feat, shape=(0,), maxshape=(None,),
                              dtype=np.float64, chunks=(100,), **kw)
        lg = h5.create_group("logs")
        lg.create_dataset("M001_para.ini",
                          data=np.array([b"[General]"], dtype="S100"))


def main():
    warnings.simplefilter("ignore")
    td = pathlib.Path(tempfile.mkdtemp(prefix="bug4_"))
    fails = []
    for layout, kw in [("uncompressed", {}),
                       ("zstd5", dict(hdf5plugin.Zstd(clevel=5)))]:
        p_in = td / f"in_{layout}.rtdc"
        make_input(p_in, **kw)
        for task in [compress, repack]:
            p_out = td / f"out_{layout}_{task.__name__}.rtdc"
            try:
                task(p_in, p_out)
                with h5py.File(p_out) as h5:
                    assert "M001_para.ini" in h5["logs"]
            except BaseException as exc:
                fails.append(f"{task.__name__}({layout}): "
                             f"{type(exc).__name__}: {exc}")
    if fails:
        print("FAIL: zero-event file cannot be processed: "
              + " | ".join(fails))
        return 1
    print("PASS")
    return 0


if __name__ == "__main__":
    sys.exit(main())
