"""dclab-repack --strip-logs silently drops a valid feature

`rtdc_copy` decides on the *input* file whether a stored feature is
defective (feat_defect.py).  For "volume" the marker log "dclab_issue_141"
certifies that the stored data were fixed.  With strip_logs=True the feature
is copied but the certifying log is not, so the output file (same software
version string, repack does not brand) now classifies its own "volume" as
defective and dclab hides it: the feature is gone although only the logs
were to be stripped.
"""
import pathlib
import sys
import tempfile

import h5py
import numpy as np

import dclab
import dclab.rtdc_dataset.writer as w
import dclab.rtdc_dataset.export as e
from dclab.cli import repack

w.version = e.version = "0.60.0"


def make_input(path, n=10):
    with h5py.File(path, "w") as h5:
        h5.attrs["experiment:date"] = "2020-01-01"
        h5.attrs["experiment:event count"] = n
        h5.attrs["experiment:run index"] = 1
        h5.attrs["experiment:sample"] = "s"
        h5.attrs["experiment:time"] = "12:00:00"
        h5.attrs["imaging:pixel size"] = 0.34
        h5.attrs["setup:channel width"] = 20.0
        h5.attrs["setup:chip region"] = "channel"
        h5.attrs["setup:flow rate"] = 0.04
        h5.attrs["setup:medium"] = "CellCarrier"
        # file was written by an old dclab (volume bug, issue 141) ...
        h5.attrs["setup:software version"] = "dclab 0.36.0"
        ev = h5.create_group("events")
        ev["deform"] = np.linspace(0.01, 0.2, n)
        ev["area_um"] = np.linspace(20, 200, n)
        ev["volume"] = np.linspace(100, 200, n)
        # ... and later repaired by the official fix script, which leaves
        # this log as the marker that "volume" is valid
        lg = h5.create_group("logs")
        lg.create_dataset("dclab_issue_141",
                          data=np.array([b"volume fixed"], dtype="S100"))


def main():
    td = pathlib.Path(tempfile.mkdtemp(prefix="bug1_"))
    p_in = td / "in.rtdc"
    p_out = td / "out.rtdc"
    make_input(p_in)
    repack(p_in, p_out, strip_logs=True)

    with dclab.new_dataset(p_in) as ds_in, dclab.new_dataset(p_out) as ds_out:
        f_in = sorted(ds_in.features)
        f_out = sorted(ds_out.features)
        if "volume" not in ds_in:
            print("PASS (precondition not met?)")
            return 0
        if "volume" not in ds_out:
            print("FAIL: repack(strip_logs=True) lost feature 'volume': "
                  f"input features {f_in}, output features {f_out}")
            return 1
        if not np.array_equal(ds_in["volume"][:], ds_out["volume"][:]):
            print("FAIL: volume differs")
            return 1
    print("PASS")
    return 0


if __name__ == "__main__":
    sys.exit(main())
