"""downsample_rand / downsample_grid cast `samples` to a C uint32
(`np.uint32(samples)`). Requests >= 2**32 (legitimate "more than available"
requests) are either silently wrapped modulo 2**32 (numpy integer input ->
only a handful of events returned instead of all) or raise OverflowError
(python int; also via the "limit events" filter)."""
import sys
import warnings

import numpy as np

import dclab
from dclab import downsampling

warnings.simplefilter("ignore")
a = np.linspace(0, 1, 1000)
b = a ** 2 + np.sin(a)
problems = []

big = np.int64(2 ** 32 + 5)   # much larger than the data -> "all events"
try:
    dsa, idx = downsampling.downsample_rand(a, big, ret_idx=True)
    if idx.sum() != a.size:
        problems.append(f"downsample_rand(samples=2**32+5 as np.int64) "
                        f"returned {idx.sum()} of {a.size} events")
except Exception as exc:
    problems.append(f"downsample_rand raised {type(exc).__name__}")
try:
    xa, xb, idx = downsampling.downsample_grid(a, b, big, remove_invalid=True,
                                               ret_idx=True)
    if idx.sum() != a.size:
        problems.append(f"downsample_grid(samples=2**32+5 as np.int64) "
                        f"returned {idx.sum()} of {a.size} events")
except Exception as exc:
    problems.append(f"downsample_grid raised {type(exc).__name__}")

# event-limit filter with a limit larger than the data
ds = dclab.new_dataset({"deform": a, "area_um": b})
ds.config["filtering"]["limit events"] = 2 ** 32 + 5
try:
    ds.apply_filter()
    if ds.filter.all.sum() != len(ds):
        problems.append(f"limit events=2**32+5 kept {ds.filter.all.sum()} "
                        f"of {len(ds)} events")
except Exception as exc:
    problems.append(f"apply_filter with 'limit events'=2**32+5 raised "
                    f"{type(exc).__name__}: {exc}")

if problems:
    print("FAIL: `samples` is truncated to uint32: " + " | ".join(problems))
    sys.exit(1)
print("PASS")
