"""norm() in dclab/downsampling.pyx computes `a.max() - a.min()` in the dtype
of the data; for integer features (e.g. int16 fluorescence maxima as stored in
HDF5 files) this wraps around, the grid indices become garbage and
downsample_grid / RTDCBase.get_downsampled_scatter raise IndexError."""
import pathlib
import sys
import tempfile
import warnings

import h5py
import numpy as np

import dclab
from dclab import downsampling
import dclab.rtdc_dataset.writer as w
import dclab.rtdc_dataset.export as e

w.version = e.version = "0.60.0"
warnings.simplefilter("ignore")

rng = np.random.RandomState(42)
N = 2000
fl1 = rng.normal(0, 12000, N).clip(-32000, 32000).astype(np.int16)
fl2 = rng.normal(0, 12000, N).clip(-32000, 32000).astype(np.int16)
problems = []

# 1. function level
try:
    asd, bsd, idx = downsampling.downsample_grid(fl1, fl2, 100,
                                                 remove_invalid=True,
                                                 ret_idx=True)
    if idx.sum() != 100 or not np.array_equal(fl1[idx], asd):
        problems.append("downsample_grid(int16): wrong selection")
except Exception as exc:
    problems.append(f"downsample_grid(int16 arrays, samples=100) raised "
                    f"{type(exc).__name__}: {exc}")

# 2. dataset level: an .rtdc file with int16 features
path = pathlib.Path(tempfile.mkdtemp()) / "int16.rtdc"
with w.RTDCWriter(path) as hw:
    hw.store_metadata({
        "experiment": {"sample": "x", "run index": 1},
        "imaging": {"pixel size": 0.34},
        "setup": {"channel width": 20, "chip region": "channel",
                  "flow rate": 0.04, "medium": "CellCarrier"}})
    hw.store_feature("deform", rng.uniform(0, .2, N))
    hw.store_feature("area_um", rng.normal(100, 10, N))
with h5py.File(path, "a") as h5:
    h5["events/fl1_max"] = fl1
    h5["events/fl2_max"] = fl2

with dclab.new_dataset(path) as ds:
    for xax, yax in [("fl1_max", "deform"), ("fl1_max", "fl2_max")]:
        try:
            x, y, mask = ds.get_downsampled_scatter(
                xax, yax, downsample=100, remove_invalid=True, ret_mask=True)
            if mask.sum() != 100 or not np.array_equal(ds[xax][:][mask], x):
                problems.append(f"scatter {xax}/{yax}: wrong selection")
        except Exception as exc:
            problems.append(f"get_downsampled_scatter({xax}, {yax}, "
                            f"downsample=100) raised "
                            f"{type(exc).__name__}: {exc}")

if problems:
    print("FAIL: integer-typed data (range > dtype max) breaks grid "
          "downsampling: " + " | ".join(problems))
    sys.exit(1)
print("PASS")
