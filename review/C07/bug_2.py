"""The feature kinds "trace" (dict of 2D arrays) and stored "contour" (ragged)
cannot be obtained through a *mapped* basin: BasinProxyFeature treats every
feature as a plain nD array (indexes `basinmap[key]`, `np.empty(shape)`).
`ds["trace"]["fl1_raw"]` raises IndexError and slicing `ds["contour"]` raises
TypeError, although the same features work through an unmapped basin.
"""
import pathlib
import sys
import tempfile
import warnings

import numpy as np

import dclab
import dclab.rtdc_dataset.writer as w
import dclab.rtdc_dataset.export as e
from dclab import RTDCWriter, new_dataset

w.version = e.version = "0.60.0"
warnings.simplefilter("ignore")

td = pathlib.Path(tempfile.mkdtemp(prefix="bug2_"))
n = 20
rng = np.random.default_rng(0)
trace = rng.integers(0, 100, size=(n, 30)).astype(np.int16)
contours = [np.array([[1, 1], [1, 2 + i], [3, 2 + i], [3, 1]], dtype=int)
            for i in range(n)]

pa = td / "A.rtdc"
with RTDCWriter(pa, mode="reset") as hw:
    hw.store_metadata({"experiment": {"sample": "s", "run index": 1,
                                      "run identifier": "orig-run"},
                       "imaging": {"pixel size": 0.34},
                       "setup": {"channel width": 20.}})
    hw.store_feature("deform", np.linspace(0, 1, n))
    hw.store_feature("trace", {"fl1_raw": trace})
    hw.store_feature("contour", contours)

keep = np.ones(n, dtype=bool)
keep[::3] = False
idx = np.where(keep)[0]
with new_dataset(pa) as ds:
    ds.filter.manual[:] = keep
    ds.apply_filter()
    # mapped basin (filtered) and unmapped basin (unfiltered)
    ds.export.hdf5(td / "B_mapped.rtdc", features=[], basins=True)
    ds.export.hdf5(td / "B_same.rtdc", features=[], basins=True,
                   filtered=False)

# sanity: works with an unmapped basin
with new_dataset(td / "B_same.rtdc") as b:
    assert np.array_equal(b["trace"]["fl1_raw"][:], trace)
    assert all(np.array_equal(c, r) for c, r in zip(b["contour"][:], contours))

problems = []
with new_dataset(td / "B_mapped.rtdc") as b:
    assert "trace" in b.features_basin and "contour" in b.features_basin
    try:
        got = b["trace"]["fl1_raw"][:]
        if not np.array_equal(got, trace[idx]):
            problems.append("trace data differ")
    except BaseException as ex:
        problems.append(f"trace: {type(ex).__name__}: {ex}")
    try:
        got = b["contour"][1:4]
        if not all(np.array_equal(c, contours[i])
                   for c, i in zip(got, idx[1:4])):
            problems.append("contour data differ")
    except BaseException as ex:
        problems.append(f"contour slice: {type(ex).__name__}: {ex}")

if problems:
    print("FAIL: trace/contour not accessible through a mapped basin: "
          + " | ".join(problems))
    sys.exit(1)
print("PASS")
