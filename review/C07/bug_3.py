"""Filtered export with basins from an origin that has no measurement
identifier (no "run identifier" and no date/time/setup identifier):
`Export.hdf5` writes the run identifier f"{None}-xxxx" ("None-ab12") to the
new file, and `Basin.verify_basin` then rejects the origin (referrer has an
identifier, basin has none). The exported file silently loses all basin
features (KeyError), while the unfiltered export of the same data works.
"""
import pathlib
import sys
import tempfile
import warnings

import numpy as np

import dclab
import dclab.rtdc_dataset.writer as w
import dclab.rtdc_dataset.export as e
from dclab import RTDCWriter, new_dataset

w.version = e.version = "0.60.0"
warnings.simplefilter("ignore")

td = pathlib.Path(tempfile.mkdtemp(prefix="bug3_"))
n = 20
deform = np.linspace(0, 1, n)
pa = td / "A.rtdc"
with RTDCWriter(pa, mode="reset") as hw:
    hw.store_metadata({"experiment": {"sample": "s", "run index": 1},
                       "imaging": {"pixel size": 0.34},
                       "setup": {"channel width": 20.}})
    hw.store_feature("deform", deform)
    hw.store_feature("area_um", np.linspace(10, 100, n))

keep = np.ones(n, dtype=bool)
keep[::2] = False
with new_dataset(pa) as ds:
    assert ds.get_measurement_identifier() is None
    ds.filter.manual[:] = keep
    ds.apply_filter()
    ds.export.hdf5(td / "B_unfiltered.rtdc", features=[], basins=True,
                   filtered=False)
    ds.export.hdf5(td / "B_filtered.rtdc", features=[], basins=True)

# the unfiltered export can see the origin's data
with new_dataset(td / "B_unfiltered.rtdc") as b:
    assert np.array_equal(b["deform"][:], deform)

with new_dataset(td / "B_filtered.rtdc") as b:
    rid = b.config["experiment"].get("run identifier")
    try:
        got = b["deform"][:]
    except BaseException as ex:
        print(f"FAIL: filtered export got run identifier '{rid}' and its "
              f"basin to the identifier-less origin is rejected: "
              f"{type(ex).__name__}: features={b.features}")
        sys.exit(1)
    if not np.array_equal(got, deform[keep]):
        print("FAIL: basin data differ")
        sys.exit(1)
print("PASS")
