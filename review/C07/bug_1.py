"""Non-scalar features obtained through a *mapped* basin report the shape of
the origin (BasinProxyFeature.shape/size are forwarded to the origin feature)
instead of the mapped shape. `Export.hdf5` (unfiltered, or filtered with an
all-True filter) and `RTDCWriter.write_ndarray` trust `data.shape`, so a
re-export of such a feature stores the wrong number of events (zero-padded
for subsets) or crashes (supersets / internal basins such as image_bg).
"""
import pathlib
import sys
import tempfile
import warnings

import numpy as np

import dclab
import dclab.rtdc_dataset.writer as w
import dclab.rtdc_dataset.export as e
from dclab import RTDCWriter, new_dataset

w.version = e.version = "0.60.0"
warnings.simplefilter("ignore")

td = pathlib.Path(tempfile.mkdtemp(prefix="bug1_"))
n = 30
rng = np.random.default_rng(0)
image = rng.integers(0, 255, size=(n, 10, 20), dtype=np.uint8)
meta = {"experiment": {"sample": "s", "run index": 1,
                       "run identifier": "orig-run"},
        "imaging": {"pixel size": 0.34},
        "setup": {"channel width": 20.}}

# origin A
pa = td / "A.rtdc"
with RTDCWriter(pa, mode="reset") as hw:
    hw.store_metadata(meta)
    hw.store_feature("deform", np.linspace(0, 1, n))
    hw.store_feature("image", image)

# B: filtered export of A without stored features (mapped basin, subset)
keep = np.ones(n, dtype=bool)
keep[::3] = False
idx = np.where(keep)[0]
with new_dataset(pa) as ds:
    ds.filter.manual[:] = keep
    ds.apply_filter()
    ds.export.hdf5(td / "B.rtdc", features=[], basins=True)

problems = []
with new_dataset(td / "B.rtdc") as b:
    feat = b["image"]
    if not np.array_equal(feat[:], image[idx]):
        problems.append("B['image'][:] differs from origin")
    if tuple(feat.shape) != (len(idx), 10, 20):
        problems.append(f"B['image'].shape is {tuple(feat.shape)}, expected "
                        f"{(len(idx), 10, 20)} (len(B)={len(b)})")
    # C: unfiltered export of B, this time storing the image
    b.export.hdf5(td / "C.rtdc", features=["image"], filtered=False,
                  basins=True)

with new_dataset(td / "C.rtdc") as c:
    got = c["image"][:]
    if got.shape != image[idx].shape or not np.array_equal(got, image[idx]):
        problems.append(f"C (export of B) stores image with shape "
                        f"{got.shape}, expected {image[idx].shape}; "
                        f"len(C)={len(c)}")

# internal basin with shared rows (typical image_bg use case)
pp = td / "P.rtdc"
bmap = rng.integers(0, 5, size=n)
bg = rng.integers(0, 255, size=(5, 10, 20), dtype=np.uint8)
with RTDCWriter(pp, mode="reset") as hw:
    hw.store_metadata(meta)
    hw.store_feature("deform", np.linspace(0, 1, n))
    hw.store_basin(basin_name="bg", basin_type="internal",
                   basin_format="h5dataset", basin_locs=["basin_events"],
                   basin_feats=["image_bg"], basin_map=bmap,
                   internal_data={"image_bg": bg})
with new_dataset(pp) as p:
    assert np.array_equal(p["image_bg"][:], bg[bmap])
    try:
        p.export.hdf5(td / "Q.rtdc", features=["image_bg"], filtered=False)
    except BaseException as ex:
        problems.append(f"export of internal-basin image_bg crashed: "
                        f"{type(ex).__name__}: {ex}")
    else:
        with new_dataset(td / "Q.rtdc") as q:
            if not np.array_equal(q["image_bg"][:], bg[bmap]):
                problems.append("exported image_bg differs")

if problems:
    print("FAIL: mapped-basin nD feature reports origin shape; re-export is "
          "wrong: " + " | ".join(problems))
    sys.exit(1)
print("PASS")
