"""Precedence of stored features is lost by an export with basins.

File B stores its own "deform" and refers to origin A (which also has
"deform") as a basin; B["deform"] correctly returns B's stored data. When B
is exported with `basins=True` (deform not stored in the output), `Export.hdf5`
copies B's upstream basin A *with its complete feature list* next to the new
basin pointing to B. Both basins get the same mapping, hence the same
priority, and their order is decided by the hash-named HDF5 keys. Depending
on that order the exported file returns A's "deform" instead of B's.
"""
import pathlib
import sys
import tempfile
import warnings

import numpy as np

import dclab
import dclab.rtdc_dataset.writer as w
import dclab.rtdc_dataset.export as e
from dclab import RTDCWriter, new_dataset

w.version = e.version = "0.60.0"
warnings.simplefilter("ignore")

td = pathlib.Path(tempfile.mkdtemp(prefix="bug4_"))
n = 30
meta = {"experiment": {"sample": "s", "run index": 1,
                       "run identifier": "orig-run"},
        "imaging": {"pixel size": 0.34},
        "setup": {"channel width": 20.}}
pa = td / "A.rtdc"
with RTDCWriter(pa, mode="reset") as hw:
    hw.store_metadata(meta)
    hw.store_feature("deform", np.linspace(0, 1, n))
    hw.store_feature("area_um", np.linspace(10, 100, n))

deform_b = np.arange(n) + 100.
keep = np.ones(n, dtype=bool)
keep[::3] = False

bad = []
for trial in range(8):
    pb = td / f"B{trial}.rtdc"
    with RTDCWriter(pb, mode="reset") as hw:
        hw.store_metadata(meta)
        hw.store_feature("deform", deform_b)
        hw.store_basin(basin_name=f"origin {trial}", basin_type="file",
                       basin_format="hdf5", basin_locs=[pa])
    with new_dataset(pb) as b:
        # stored feature takes precedence in B itself
        assert np.array_equal(b["deform"][:], deform_b)
        assert np.array_equal(b["area_um"][:], np.linspace(10, 100, n))
        b.filter.manual[:] = keep
        b.apply_filter()
        b.export.hdf5(td / f"C{trial}.rtdc", features=[], basins=True)
        b.export.hdf5(td / f"D{trial}.rtdc", features=[], basins=True,
                      filtered=False)
    for name, exp in [(f"C{trial}", deform_b[keep]), (f"D{trial}", deform_b)]:
        with new_dataset(td / f"{name}.rtdc") as c:
            if not np.array_equal(c["deform"][:], exp):
                bad.append(name)

if bad:
    print(f"FAIL: {len(bad)}/16 exports of B return the origin's 'deform' "
          f"instead of the 'deform' stored in B (basin order decided by "
          f"hash): {bad}")
    sys.exit(1)
print("PASS")
