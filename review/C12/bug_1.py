"""KDE type "multivariate" evaluated at exactly two explicit positions

get_kde_scatter(kde_type="multivariate", positions=[px, py]) must return the
product-kernel (Gaussian) density estimate of the filtered events at the
points (px[i], py[i]). With exactly two positions the (2, 2) position array
is not transposed in dclab/external/statsmodels/nonparametric/
_kernel_base._adjust_shape (called from KDEMultivariate.pdf), so the
estimate is evaluated at (px[0], px[1]) and (py[0], py[1]) instead.
"""
import sys
import warnings

import numpy as np
import dclab
from dclab import kde_methods

warnings.simplefilter("ignore")

rng = np.random.default_rng(42)
N = 500
x = rng.normal(100, 20, N)
y = np.abs(rng.normal(0.05, 0.02, N)) + 1e-3
# excluded events carry absurd values
x[::5] = 1e5
ds = dclab.new_dataset({"area_um": x, "deform": y})
ds.config["filtering"]["area_um min"] = 0
ds.config["filtering"]["area_um max"] = 1000
ds.apply_filter()
sel = ds.filter.all
xe, ye = x[sel], y[sel]


def reference(px, py):
    """product kernel estimator with dclab's default bandwidth"""
    bx = kde_methods.bin_width_doane(xe) / 2
    by = kde_methods.bin_width_doane(ye) / 2
    out = []
    for a, b in zip(px, py):
        k = np.exp(-(xe - a)**2 / (2 * bx**2)) \
            * np.exp(-(ye - b)**2 / (2 * by**2))
        out.append(np.mean(k) / (2 * np.pi * bx * by))
    return np.array(out)


px3 = np.array([90., 100., 110.])
py3 = np.array([0.04, 0.05, 0.06])

ok = True
msg = ""
for npos in [1, 3, 2]:
    px, py = px3[:npos], py3[:npos]
    dens = ds.get_kde_scatter(xax="area_um", yax="deform",
                              positions=[px, py], kde_type="multivariate")
    ref = reference(px, py)
    if not (dens.shape == ref.shape and np.allclose(dens, ref, rtol=1e-8)):
        ok = False
        msg = (f"multivariate KDE at {npos} explicit positions is {dens}, "
               f"product-kernel reference is {ref}")

if ok:
    print("PASS")
    sys.exit(0)
else:
    print("FAIL: " + msg)
    sys.exit(1)
