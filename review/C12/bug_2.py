"""The "Mode" statistic is shifted by half a bin

dclab.statistics.mode bins the data with the Freedman-Diaconis bin size
and is meant to return the centre of the most populated bin.  The data are
binned with np.round(data / bin_size) * bin_size, which already is the bin
centre, but bin_size / 2 is added on top ("we want the center of the bin and
not the left corner" - true for floor, not for round).  The reported mode is
therefore the upper edge of the modal bin.  Here the selected events are
integers, the bin size is exactly 1 and the most frequent value is 1, but the
reported mode is 1.5 (a value that no event has and that is not the centre
of any bin).
"""
import sys
import warnings

import numpy as np
import dclab
from dclab import statistics

warnings.simplefilter("ignore")

# selected events: n=8, IQR=1 -> Freedman-Diaconis bin size 2*1/8**(1/3) = 1
sel_vals = np.array([0, 1, 1, 1, 1, 2, 2, 3], dtype=float)
n = sel_vals.size
iqr = np.percentile(sel_vals, 75) - np.percentile(sel_vals, 25)
bin_size = 2 * iqr / n**(1 / 3)
assert bin_size == 1

# interleave with excluded events
vals = np.concatenate([sel_vals, np.full(8, 77.)])
area = np.concatenate([np.linspace(50, 60, 8), np.full(8, 500.)])
ds = dclab.new_dataset({"fl1_npeaks": vals, "area_um": area})
ds.config["filtering"]["area_um min"] = 0
ds.config["filtering"]["area_um max"] = 100
ds.apply_filter()
assert np.sum(ds.filter.all) == 8

head, values = statistics.get_statistics(ds, methods=["Mode"],
                                         features=["fl1_npeaks"])
mode = values[0]

# reference: centre of the most populated bin of width `bin_size`
centres = np.round(sel_vals / bin_size) * bin_size
u, cnt = np.unique(centres, return_counts=True)
ref = u[np.argmax(cnt)]  # 1.0 (4 of 8 events)

if np.isclose(mode, ref):
    print("PASS")
    sys.exit(0)
else:
    print(f"FAIL: Mode of the selected values {sel_vals.tolist()} "
          f"(bin size {bin_size}) is reported as {mode}, the most populated "
          f"bin is centred at {ref}")
    sys.exit(1)
