"""get_kde_contour crashes if the filter selects no (or only one/two) events

get_kde_scatter returns an empty density for an empty selection and
get_kde_contour has the same `if len(x): ... else: density = np.array([])`
branch, but it is unreachable: before that, RTDCBase.get_kde_contour
computes `xc.max() - xc.min()` of the empty selection (ValueError) and, for
one or two selected events, `int(np.ceil(nan))` from the undefined Doane
bin width (ValueError) - even if xacc and yacc are given explicitly.
"""
import sys
import warnings

import numpy as np
import dclab

warnings.simplefilter("ignore")

rng = np.random.default_rng(42)
N = 100
ds = dclab.new_dataset({"area_um": rng.normal(100, 20, N),
                        "deform": rng.uniform(0.01, 0.1, N)})
ds.config["filtering"]["area_um min"] = 5000
ds.config["filtering"]["area_um max"] = 6000
ds.apply_filter()
assert np.sum(ds.filter.all) == 0

# scatter works for the empty selection
assert ds.get_kde_scatter(kde_type="histogram").size == 0

try:
    X, Y, Z = ds.get_kde_contour(kde_type="histogram", xacc=1, yacc=0.01)
except BaseException as exc:
    print(f"FAIL: get_kde_contour with an empty selection raises {exc!r}")
    sys.exit(1)

if np.size(Z) == 0:
    print("PASS")
    sys.exit(0)
else:
    print("FAIL: contour density of an empty selection is not empty")
    sys.exit(1)
