"""join() with inputs whose "trace" feature holds different trace keys:
"trace" counts as common feature, but the per-key datasets are appended
independently, so a key missing in one input yields a shorter, misaligned
trace array in the output (events of input 3 land at the rows of input 2)."""
import pathlib
import sys
import tempfile

import numpy as np

import dclab
import dclab.rtdc_dataset.writer as w
import dclab.rtdc_dataset.export as e
from dclab.rtdc_dataset import RTDCWriter
from dclab.cli import join

w.version = e.version = "0.60.0"  # untagged checkout artefact

td = pathlib.Path(tempfile.mkdtemp())


def make(name, n, time, trace_keys, fill):
    path = td / name
    with RTDCWriter(path, mode="reset") as hw:
        hw.store_metadata({
            "experiment": {"date": "2020-01-01", "time": time,
                           "run index": 1, "sample": "test",
                           "event count": n},
            "imaging": {"frame rate": 2000.0},
            "fluorescence": {"samples per event": 20,
                             "sample rate": 312500}})
        hw.store_feature("deform", np.linspace(0.01, 0.1, n))
        hw.store_feature("frame", np.arange(1, n + 1))
        hw.store_feature("trace", {
            k: np.full((n, 20), fill, dtype=np.int16) for k in trace_keys})
    return path


# second measurement was recorded with one fluorescence channel only
p1 = make("m1.rtdc", 5, "12:00:00", ["fl1_raw", "fl2_raw"], fill=1)
p2 = make("m2.rtdc", 4, "12:00:10", ["fl1_raw"], fill=2)
p3 = make("m3.rtdc", 3, "12:00:20", ["fl1_raw", "fl2_raw"], fill=3)

out = join([p1, p2, p3], td / "out.rtdc", ret_path=True)

problems = []
with dclab.new_dataset(out) as ds:
    n = len(ds["deform"])
    source = np.array([1] * 5 + [2] * 4 + [3] * 3)
    if "trace" in ds.features_innate:
        for key in ds["trace"].keys():
            tr = np.array(ds["trace"][key][:])
            if len(tr) != n:
                problems.append(
                    f"trace '{key}' has {len(tr)} rows for {n} events")
            m = min(len(tr), n)
            bad = np.where(tr[:m, 0] != source[:m])[0]
            if bad.size:
                problems.append(
                    f"trace '{key}' row {bad[0]} stems from input "
                    f"{tr[bad[0], 0]} but event {bad[0]} from input "
                    f"{source[bad[0]]}")

if problems:
    print("FAIL: joined trace data inconsistent: " + "; ".join(problems))
    sys.exit(1)
print("PASS")
