"""join() appends the data of later inputs to the HDF5 datasets created from
the first input and thereby silently casts them to the first input's dtype.
With "time" stored as float32 (as Shape-In does), the acquisition offset
destroys the time resolution of all later inputs; an integer-typed feature
in the first input truncates float values of later inputs."""
import pathlib
import sys
import tempfile

import numpy as np

import dclab
import dclab.rtdc_dataset.writer as w
import dclab.rtdc_dataset.export as e
from dclab.rtdc_dataset import RTDCWriter
from dclab.cli import join

w.version = e.version = "0.60.0"  # untagged checkout artefact

td = pathlib.Path(tempfile.mkdtemp())
fr = 2000.0


def make(name, date, time, n, userdef):
    path = td / name
    frame = np.arange(1, n + 1) * 2
    with RTDCWriter(path, mode="reset") as hw:
        hw.store_metadata({
            "experiment": {"date": date, "time": time, "run index": 1,
                           "sample": "test", "event count": n},
            "imaging": {"frame rate": fr}})
        hw.store_feature("deform", np.linspace(0.01, 0.1, n))
        # float32 time like in files written by Shape-In (1 ms spacing);
        # no "frame" feature, so dclab cannot recompute "time" and uses
        # the stored data
        hw.store_feature("time", np.array(frame / fr, dtype=np.float32))
        hw.store_feature("userdef1", userdef)
    return path


n = 8
p1 = make("day1.rtdc", "2020-01-01", "12:00:00", n,
          np.arange(n, dtype=np.int32))
p2 = make("day2.rtdc", "2020-01-02", "12:00:00.5", n,
          np.arange(n) + 0.5)
offset = 86400.5

with dclab.new_dataset(p2) as ds:
    t2 = np.array(ds["time"][:], dtype=np.float64)
    u2 = np.array(ds["userdef1"][:], dtype=np.float64)

out = join([p2, p1], td / "out.rtdc", ret_path=True)

problems = []
with dclab.new_dataset(out) as ds:
    tj = np.array(ds["time"][:], dtype=np.float64)[n:]
    uj = np.array(ds["userdef1"][:], dtype=np.float64)[n:]
    err = np.max(np.abs(tj - (t2 + offset)))
    # the inputs resolve 1 ms; allow a tenth of that
    if err > 1e-4:
        problems.append(
            f"time of 2nd input off by up to {err:.4f}s "
            f"(distinct values: {np.unique(tj).size} of {n}, "
            f"dtype {ds['time'].dtype})")
    if not np.array_equal(uj, u2):
        problems.append(f"userdef1 of 2nd input {u2.tolist()} became "
                        f"{uj.tolist()}")

if problems:
    print("FAIL: join casts later inputs to dtype of first input: "
          + "; ".join(problems))
    sys.exit(1)
print("PASS")
