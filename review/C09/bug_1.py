"""split() crashes with KeyError for a measurement without the optional
metadata key [experiment]:"sample" (it is read unconditionally after all
part files were exported); no output files are produced (only *.rtdc~)."""
import pathlib
import sys
import tempfile

import numpy as np

import dclab
import dclab.rtdc_dataset.writer as w
import dclab.rtdc_dataset.export as e
from dclab.rtdc_dataset import RTDCWriter
from dclab.cli import split

w.version = e.version = "0.60.0"  # untagged checkout artefact

td = pathlib.Path(tempfile.mkdtemp())
n = 10
path = td / "orig.rtdc"
with RTDCWriter(path, mode="reset") as hw:
    hw.store_metadata({
        "experiment": {"date": "2020-01-01", "time": "12:00:00",
                       "run index": 1, "event count": n},
        "imaging": {"frame rate": 2000.0}})
    hw.store_feature("deform", np.linspace(0.01, 0.1, n))
    hw.store_feature("frame", np.arange(1, n + 1))

with dclab.new_dataset(path) as ds:
    assert len(ds) == n  # the measurement itself is fine

try:
    parts = split(path, td / "parts", split_events=4, ret_out_paths=True)
except Exception as exc:
    print(f"FAIL: split of a measurement without sample name raised "
          f"{exc.__class__.__name__}: {exc}")
    sys.exit(1)

frames = []
for pp in parts:
    with dclab.new_dataset(pp) as ds:
        assert len(ds) <= 4
        frames += list(ds["frame"][:])
if frames != list(range(1, n + 1)):
    print("FAIL: events lost or reordered")
    sys.exit(1)
print("PASS")
