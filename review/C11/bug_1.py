"""[qpi]: 'scale to filter' (documented type: bool or float): a float given
as text is normalised to a boolean, e.g. "0.5" -> True.  This also destroys
the value when a configuration is saved to / loaded from a configuration file.
"""
import pathlib
import sys
import tempfile
import warnings

from dclab.rtdc_dataset.config import Configuration

warnings.simplefilter("ignore")
problems = []

# route 1: item assignment with a numeric string
cfg = Configuration()
cfg["qpi"]["scale to filter"] = 0.5
ref = cfg["qpi"]["scale to filter"]          # 0.5 (float)
cfg["qpi"]["scale to filter"] = "0.5"
got = cfg["qpi"]["scale to filter"]
if type(got) is not type(ref) or got != ref:
    problems.append(f"item assignment '0.5' -> {got!r}, expected {ref!r}")

# route 2: update
cfg2 = Configuration()
cfg2.update({"qpi": {"scale to filter": "1.5"}})
got = cfg2["qpi"]["scale to filter"]
if got != 1.5:
    problems.append(f"update '1.5' -> {got!r}, expected 1.5")

# route 3: configuration file written by dclab itself
td = pathlib.Path(tempfile.mkdtemp())
cfg3 = Configuration()
cfg3["qpi"]["scale to filter"] = 0.5
cfg3.save(td / "cfg.txt")
cfg4 = Configuration(files=[td / "cfg.txt"])
got = cfg4["qpi"]["scale to filter"]
if got != 0.5 or isinstance(got, bool):
    problems.append(f"save/load of 0.5 -> {got!r}")

if problems:
    print("FAIL: fboolorfloat turns numeric strings into booleans: "
          + "; ".join(problems))
    sys.exit(1)
print("PASS")
