"""bytes values are not decoded when they are assigned to str-typed
configuration keys: `str` keys store the repr "b'...'" and `lcstr` keys
([setup] 'chip region', 'chip identifier') store a bytes object.  The writer
decodes bytes, so the value read back from the .rtdc file differs from the
stored one.
"""
import pathlib
import sys
import tempfile
import warnings

import numpy as np

import dclab
from dclab.rtdc_dataset.config import Configuration
import dclab.rtdc_dataset.writer as w
import dclab.rtdc_dataset.export as e

w.version = e.version = "0.60.0"  # untagged checkout
warnings.simplefilter("ignore")
problems = []

cfg = Configuration()
cfg["experiment"]["sample"] = b"blood"
cfg["setup"]["chip region"] = b"Channel"
cfg["setup"]["medium"] = np.bytes_(b"CellCarrier")

v = cfg["experiment"]["sample"]
if v != "blood":
    problems.append(f"[experiment] sample = b'blood' stored as {v!r}")
v = cfg["setup"]["medium"]
if v != "CellCarrier":
    problems.append(f"[setup] medium = np.bytes_ stored as {v!r}")
v = cfg["setup"]["chip region"]
if not isinstance(v, str) or v != "channel":
    problems.append(f"[setup] chip region = b'Channel' stored as {v!r} "
                    f"({type(v).__name__}, documented type is str)")

# write the normalised configuration to an .rtdc file and read it back
path = pathlib.Path(tempfile.mkdtemp()) / "test.rtdc"
with w.RTDCWriter(path, mode="reset") as hw:
    hw.store_metadata({"setup": dict(cfg["setup"]),
                       "experiment": dict(cfg["experiment"])})
    hw.store_feature("deform", np.linspace(0.01, 0.02, 5))
with dclab.new_dataset(path) as ds:
    for sec, key in [("setup", "chip region")]:
        a = cfg[sec][key]
        b = ds.config[sec][key]
        if a != b:
            problems.append(f"[{sec}] {key}: stored {a!r}, read back {b!r}")

if problems:
    print("FAIL: bytes values are not normalised to str: "
          + "; ".join(problems))
    sys.exit(1)
print("PASS")
