"""Configuration-file route: the converters of the tuple/array typed keys
([qpi] 'sideband freq', 'focus interval', [online_filter] '... polygon
points') do not accept text.  A configuration file written by
`Configuration.save` therefore cannot be loaded again (ValueError), and there
is no textual form at all with which these keys can be set from a file.
"""
import pathlib
import sys
import tempfile
import warnings

import numpy as np

from dclab.rtdc_dataset.config import Configuration, load_from_file

warnings.simplefilter("ignore")
problems = []
td = pathlib.Path(tempfile.mkdtemp())

cases = [
    ("qpi", "sideband freq", (0.1, 0.25)),
    ("qpi", "focus interval", (-10.0, 10.0)),
    ("online_filter", "area_um,deform polygon points", [[1, 2], [3, 4]]),
]
for ii, (sec, key, val) in enumerate(cases):
    cfg = Configuration()
    cfg[sec][key] = val
    ref = cfg[sec][key]
    pp = td / f"cfg_{ii}.txt"
    cfg.save(pp)
    try:
        cfg2 = Configuration(files=[pp])
        got = cfg2[sec].get(key, "<not stored>")
        if not np.all(np.array(got, dtype=object) == np.array(ref,
                                                              dtype=object)):
            problems.append(f"[{sec}] {key}: {ref!r} -> {got!r}")
    except Exception as exc:
        problems.append(f"[{sec}] {key}: loading the saved file raises "
                        f"{exc.__class__.__name__}: {exc}")

# hand-written variants do not work either
for text in ["(0.1, 0.25)", "[0.1, 0.25]", "0.1, 0.25"]:
    pp = td / "hand.txt"
    pp.write_text(f"[qpi]\nsideband freq = {text}\n")
    try:
        got = load_from_file(pp)["qpi"]["sideband freq"]
        if tuple(got) != (0.1, 0.25):
            problems.append(f"'sideband freq = {text}' -> {got!r}")
    except Exception as exc:
        problems.append(f"'sideband freq = {text}' raises "
                        f"{exc.__class__.__name__}")

if problems:
    print("FAIL: tuple/array typed keys do not survive a configuration "
          "file: " + "; ".join(problems))
    sys.exit(1)
print("PASS")
