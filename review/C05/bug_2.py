"""Young's modulus of an event depends on the other events in the call

A LUT node on the boundary of the LUT support is evaluated once alone and
once as part of a batch (all LUT nodes, px_um=0, LUT's own channel
width/flow rate/viscosity, so no scaling is involved). The property says
that the result for an event is independent of the batch and that it is
NaN only outside the support; at a LUT node it must be the node's emodulus.
"""
import sys
import warnings

import numpy as np
import scipy.spatial as sp

from dclab.features.emodulus import get_emodulus, load_lut

warnings.simplefilter("ignore")

problems = []
for lutid in ["LE-2D-FEM-19", "HE-2D-FEM-22", "HE-3D-FEM-22"]:
    lut, meta = load_lut(lutid)
    kw = dict(medium=meta["fluid_viscosity"], temperature=None,
              visc_model=None, channel_width=meta["channel_width"],
              flow_rate=meta["flow_rate"], px_um=0, lut_data=lutid)
    # all LUT nodes in one call
    batch = get_emodulus(area_um=lut[:, 0], deform=lut[:, 1], **kw)
    # same nodes in reversed order
    batch_r = get_emodulus(area_um=lut[::-1, 0], deform=lut[::-1, 1],
                           **kw)[::-1]
    # the nodes on the convex hull, one call per event
    hv = sp.ConvexHull(lut[:, :2] / lut[:, :2].max(axis=0)).vertices
    single = np.array([get_emodulus(area_um=lut[i:i+1, 0],
                                    deform=lut[i:i+1, 1], **kw)[0]
                       for i in hv])
    for ii, es in zip(hv, single):
        for name, eb in [("batch", batch[ii]), ("reversed batch", batch_r[ii])]:
            if np.isnan(es) != np.isnan(eb):
                problems.append(
                    f"{lutid} node {ii} (area_um={lut[ii, 0]}, "
                    f"deform={lut[ii, 1]}, emodulus={lut[ii, 2]}): "
                    f"alone -> {es}, in {name} -> {eb}")
    for name, arr in [("batch", batch), ("reversed batch", batch_r)]:
        for ii in np.where(np.isnan(arr))[0]:
            problems.append(f"{lutid} LUT node {ii} yields NaN in {name}")

if problems:
    print("FAIL: emodulus of a LUT node depends on the batch / is NaN "
          "inside the support: " + "; ".join(sorted(set(problems))[:4]))
    sys.exit(1)
print("PASS")
