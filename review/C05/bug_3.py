"""Ancillary feature 'emodulus' crashes for a registered volume-deform LUT

get_emodulus supports user LUTs on the volume-deform plane and register_lut
exists to make user LUTs usable for the ancillary feature (via
[calculation] "emodulus lut"). The dataset announces "emodulus" as available,
but accessing it raises AssertionError, because the ancillary-feature
wrapper always passes `area_um` and never `volume`.
"""
import json
import pathlib
import sys
import tempfile
import warnings

import numpy as np

import dclab
from dclab.features.emodulus import get_emodulus, register_lut

warnings.simplefilter("ignore")

# synthetic volume-deform LUT
vv, dd = np.meshgrid(np.linspace(100, 3000, 30), np.linspace(0.001, 0.1, 25))
vv, dd = vv.ravel(), dd.ravel()
lut = np.stack([vv, dd, 0.5 + 1e3 * dd / np.sqrt(vv)], axis=1)
meta = {"channel_width": 20.0, "channel_width_unit": "um",
        "flow_rate": 0.04, "flow_rate_unit": "uL/s",
        "fluid_viscosity": 6.0, "fluid_viscosity_unit": "mPa s",
        "identifier": "hunt-c05-volume-lut"}
path = pathlib.Path(tempfile.mkdtemp()) / "lut_volume.txt"
with path.open("w") as fd:
    fd.write("# test LUT\n#\n# BEGIN METADATA\n")
    for line in json.dumps(meta, indent=2).split("\n"):
        fd.write("# " + line + "\n")
    fd.write("# END METADATA\n#\n# volume [um^3]\tdeform\temodulus [kPa]\n")
    np.savetxt(fd, lut, delimiter="\t")
register_lut(path)

rng = np.random.default_rng(42)
N = 100
volume = rng.uniform(200, 2900, N)
deform = rng.uniform(0.02, 0.09, N)
area_um = rng.uniform(40, 250, N)

expected = get_emodulus(volume=volume, deform=deform, medium=6.0,
                        temperature=None, visc_model=None,
                        channel_width=20., flow_rate=0.04, px_um=0.34,
                        lut_data="hunt-c05-volume-lut")
assert np.sum(~np.isnan(expected)) > 50

ds = dclab.new_dataset({"area_um": area_um, "deform": deform,
                        "volume": volume})
ds.config["setup"]["channel width"] = 20.
ds.config["setup"]["flow rate"] = 0.04
ds.config["imaging"]["pixel size"] = 0.34
ds.config["calculation"]["emodulus lut"] = "hunt-c05-volume-lut"
ds.config["calculation"]["emodulus viscosity"] = 6.0

if "emodulus" not in ds:
    print("FAIL: emodulus not available for a registered volume-deform LUT")
    sys.exit(1)
try:
    emod = ds["emodulus"]
except BaseException as exc:
    print("FAIL: ds['emodulus'] with a registered volume-deform LUT raises "
          f"{exc.__class__.__name__}: {exc}")
    sys.exit(1)
if not np.allclose(emod, expected, equal_nan=True):
    print("FAIL: ds['emodulus'] deviates from get_emodulus(volume=...)")
    sys.exit(1)
print("PASS")
