"""Empty batch: per-event temperature crashes, global temperature works

For zero events the result must be an empty array regardless of whether the
temperature is given globally (float) or per event (empty array).
"""
import sys
import warnings

import numpy as np

from dclab.features.emodulus import get_emodulus

warnings.simplefilter("ignore")

problems = []
for medium, model in [("CellCarrier", "buyukurganci-2022"),
                      ("CellCarrier", "herold-2017"),
                      ("water", "kestin-1978")]:
    kw = dict(area_um=np.array([], dtype=float),
              deform=np.array([], dtype=float),
              medium=medium, visc_model=model, channel_width=20.,
              flow_rate=0.04, px_um=0.34, lut_data="LE-2D-FEM-19")
    ref = get_emodulus(temperature=23.0, **kw)
    assert isinstance(ref, np.ndarray) and ref.size == 0
    try:
        res = get_emodulus(temperature=np.array([], dtype=float), **kw)
    except BaseException as exc:
        problems.append(f"{medium}/{model}: {exc.__class__.__name__}: {exc}")
    else:
        if not (isinstance(res, np.ndarray) and res.size == 0):
            problems.append(f"{medium}/{model}: got {res!r}")

if problems:
    print("FAIL: zero events with per-event temperature do not yield an "
          "empty result (global temperature does): " + problems[0])
    sys.exit(1)
print("PASS")
