"""store_table cannot replace an existing table in "replace" mode

RTDCWriter.store_table calls group.create_dataset(name, ...) unconditionally;
unlike store_feature/store_log it does not delete an existing entry when
mode == "replace", so the call raises ValueError (name already exists) and
the old cells stay in the file.
"""
import pathlib
import sys
import tempfile

import numpy as np

import dclab
import dclab.rtdc_dataset.writer as w
import dclab.rtdc_dataset.export as e
w.version = e.version = "0.60.0"

path = pathlib.Path(tempfile.mkdtemp()) / "t.rtdc"
with dclab.RTDCWriter(path, mode="reset") as hw:
    hw.store_metadata({"experiment": {"sample": "x", "run index": 1}})
    hw.store_feature("deform", np.linspace(0, 1, 5))
    hw.store_log("log", ["old"])
    hw.store_table("tab", {"a": [1, 2, 3], "b": [4, 5, 6]})

err = None
try:
    with dclab.RTDCWriter(path, mode="replace") as hw:
        hw.store_feature("deform", np.linspace(1, 2, 5))  # replaced fine
        hw.store_log("log", ["new"])  # replaced fine
        hw.store_table("tab", {"a": [7.5, 8.5], "b": [9.5, 10.5]})
except BaseException as exc:
    err = exc

with dclab.new_dataset(path) as ds:
    tab = ds.tables["tab"]
    a = np.array(tab["a"]).ravel()
    b = np.array(tab["b"]).ravel()

ok = (err is None and np.array_equal(a, [7.5, 8.5])
      and np.array_equal(b, [9.5, 10.5]))
if ok:
    print("PASS")
    sys.exit(0)
else:
    print(f"FAIL: store_table in 'replace' mode raised {err!r}; "
          f"table column a read back as {a.tolist()}")
    sys.exit(1)
