"""Appended events are silently cast to the dtype of the first write call

RTDCWriter.write_ndarray creates the HDF5 dataset with the dtype of the data
of the *first* call; later calls resize it and assign, so HDF5 converts the
new values lossy (0.5 -> 0, nan -> INT_MIN, 1e300 -> inf) without any error.
"""
import pathlib
import sys
import tempfile

import numpy as np

import dclab
import dclab.rtdc_dataset.writer as w
import dclab.rtdc_dataset.export as e
w.version = e.version = "0.60.0"

path = pathlib.Path(tempfile.mkdtemp()) / "t.rtdc"

# the same feature, split over two append calls
part1 = [0, 1, 2]  # happens to consist of whole numbers
part2 = [0.5, np.nan, 2.25]
a1 = np.array([1.5, 2.5], dtype=np.float32)
a2 = np.array([1.123456789012, 1e300], dtype=np.float64)

with dclab.RTDCWriter(path, mode="reset") as hw:
    hw.store_metadata({"experiment": {"sample": "x", "run index": 1}})
    hw.store_feature("userdef1", part1)
    hw.store_feature("area_um", a1)
with dclab.RTDCWriter(path, mode="append") as hw:
    hw.store_feature("userdef1", part2)
    hw.store_feature("area_um", a2)

with dclab.new_dataset(path) as ds:
    r1 = np.array(ds["userdef1"][:])
    r2 = np.array(ds["area_um"][:])

e1 = np.array(part1 + part2, dtype=float)
e2 = np.concatenate([a1.astype(float), a2])
ok1 = np.array_equal(np.asarray(r1, dtype=float), e1, equal_nan=True)
ok2 = np.array_equal(np.asarray(r2, dtype=float), e2)
if ok1 and ok2:
    print("PASS")
    sys.exit(0)
else:
    print(f"FAIL: appended values changed: userdef1 wrote {e1.tolist()} "
          f"read {r1.tolist()}; area_um wrote {e2.tolist()} read {r2.tolist()}")
    sys.exit(1)
