"""Event count / index wrong when "trace" is the alphabetically first feature

RTDCWriter.rectify_metadata sets "experiment:event count" to
len(h5["events"][sorted(features)[0]]). If that entry is the "trace" *group*,
len() is the number of trace names, not the number of events.
"""
import pathlib
import sys
import tempfile

import numpy as np

import dclab
import dclab.rtdc_dataset.writer as w
import dclab.rtdc_dataset.export as e
w.version = e.version = "0.60.0"

N = 7
path = pathlib.Path(tempfile.mkdtemp()) / "t.rtdc"
trace = np.arange(N * 10, dtype=np.int16).reshape(N, 10)
volume = np.linspace(10, 20, N)

with dclab.RTDCWriter(path, mode="reset") as hw:
    hw.store_metadata({"experiment": {"sample": "x", "run index": 1}})
    hw.store_feature("trace", {"fl1_raw": trace})
    hw.store_feature("volume", volume)

with dclab.new_dataset(path) as ds:
    count = ds.config["experiment"]["event count"]
    length = len(ds)
    index = np.array(ds["index"])
    stored = len(ds["volume"])

ok = (count == N and length == N and stored == N
      and np.array_equal(index, np.arange(1, N + 1)))
if ok:
    print("PASS")
    sys.exit(0)
else:
    print(f"FAIL: wrote {N} events (volume has {stored}), but event count="
          f"{count}, len(ds)={length}, index={index.tolist()}")
    sys.exit(1)
