"""dclab-split cannot recover from an interrupted run: it is the only CLI task
that bypasses common.setup_task_paths, so a temporary file "<stem>_000N.rtdc~"
left behind by a killed/failed run is neither removed nor overridden
(export.hdf5 is called without override=True) and every later run crashes with
OSError instead of producing the requested outputs. compress/condense/repack/
join/tdms2rtdc remove stale temporary files and succeed in the same situation.
"""
import pathlib
import sys
import tempfile
import warnings

import numpy as np

import dclab
import dclab.rtdc_dataset.writer as w
import dclab.rtdc_dataset.export as e
from dclab import RTDCWriter
from dclab.cli import split, compress

w.version = e.version = "0.60.0"
warnings.simplefilter("ignore")


def make(path, n=25):
    with RTDCWriter(path, mode="reset") as hw:
        hw.store_metadata({
            "experiment": {"sample": "s", "run index": 1,
                           "date": "2020-01-01", "time": "12:00:00",
                           "event count": n},
            "imaging": {"flash device": "LED", "flash duration": 2.0,
                        "frame rate": 2000.0, "pixel size": 0.34,
                        "roi position x": 1, "roi position y": 1,
                        "roi size x": 40, "roi size y": 20},
            "setup": {"channel width": 20.0, "chip region": "channel",
                      "flow rate": 0.04, "flow rate sample": 0.01,
                      "flow rate sheath": 0.03, "medium": "CellCarrierB",
                      "module composition": "Cell_Flow_2",
                      "software version": "ShapeIn 2.0.5",
                      "identifier": "x", "temperature": 23.0}})
        hw.store_feature("deform", np.linspace(0.01, 0.1, n))
        hw.store_feature("area_um", np.linspace(50, 100, n))


td = pathlib.Path(tempfile.mkdtemp(prefix="bug1_"))
make(td / "in.rtdc")
out = td / "o"
out.mkdir()
# State left behind by a run that was killed while writing the 2nd chunk:
# incomplete data under the temporary name (this is what the property allows)
(out / "in_0002.rtdc~").write_bytes(b"\x89HDF\r\n\x1a\n partial")

# control: the other tasks cope with a stale temporary file
(td / "c.rtdc~").write_bytes(b"\x89HDF\r\n\x1a\n partial")
compress(td / "in.rtdc", td / "c.rtdc")
with dclab.new_dataset(td / "c.rtdc") as ds:
    assert len(ds) == 25

try:
    paths = split(td / "in.rtdc", out, split_events=10, ret_out_paths=True)
    sizes = []
    for pp in paths:
        with dclab.new_dataset(pp) as ds:
            sizes.append(len(ds))
    assert sizes == [10, 10, 5], sizes
except BaseException as exc:
    left = sorted(p.name for p in out.iterdir())
    print(f"FAIL: split after an interrupted run raises {exc!r:.90}; "
          f"no output is ever produced, directory holds {left}")
    sys.exit(1)
print("PASS")
