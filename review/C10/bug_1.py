"""common.setup_task_paths removes stale files with `if p.exists(): p.unlink()`.
Path.exists() follows symbolic links, so a *dangling* symlink at the temporary
path "<out>.rtdc~" survives the clean-up. The task then opens the temporary
name with mode "w", which writes through the link. If the link points to the
requested output path, (1) the incomplete data are written directly to the
output path, so an I/O error leaves a partial, unloadable file there and
(2) a run without any error renames the link onto its own target and the
"successful" output is a symlink loop (all data lost).
"""
import os
import pathlib
import sys
import tempfile
import warnings

import numpy as np

import dclab
import dclab.rtdc_dataset.copier as copier
import dclab.rtdc_dataset.writer as w
import dclab.rtdc_dataset.export as e
from dclab import RTDCWriter
from dclab.cli import repack

w.version = e.version = "0.60.0"
warnings.simplefilter("ignore")


def make(path, n=25):
    with RTDCWriter(path, mode="reset") as hw:
        hw.store_metadata({
            "experiment": {"sample": "s", "run index": 1,
                           "date": "2020-01-01", "time": "12:00:00",
                           "event count": n},
            "imaging": {"flash device": "LED", "flash duration": 2.0,
                        "frame rate": 2000.0, "pixel size": 0.34,
                        "roi position x": 1, "roi position y": 1,
                        "roi size x": 40, "roi size y": 20},
            "setup": {"channel width": 20.0, "chip region": "channel",
                      "flow rate": 0.04, "flow rate sample": 0.01,
                      "flow rate sheath": 0.03, "medium": "CellCarrierB",
                      "module composition": "Cell_Flow_2",
                      "software version": "ShapeIn 2.0.5",
                      "identifier": "x", "temperature": 23.0}})
        hw.store_feature("deform", np.linspace(0.01, 0.1, n))
        hw.store_feature("area_um", np.linspace(50, 100, n))
        hw.store_log("mylog", ["a", "b"])


def complete(path):
    try:
        with dclab.new_dataset(path) as ds:
            return len(ds) == 25 and "area_um" in ds and "deform" in ds
    except BaseException:
        return False


problems = []

# (1) I/O error during the object copy
td = pathlib.Path(tempfile.mkdtemp(prefix="bug2a_"))
make(td / "in.rtdc")
os.symlink(td / "out.rtdc", td / "out.rtdc~")  # dangling: out.rtdc is absent
orig = copier.h5ds_copy
calls = [0]


def failing(*args, **kwargs):
    calls[0] += 1
    if calls[0] == 2:
        raise OSError("injected I/O error")
    return orig(*args, **kwargs)


copier.h5ds_copy = failing
try:
    repack(td / "in.rtdc", td / "out.rtdc")
except OSError:
    pass
finally:
    copier.h5ds_copy = orig
po = td / "out.rtdc"
if os.path.lexists(po) and not complete(po):
    problems.append("after an I/O error the output path holds a partial file "
                    f"({po.stat().st_size} bytes, not a complete dataset)")

# (2) no error at all
td = pathlib.Path(tempfile.mkdtemp(prefix="bug2b_"))
make(td / "in.rtdc")
os.symlink(td / "out.rtdc", td / "out.rtdc~")
repack(td / "in.rtdc", td / "out.rtdc")
po = td / "out.rtdc"
if os.path.lexists(po) and not complete(po):
    problems.append("after a run without errors the output path is "
                    + ("a symlink loop" if po.is_symlink() else "unloadable"))

if problems:
    print("FAIL: dangling symlink at the temporary path: "
          + "; ".join(problems))
    sys.exit(1)
print("PASS")
