"""Scalar features that come from a *mapped* basin do not report
min/max/mean at all.

feat_basin.BasinProxyFeature (returned by ds[feat] whenever the feature is
taken from a basin with a basinmap, e.g. every file exported with
`filtered=True, basins=True`, or exported from a hierarchy child with
basins) implements neither min() nor max() nor mean(); its __getattr__
raises AttributeError for them.  Basins with "same" mapping return an
H5ScalarEvent and work.
"""
import pathlib
import sys
import tempfile
import warnings

import numpy as np

import dclab.rtdc_dataset.writer as w
import dclab.rtdc_dataset.export as e
from dclab import RTDCWriter, new_dataset

w.version = e.version = "0.60.0"
warnings.simplefilter("ignore")

td = pathlib.Path(tempfile.mkdtemp())
meta = {
    "experiment": {"sample": "s", "run index": 1, "date": "2020-01-01",
                   "time": "12:00:00", "run identifier": "abc"},
    "imaging": {"pixel size": 0.34, "flash duration": 2, "frame rate": 2000},
    "setup": {"channel width": 20, "chip region": "channel",
              "flow rate": 0.04, "medium": "CellCarrier",
              "module composition": "Cell_Flow_2"}}

p = td / "orig.rtdc"
with RTDCWriter(p) as hw:
    hw.store_metadata(meta)
    hw.store_feature("deform", np.array([0.1, np.nan, 0.3, 0.05, 0.2]))
    hw.store_feature("area_um", np.array([10, 20, 30, 40, 50.]))

with new_dataset(p) as ds:
    ds.filter.manual[[1, 3]] = False
    ds.apply_filter()
    # small file with only area_um; deform is available via mapped basin
    ds.export.hdf5(td / "exp.rtdc", features=["area_um"], filtered=True,
                   basins=True)

problems = []
with new_dataset(td / "exp.rtdc") as ds:
    assert "deform" in ds.features_basin
    fo = ds["deform"]
    arr = np.array(fo[:])
    assert np.allclose(arr, [0.1, 0.3, 0.2])
    for name, ufunc in [("min", np.nanmin), ("max", np.nanmax),
                        ("mean", np.nanmean)]:
        try:
            got = getattr(fo, name)()
        except BaseException as exc:
            problems.append(f"{type(fo).__name__}.{name}() raised {exc!r}")
        else:
            if not np.allclose(got, ufunc(arr)):
                problems.append(f"{name}: {got} != {ufunc(arr)}")

if problems:
    print("FAIL: basin-backed (mapped) scalar feature cannot report its "
          "summary: " + "; ".join(problems))
    sys.exit(1)
print("PASS")
