"""Summary attributes (min/max/mean) are updated from the *input* data on
append, not from the values that were actually stored (dtype cast).

RTDCWriter.write_ndarray: the first call computes min/max/mean from the
HDF5 dataset, every later call uses `ufunc(data)` of the data passed in.
If the dataset dtype differs from the dtype of the appended data (uint32
features such as fl1_max, or a dataset created from int/float32 data), the
stored values are cast, but the summaries are not.  The same feature data
written in one call yields correct summaries; written in two calls (or via
dclab-join) it does not.
"""
import pathlib
import sys
import tempfile
import warnings

import h5py
import numpy as np

import dclab
import dclab.rtdc_dataset.writer as w
import dclab.rtdc_dataset.export as e
from dclab import RTDCWriter, new_dataset, cli

w.version = e.version = "0.60.0"
warnings.simplefilter("ignore")

td = pathlib.Path(tempfile.mkdtemp())
problems = []


def meta(i):
    return {
        "experiment": {"sample": "s", "run index": i, "date": "2020-01-01",
                       "time": f"12:00:0{i}", "run identifier": f"id{i}"},
        "imaging": {"pixel size": 0.34, "flash duration": 2,
                    "frame rate": 2000},
        "setup": {"channel width": 20, "chip region": "channel",
                  "flow rate": 0.04, "medium": "CellCarrier",
                  "module composition": "Cell_Flow_2",
                  "software version": "dclab 0.60.0"}}


def check(path, label):
    with new_dataset(path) as ds:
        for feat in ds.features_loaded:
            if not dclab.dfn.scalar_feature_exists(feat):
                continue
            fo = ds[feat]
            arr = np.array(fo[:])
            exp = (np.nanmin(arr), np.nanmax(arr), np.nanmean(arr))
            got = (fo.min(), fo.max(), fo.mean())
            if not np.allclose(np.array(exp, dtype=float),
                               np.array(got, dtype=float),
                               rtol=1e-6, atol=0, equal_nan=True):
                problems.append(
                    f"{label}: {feat} stored={arr.tolist()} "
                    f"actual(min,max,mean)={tuple(float(x) for x in exp)} "
                    f"reported={tuple(float(x) for x in got)}")


fl = np.array([1.7, 2.2, 5.9, 0.5, 9.9, 3.3])

# (a) one call vs. two calls with identical data
for name, cut in [("one_call", None), ("two_calls", 3)]:
    p = td / f"{name}.rtdc"
    with RTDCWriter(p) as hw:
        hw.store_metadata(meta(1))
        if cut is None:
            hw.store_feature("fl1_max", fl)
        else:
            hw.store_feature("fl1_max", fl[:cut])
            hw.store_feature("fl1_max", fl[cut:])
    check(p, f"writer/{name}")

# (b) dataset created from integer data, float data appended afterwards
p = td / "int_then_float.rtdc"
with RTDCWriter(p) as hw:
    hw.store_metadata(meta(1))
    hw.store_feature("area_um", np.array([1, 2, 3]))
    hw.store_feature("area_um", np.array([0.5, 9.9, 3.3]))
check(p, "writer/int_then_float")

# (c) dclab-join of two files that store fl1_max as floating point
for i in (1, 2):
    with h5py.File(td / f"r{i}.rtdc", "w") as h5:
        m = meta(i)
        for s in m:
            for k in m[s]:
                h5.attrs[f"{s}:{k}"] = m[s][k]
        h5.attrs["experiment:event count"] = 3
        h5["events/fl1_max"] = fl[3 * (i - 1):3 * i]
        h5["events/deform"] = np.array([.1, .2, .3]) * i
cli.join([td / "r1.rtdc", td / "r2.rtdc"], td / "joined.rtdc")
check(td / "joined.rtdc", "dclab-join")

if problems:
    print("FAIL: summaries do not match stored data after append "
          "(computed from uncast input): " + " | ".join(problems))
    sys.exit(1)
print("PASS")
