"""C15 — polygon filters classify points by exact even-odd containment.

point_in_polygon / points_in_polygon live in dclab/external/skimage/_shared/
geometry.pyx; the verified text is that file with the C declarations deleted
(pyvc/cy2py.py).  The specification of one edge crossing is written without
division (a cross product), so the code's quotient form is proved equivalent to
it rather than compared with itself.
"""
import numpy as np
import z3

from pyvc import models, npmodel, h5model   # noqa: F401
from pyvc.contract import Contract
from pyvc.engine import LoopSpec, NS, PyRaise
from pyvc.sym import SArr, SObj, SBool, Z, to_z3, wrap

GEO = "dclab/external/skimage/_shared/geometry.pyx"
GMOD = "dclab.external.skimage._shared.geometry"
PF = "dclab/polygon_filter.py"
PFMOD = "dclab.polygon_filter"


def crosses(ax, ay, bx, by, x, y):
    """the horizontal ray from (x, y) to the right crosses the edge a-b (even-odd
    rule with the half-open convention: an edge owns its lower end point, not its
    upper one): the edge straddles the height y and the point lies strictly left
    of the edge -- decided by the sign of a cross product, no division"""
    up = z3.And(ay <= y, y < by)        # edge runs upwards through y
    down = z3.And(by <= y, y < ay)      # edge runs downwards through y
    side = (bx - ax) * (y - ay) - (x - ax) * (by - ay)
    return z3.Or(z3.And(up, side > 0), z3.And(down, side < 0))


# ghost: "an odd number of the edges with index < i is crossed by the ray" (edge k joins
# vertex k-1, or the last vertex for k = 0, to vertex k); defined by its recursion
PAR = z3.Function("odd_number_of_crossings_before", z3.IntSort(), z3.BoolSort())


class PointInPolygon(Contract):
    """point_in_polygon(nr_verts, xp, yp, x, y) == parity of the number of polygon
    edges crossed by the ray from (x, y) to the right (edges v[k-1] -> v[k], the
    first edge closing the polygon from the last vertex); never divides by zero."""
    path = GEO
    module = GMOD
    qualname = "point_in_polygon"
    name = "point_in_polygon"
    params = ("nr_verts", "xp", "yp", "x", "y")

    def __init__(self):
        super().__init__()
        self.loops = {"i in range(nr_verts)": LoopSpec(inv=self.inv, kinds={"c": lambda ctx: ctx.bool("c")},
                                                       hints=self.hints)}

    def hints(self, ctx, v):
        """instance of the lemma 'quotient form == cross-product form' for the current edge"""
        i, j = to_z3(v.it), to_z3(v.j)
        ax, ay, bx, by = self._xp.sel(j), self._yp.sel(j), self._xp.sel(i), self._yp.sel(i)
        x, y = self._x, self._y
        # the code tests the edge from vertex i (a) to vertex j (b): yp[i] <= y < yp[j] ...
        code = z3.And(z3.Or(z3.And(by <= y, y < ay), z3.And(ay <= y, y < by)),
                      x < (ax - bx) * (y - by) / (ay - by) + bx)
        return [("quotient form == cross-product form for the current edge",
                 z3.Implies(ay != by, code == crosses(ax, ay, bx, by, x, y)))]

    def inputs(self, ctx):
        n = ctx.int("nr_verts", lo=0, inp=True)
        xp = ctx.arr("xp", "real", n=n.e, inp=True)
        yp = ctx.arr("yp", "real", n=n.e, inp=True)
        x, y = ctx.real("x", inp=True), ctx.real("y", inp=True)
        self._n, self._xp, self._yp, self._x, self._y = n.e, xp, yp, x.e, y.e
        k = z3.Int("k!cn")
        # definition of the ghost counter
        ctx.assume(z3.Not(PAR(0)))
        ctx.assume(z3.ForAll([k], z3.Implies(z3.And(k >= 0, k < n.e), PAR(k + 1) == z3.Xor(PAR(k), self.edge(k)))))
        return {"nr_verts": n, "xp": xp, "yp": yp, "x": x, "y": y}

    def edge(self, k):
        prev = z3.If(k == 0, self._n - 1, k - 1)
        return crosses(self._xp.sel(prev), self._yp.sel(prev), self._xp.sel(k), self._yp.sel(k), self._x, self._y)

    @staticmethod
    def as_bool(c):
        if isinstance(c, (bool, int)):
            return z3.BoolVal(bool(c))
        return to_z3(c, "bool") if getattr(c, "e", None) is not None and z3.is_bool(c.e) else (to_z3(c) != 0)

    def inv(self, ctx, v):
        i = to_z3(v.it)
        j = to_z3(v.j)
        # the edge of this iteration, written with j (equal to the previous vertex by the invariant)
        edge_j = crosses(self._xp.sel(j), self._yp.sel(j), self._xp.sel(i), self._yp.sel(i), self._x, self._y)
        return [("c is the parity of the crossings of the edges seen so far; j is the previous vertex",
                 z3.And(self.as_bool(v.c) == PAR(i), j == z3.If(i == 0, self._n - 1, i - 1))),
                ("instance of the definition of the ghost parity for the edge of this iteration",
                 z3.Implies(z3.And(i >= 0, i < self._n), PAR(i + 1) == z3.Xor(PAR(i), edge_j)))]

    def ensures(self, ctx, old, a, result):
        return [("the result is the parity of the number of crossed edges (even-odd rule)",
                 self.as_bool(result) == PAR(self._n))]


def lemmas_edge():
    """properties of the specification that give independence of the starting
    vertex, of the orientation and of a repeated closing vertex: the count is a sum
    over the *multiset of undirected edges* (symmetry), and a degenerate edge
    (repeated vertex) is never crossed."""
    out = []
    ax, ay, bx, by, x, y = z3.Reals("ax ay bx by x y")
    for name, goal in (
            ("crossing an edge does not depend on its direction (orientation / starting vertex)",
             crosses(ax, ay, bx, by, x, y) == crosses(bx, by, ax, ay, x, y)),
            ("an edge between two equal vertices (repeated closing vertex) is never crossed",
             z3.Not(crosses(ax, ay, ax, ay, x, y))),
            ("the quotient form used by the code equals the cross-product form of the specification",
             z3.Implies(by != ay,
                        z3.And(z3.Or(z3.And(ay <= y, y < by), z3.And(by <= y, y < ay)),
                               x < (bx - ax) * (y - ay) / (by - ay) + ax) == crosses(bx, by, ax, ay, x, y)))):
        s = z3.Solver()
        s.set("timeout", 20000)
        s.add(z3.Not(goal))
        import time
        t0 = time.time()
        r = s.check()
        out.append({"lemma": name, "verdict": str(r), "time_s": round(time.time() - t0, 3)})
    return out


LEMMAS = ["lemmas_edge"]


# --------------------------------------------------------------------------
class PointsInPolygon(Contract):
    """points_in_polygon(...): result[n] == point_in_polygon(verts, x[n], y[n]) for every n"""
    path = GEO
    module = GMOD
    qualname = "points_in_polygon"
    name = "points_in_polygon"
    params = ("nr_verts", "xp", "yp", "nr_points", "x", "y", "result")

    def __init__(self):
        super().__init__()
        self.callees = {"point_in_polygon": PipCallee()}
        self.loops = {"n in range(nr_points)": LoopSpec(inv=self.inv, modifies=lambda ctx, v: [v.result])}

    def inputs(self, ctx):
        nv = ctx.int("nr_verts", lo=0)
        npnt = ctx.int("nr_points", lo=0, inp=True)
        xp, yp = ctx.arr("xp", "real", n=nv.e), ctx.arr("yp", "real", n=nv.e)
        x, y = ctx.arr("x", "real", n=npnt.e), ctx.arr("y", "real", n=npnt.e)
        res = ctx.arr("result", "int", n=npnt.e)
        self._x, self._y, self._np = x, y, npnt.e
        return {"nr_verts": nv, "xp": xp, "yp": yp, "nr_points": npnt, "x": x, "y": y, "result": res}

    def inv(self, ctx, v):
        k = z3.Int("k!pp")
        n = to_z3(v.it)
        return [("every point handled so far holds its own classification",
                 z3.And(v.result.n == self._np,
                        z3.ForAll([k], z3.Implies(z3.And(k >= 0, k < n),
                                                  v.result.sel(k) == z3.If(INSIDE(self._x.sel(k), self._y.sel(k)), 1, 0)))))]

    def ensures(self, ctx, old, a, result):
        k = z3.Int("k!pq")
        return [("result[n] is the classification of point n, for every n",
                 z3.ForAll([k], z3.Implies(z3.And(k >= 0, k < self._np),
                                           a.result.sel(k) == z3.If(INSIDE(self._x.sel(k), self._y.sel(k)), 1, 0))))]


INSIDE = z3.Function("inside_polygon", z3.RealSort(), z3.RealSort(), z3.BoolSort())   # for fixed vertices


class PipCallee(Contract):
    """point_in_polygon at its call site (verified above): a function of the point
    for fixed vertex arrays, 0 or 1"""
    name = "point_in_polygon"

    def __call__(self, interp, nr_verts, xp, yp, x, y):
        return wrap(z3.If(INSIDE(to_z3(x, "real"), to_z3(y, "real")), Z(1), Z(0)))


# --------------------------------------------------------------------------
# python level
# --------------------------------------------------------------------------
class PointsInPolyWrapper(Contract):
    """skimage.pnpoly.points_in_poly(points, verts) hands exactly its arguments to
    the compiled _points_in_poly and returns its result"""
    path = "dclab/external/skimage/pnpoly.py"
    module = "dclab.external.skimage.pnpoly"
    qualname = "points_in_poly"
    name = "pnpoly.points_in_poly"
    params = ("points", "verts")

    class Inner(Contract):
        name = "_points_in_poly"
        trusted = True

        def __call__(self, interp, points, verts):
            interp.cur_frame.unit._got = (points, verts)
            return interp.cur_frame.unit._res

    def __init__(self):
        super().__init__()
        self.callees = {"_points_in_poly": self.Inner()}

    def inputs(self, ctx):
        self._pts = ctx.arr("points", "elem", inp=False)
        self._verts = ctx.arr("verts", "elem", inp=False)
        self._res = ctx.obj("Mask", {}, name="mask")
        self._got = None
        return {"points": self._pts, "verts": self._verts}

    def ensures(self, ctx, old, a, result):
        got = self._got or (None, None)

        def same(x, y):
            if not isinstance(x, SArr):
                return z3.BoolVal(False)
            k = z3.Int("k!sm")
            return z3.And(x.n == y.n, z3.ForAll([k], z3.Implies(z3.And(k >= 0, k < y.n), x.sel(k) == y.sel(k))))
        return [("all vertices and all points are passed on, in order, and the result is returned as it is",
                 z3.And(same(got[0], self._pts), same(got[1], self._verts), z3.BoolVal(result is self._res)))]


class PipMask(Contract):
    """points_in_poly(points, verts) as seen by PolygonFilter.filter: mask[k] ==
    inside(points[k]) (chain: pnpoly wrapper, compiled glue _points_in_poly,
    points_in_polygon, point_in_polygon)"""
    name = "points_in_poly"

    def __call__(self, interp, points=None, verts=None):
        ctx = interp.ctx
        cols = points.fields["cols"]
        n = points.fields["n"]
        interp.cur_frame.unit._verts_used = verts
        k = z3.Int("k!pm")
        f = models.arr_new(interp, n, lambda k: INSIDE(cols[0].sel(k), cols[1].sel(k)), "bool")
        r = SArr(f.n, f.a, "bool")
        r.birth = ctx.stamp
        return r


def _np_zeros_cols(interp, shape, dtype=float, **kw):
    """np.zeros((n, 2)): a two-column matrix (columns are assigned as a whole)"""
    if isinstance(shape, tuple) and len(shape) == 2 and shape[1] == 2 \
            and getattr(getattr(interp.cur_frame, "unit", None), "colmatrix", False):
        n = to_z3(shape[0])
        c0 = models.arr_new(interp, n, lambda k: z3.RealVal(0), "real")
        c1 = models.arr_new(interp, n, lambda k: z3.RealVal(0), "real")
        return interp.ctx.obj("ColMatrix", {"n": n, "cols": [c0, c1]}, name="points")
    return _prev_zeros(interp, shape, dtype=dtype, **kw)


_prev_zeros = models._MODELS[np.zeros]
models._MODELS[np.zeros] = _np_zeros_cols


def _cm_setitem(interp, m, key, val):
    from pyvc.engine import Unsupported
    if not (isinstance(key, tuple) and len(key) == 2 and key[0] == slice(None) and key[1] in (0, 1)):
        raise Unsupported("matrix store other than [:, j] = column")
    interp.heap_write(m)
    interp.ctx.check(val.n == m.fields["n"], "column assignment: lengths match", kind="noraise-lib")
    m.fields["cols"][key[1]] = SArr(val.n, val.a, val.kind) if val.kind == "real" else npmodel.cast_arr(interp, val, "real")
    return None


h5model.OBJ_METHODS[("ColMatrix", "__setitem__")] = _cm_setitem


@models.model(np.invert)
def _np_invert(interp, a, out=None, **kw):
    r = models.unaryop(interp, "Invert", a)
    if out is not None:
        models.arr_assign_all(interp, out, SArr(r.n, r.a, "bool"))
        return out
    return r


class PolygonFilterFilter(Contract):
    """PolygonFilter.filter(datax, datay)[k] == inside(datax[k], datay[k]) for the
    filter's own vertices, negated exactly when the filter is inverted"""
    path = PF
    module = PFMOD
    qualname = "PolygonFilter.filter"
    classes = {"PolygonFilter": (PF, "PolygonFilter")}
    class_modules = {"PolygonFilter": PFMOD}
    inline = {"PolygonFilter.points"}
    params = ("self", "datax", "datay")
    colmatrix = True

    def __init__(self, inverted):
        self.inverted = inverted
        self.name = f"PolygonFilter.filter[{'inverted' if inverted else 'not inverted'}]"
        super().__init__()
        self.callees = {"points_in_poly": PipMask()}

    def inputs(self, ctx):
        n = ctx.int("N", lo=0, inp=True)
        dx = ctx.arr("datax", "real", n=n.e, inp=True)
        dy = ctx.arr("datay", "real", n=n.e, inp=True)
        self._verts = ctx.arr("verts", "elem")
        pf = ctx.obj("PolygonFilter", {"_points": self._verts, "inverted": self.inverted}, name="pf")
        self._dx, self._dy, self._n = dx, dy, n.e
        self._verts_used = None
        return {"self": pf, "datax": dx, "datay": dy}

    def ensures(self, ctx, old, a, result):
        k = z3.Int("k!ff")
        want = lambda k: z3.Xor(INSIDE(self._dx.sel(k), self._dy.sel(k)), z3.BoolVal(self.inverted))   # noqa
        vu = self._verts_used
        return [("the polygon's own vertices are used",
                 z3.BoolVal(isinstance(vu, SArr) and vu.a.get_id() == self._verts.a.get_id())
                 if isinstance(vu, SArr) else z3.BoolVal(False)),
                ("one classification per event: inside XOR inverted",
                 z3.And(result.n == self._n,
                        z3.ForAll([k], z3.Implies(z3.And(k >= 0, k < self._n), result.sel(k) == want(k)))))]


class PolygonFilterCopy(Contract):
    """PolygonFilter.copy(invert): same axes, points and name; inverted == self.inverted XOR invert"""
    path = PF
    module = PFMOD
    qualname = "PolygonFilter.copy"
    classes = {"PolygonFilter": (PF, "PolygonFilter")}
    class_modules = {"PolygonFilter": PFMOD}
    inline = {"PolygonFilter.points"}
    params = ("self", "invert")
    name = "PolygonFilter.copy"

    class Ctor(Contract):
        name = "PolygonFilter"
        trusted = True

        def __call__(self, interp, **kw):
            interp.cur_frame.unit._kw = kw
            return interp.ctx.obj("NewFilter", dict(kw))

    def __init__(self):
        super().__init__()
        self.callees = {"PolygonFilter": self.Ctor()}

    def inputs(self, ctx):
        self._verts = ctx.arr("verts", "elem")
        self._inv = ctx.bool("self_inverted", inp=True)
        self._arg = ctx.bool("invert", inp=True)
        pf = ctx.obj("PolygonFilter", {"_points": self._verts, "inverted": self._inv, "axes": ("area_um", "deform"),
                                       "name": "a filter"}, name="pf")
        self._kw = None
        return {"self": pf, "invert": self._arg}

    def ensures(self, ctx, old, a, result):
        kw = self._kw or {}
        inv = kw.get("inverted")
        return [("the copy keeps axes, points and name",
                 z3.BoolVal(kw.get("axes") == ("area_um", "deform") and isinstance(kw.get("points"), SArr)
                            and kw.get("points").a.get_id() == self._verts.a.get_id()
                            and kw.get("name") == "a filter")),
                ("the copy is inverted exactly when self.inverted XOR invert",
                 (to_z3(inv, "bool") if inv is not None else z3.BoolVal(False)) == z3.Xor(self._inv.e, self._arg.e))]


class PolyLoad(Contract):
    """PolygonFilter._load / save: text formatting and parsing (outside the accepted
    subset: decided by the bounded round-trip stand-in)"""
    path = PF
    module = PFMOD
    qualname = "PolygonFilter._load"
    classes = {"PolygonFilter": (PF, "PolygonFilter")}
    class_modules = {"PolygonFilter": PFMOD}
    params = ("self", "filename", "unique_id")
    name = "PolygonFilter.save / _load round trip"
    bounded_by_design = True

    def inputs(self, ctx):
        from pyvc.engine import Unsupported
        raise Unsupported("text formatting / parsing of .poly files (str.format with float specs, split, strip)")


UNITS = [PointInPolygon(), PointsInPolygon(), PointsInPolyWrapper(), PolygonFilterFilter(False),
         PolygonFilterFilter(True), PolygonFilterCopy(), PolyLoad()]
TRUSTED = []
TRUSTED_BASE = ["the compiled glue _pnpoly._points_in_poly (pointer arithmetic, outside cy2py's subset) converts its "
                "arguments to double arrays and calls points_in_polygon: checked by a differential run against the verified "
                "text (bounded)", "real arithmetic stands for double arithmetic (points on or within rounding distance of an "
                "edge are outside the statement)", "cy2py: C declarations deleted (listed per function under 'dropped')"]
ASSUMPTIONS = ["independence of starting vertex, orientation and a repeated closing vertex follows from the two edge lemmas "
               "by the multiset argument (the count is a sum over undirected, non-degenerate edges); the induction over the "
               "vertex list is stated, not machine-checked"]


# --------------------------------------------------------------------------
# replay on the real code / bounded stand-ins
# --------------------------------------------------------------------------
def _even_odd_exact(verts, x, y):
    """reference: crossing parity in exact rational arithmetic"""
    from fractions import Fraction as Fr
    n = len(verts)
    x, y = Fr(x), Fr(y)
    odd = False
    for k in range(n):
        ax, ay = map(Fr, verts[k - 1])
        bx, by = map(Fr, verts[k])
        side = (bx - ax) * (y - ay) - (x - ax) * (by - ay)
        if (ay <= y < by and side > 0) or (by <= y < ay and side < 0):
            odd = not odd
    return odd


def _on_boundary(verts, x, y):
    from fractions import Fraction as Fr
    x, y = Fr(x), Fr(y)
    for k in range(len(verts)):
        ax, ay = map(Fr, verts[k - 1])
        bx, by = map(Fr, verts[k])
        if (bx - ax) * (y - ay) - (x - ax) * (by - ay) == 0 \
                and min(ax, bx) <= x <= max(ax, bx) and min(ay, by) <= y <= max(ay, by):
            return True
    return False


def _vals(v):
    out = []
    for x in v or []:
        try:
            out.append(float(x))
        except (TypeError, ValueError):
            out.append(0.0)
    return out


def replay(unit_name, inp, obligation=""):
    import warnings
    with warnings.catch_warnings():
        warnings.simplefilter("ignore")
        if unit_name in ("point_in_polygon", "points_in_polygon"):
            from dclab.external.skimage.pnpoly import points_in_poly
            xs, ys = _vals(inp.get("xp")), _vals(inp.get("yp"))
            n = min(len(xs), len(ys), int(inp.get("nr_verts", 99)))
            verts = [(xs[k], ys[k]) for k in range(n)]
            if unit_name == "point_in_polygon":
                pts = [(float(inp.get("x", 0.0)), float(inp.get("y", 0.0)))]
            else:
                px, py = _vals(inp.get("x")), _vals(inp.get("y"))
                pts = list(zip(px, py))
            if not verts or not pts:
                return {"failed": None, "detail": "no polygon / points in the model"}
            got = points_in_poly(np.array(pts, dtype=float), np.array(verts, dtype=float))
            for (x, y), g in zip(pts, got):
                if _on_boundary(verts, x, y):
                    continue
                if bool(g) != _even_odd_exact(verts, x, y):
                    return {"failed": True, "detail": f"point ({x}, {y}) and polygon {verts}: reported "
                                                      f"{'inside' if g else 'outside'}, the ray crosses "
                                                      f"{'an odd' if not g else 'an even'} number of edges"}
            return {"failed": False, "detail": "classification equals the exact crossing parity"}
        if unit_name.startswith("PolygonFilter.filter") or unit_name == "pnpoly.points_in_poly":
            return _replay_filter(inp, "inverted]" in unit_name and "not inverted" not in unit_name)
        if unit_name == "PolygonFilter.copy":
            return _replay_copy(inp)
        if unit_name.startswith("PolygonFilter.save"):
            return _replay_roundtrip(inp)
    return {"failed": None, "detail": "no replay for " + unit_name}


def _replay_filter(inp, inverted, rng=None):
    import random
    from dclab.polygon_filter import PolygonFilter
    rng = rng or random.Random(int(inp.get("seed", 1)))
    fixed = [
        # the last vertex is a vertex of its own although it is "close" to the first one
        # in the sense of floating-point tolerances (relative 1e-5 of 1e6 is 10)
        ([(1e6, 1e6), (1e6 + 100, 1e6), (1e6 + 100, 1e6 + 100), (1e6 + 8, 1e6 + 9)],
         [(1e6 + 0.5 * i, 1e6 + 0.37 * j) for i in range(0, 40) for j in range(0, 40)]),
        # coordinates of very different magnitude (a time-like axis against a large one): points just
        # inside / outside an edge must not be absorbed by any intermediate arithmetic
        ([(0.0, 0.0), (4e-3, 0.0), (4e-3, 1e9), (0.0, 1e9)],
         [(2e-3, 1e-8), (2e-3, -1e-8), (2e-3, -5.0), (2e-3, 5.0), (-1e-3, 10.0), (5e-3, 10.0), (2e-3, 1e9 + 1),
          (2e-3, 1e9 - 1), (1e-3, 3e-7), (1e-3, -3e-7)]),
    ]
    # events with an undefined coordinate lie in no polygon: an inverted filter keeps them
    from dclab.polygon_filter import PolygonFilter as _PF
    try:
        pf = _PF(axes=("area_um", "deform"), points=[(0, 0), (4, 0), (4, 4), (0, 4)], inverted=inverted)
        xs_ = np.array([1.0, float("nan"), 2.0, 9.0, float("nan"), 3.0])
        ys_ = np.array([1.0, 1.0, float("nan"), 9.0, float("nan"), 3.5])
        got_ = pf.filter(xs_, ys_)
        want_ = np.array([True, False, False, False, False, True]) != inverted
        if got_.shape != want_.shape or not np.array_equal(np.asarray(got_, dtype=bool), want_):
            return {"failed": True, "detail": f"square (0,0)-(4,4), inverted={inverted}, points with NaN coordinates "
                                              f"{list(zip(xs_.tolist(), ys_.tolist()))}: filter gives {np.asarray(got_).tolist()}, "
                                              f"expected {want_.tolist()} (an undefined point is inside no polygon)"}
    finally:
        _PF.clear_all_filters()
    for trial in range(int(inp.get("polygons", 8)) + len(fixed)):
        nv = rng.randint(3, 7)
        verts = [(rng.randint(-4, 4) + rng.choice([0, 0.5]), rng.randint(-4, 4)) for _ in range(nv)]
        if rng.random() < 0.4:
            verts.append(verts[0])                  # closed form
        if rng.random() < 0.3:
            verts.insert(2, verts[1])               # a repeated vertex
        # a vertex within rounding distance of the first one is a different vertex
        if rng.random() < 0.3:
            verts.append((verts[0][0] + 1e-9, verts[0][1] + 3e-9))
        xs = [rng.uniform(-5, 5) for _ in range(40)]
        ys = [rng.uniform(-5, 5) for _ in range(40)]
        if trial < len(fixed):
            verts = list(fixed[trial][0])
            xs, ys = [p[0] for p in fixed[trial][1]], [p[1] for p in fixed[trial][1]]
        pf = PolygonFilter(axes=("area_um", "deform"), points=verts, inverted=inverted)
        try:
            got = pf.filter(np.array(xs), np.array(ys))
            # other starting vertex / other orientation give the same classification
            alt = PolygonFilter(axes=("area_um", "deform"), points=list(reversed(verts[2:] + verts[:2])), inverted=inverted)
            got2 = alt.filter(np.array(xs), np.array(ys))
        finally:
            PolygonFilter.clear_all_filters()
        for x, y, g, g2 in zip(xs, ys, got, got2):
            if _on_boundary(verts, x, y):
                continue
            want = _even_odd_exact(verts, x, y) != inverted
            if bool(g) != want:
                return {"failed": True, "detail": f"point ({x!r}, {y!r}), polygon {verts}, inverted={inverted}: "
                                                  f"filter says {bool(g)}, even-odd rule says {want}"}
            if bool(g2) != want:
                return {"failed": True, "detail": f"point ({x!r}, {y!r}), polygon {verts}: the classification "
                                                  f"changes with the starting vertex / orientation"}
    return {"failed": False, "detail": "filter == even-odd rule XOR inverted on random polygons"}


def _replay_copy(inp):
    from dclab.polygon_filter import PolygonFilter
    try:
        for inv in (False, True):
            for arg in (False, True):
                pf = PolygonFilter(axes=("area_um", "deform"), points=[[0, 0], [2, 0], [1, 2]], inverted=inv, name="n")
                c = pf.copy(invert=arg)
                if c.inverted != (inv != arg) or c.axes != pf.axes or not np.array_equal(c.points, pf.points) \
                        or c.name != pf.name:
                    return {"failed": True, "detail": f"copy(invert={arg}) of a filter with inverted={inv}: "
                                                      f"inverted={c.inverted}, axes={c.axes}, name={c.name!r}"}
    finally:
        PolygonFilter.clear_all_filters()
    return {"failed": False, "detail": "copy keeps the filter and applies invert as XOR"}


def _replay_roundtrip(inp):
    import pathlib
    import random
    import tempfile
    from dclab.polygon_filter import PolygonFilter
    rng = random.Random(int(inp.get("seed", 1)))
    names = inp.get("names") or ["plain", "a=b", "x = y = z", "[Polygon 00000007]", "point00000001 = 1 2", "ünï cödé",
                                 "with, comma", "Inverted = True"]
    with tempfile.TemporaryDirectory(prefix="c15_") as td:
        for trial in range(int(inp.get("trials", 12))):
            nv = rng.randint(3, 12)
            verts = [(rng.uniform(-1e3, 1e3) * rng.choice([1, 1e-6, 1e6]), rng.uniform(-5, 5)) for _ in range(nv)]
            if rng.random() < 0.5:
                verts.append(verts[rng.randrange(len(verts))])     # a repeated vertex
            if rng.random() < 0.3:
                verts.append(verts[0])
            name = names[trial % len(names)]
            inv = rng.random() < 0.5
            axes = rng.choice([("area_um", "deform"), ("deform", "bright_avg")])
            f = pathlib.Path(td) / f"t{trial}.poly"
            try:
                pf = PolygonFilter(axes=axes, points=verts, name=name, inverted=inv)
                uid = pf.unique_id
                xs = np.array([rng.uniform(-2e3, 2e3) for _ in range(30)])
                ys = np.array([rng.uniform(-6, 6) for _ in range(30)])
                before = pf.filter(xs, ys)
                pf.save(f)
                PolygonFilter.clear_all_filters()
                try:
                    q = PolygonFilter(filename=f)
                except Exception as ex:
                    return {"failed": True, "detail": f"a filter named {name!r} with {len(verts)} points cannot be "
                                                      f"loaded again: {type(ex).__name__}: {ex}"}
                problems = []
                if q.name != name:
                    problems.append(f"name {q.name!r} != {name!r}")
                if tuple(q.axes) != tuple(axes):
                    problems.append(f"axes {q.axes}")
                if q.inverted != inv:
                    problems.append(f"inverted {q.inverted}")
                if q.unique_id != uid:
                    problems.append(f"identifier {q.unique_id} != {uid}")
                if len(q.points) != len(verts):
                    problems.append(f"{len(q.points)} points loaded, {len(verts)} saved")
                elif not np.array_equal(np.asarray(q.points, dtype=float), np.asarray(verts, dtype=float)):
                    k_ = int(np.argmax(np.any(np.asarray(q.points, dtype=float) != np.asarray(verts, dtype=float), axis=1)))
                    problems.append(f"vertex {k_} comes back as {tuple(float(v) for v in q.points[k_])!r}, saved {verts[k_]!r} "
                                    f"(an event within that distance of an edge changes sides)")
                elif not np.array_equal(q.filter(xs, ys), before):
                    problems.append("classification of the test points changed")
                if problems:
                    return {"failed": True, "detail": f"save/load of a filter named {name!r} ({len(verts)} points, "
                                                      f"{'with' if len(set(verts)) < len(verts) else 'without'} repeated "
                                                      f"vertices): " + "; ".join(problems)}
            finally:
                PolygonFilter.clear_all_filters()
    return {"failed": False, "detail": "save / load preserves axes, inversion, name, identifier and classifications"}


def in_carve_out(unit_name, inp):
    return None


def bounded_inputs(unit_name, rng):
    if unit_name.startswith("PolygonFilter.save"):
        for s in range(6):
            yield {"seed": s, "trials": 16}
    elif unit_name.startswith("PolygonFilter.filter") or unit_name == "pnpoly.points_in_poly":
        for s in range(6):
            yield {"seed": s, "polygons": 10}
    elif unit_name in ("point_in_polygon", "points_in_polygon"):
        for _ in range(200):
            nv = rng.randint(1, 7)
            yield {"nr_verts": nv, "xp": [rng.randint(-3, 3) for _ in range(nv)],
                   "yp": [rng.randint(-3, 3) for _ in range(nv)], "x": rng.uniform(-4, 4), "y": rng.uniform(-4, 4)}
    elif unit_name == "PolygonFilter.copy":
        yield {}


def differential(ncases=400, seed=2):
    """the cy2py text of geometry.pyx executed by CPython against the compiled
    points_in_poly (which adds the glue of _pnpoly.pyx)"""
    import random
    from pyvc import source
    from dclab.external.skimage.pnpoly import points_in_poly
    ns = {}
    exec(compile(source.load(GEO).text, GEO, "exec"), ns)
    rng = random.Random(seed)
    bad = []
    for _ in range(ncases):
        nv = rng.randint(1, 8)
        verts = [(rng.uniform(-3, 3) if rng.random() < 0.5 else float(rng.randint(-3, 3)),
                  float(rng.randint(-3, 3)) if rng.random() < 0.5 else rng.uniform(-3, 3)) for _ in range(nv)]
        pts = [(rng.uniform(-4, 4), rng.choice([rng.uniform(-4, 4), float(rng.randint(-3, 3))])) for _ in range(10)]
        got = points_in_poly(np.array(pts), np.array(verts))
        vx, vy = [v[0] for v in verts], [v[1] for v in verts]
        for (x, y), g in zip(pts, got):
            w = bool(ns["point_in_polygon"](nv, vx, vy, x, y))
            if w != bool(g):
                bad.append((verts, (x, y), bool(g), w))
    return bad, ncases * 10


def extra_checks(run):
    import json as _json
    import random
    from pyvc.run import HERE
    dbad, n = differential(200 if run.tier == "quick" else 3000)
    run.extra.setdefault("bounded_standins", []).append(
        {"function": "geometry.pyx (cy2py text) vs. the compiled points_in_poly incl. the glue of _pnpoly.pyx",
         "tool": "differential execution on random polygons and points", "cases": n, "bound": f"{n} point classifications"})
    if dbad:
        run.undecided.append(f"the verified text of geometry.pyx and the compiled extension disagree on {len(dbad)} points: "
                             "the proof does not cover the running code")
    # bounded layers that always run: even-odd rule / invariances through PolygonFilter.filter, save/load round trip
    for unit_name in ("PolygonFilter.filter[not inverted]", "PolygonFilter.filter[inverted]"):
        out = replay(unit_name, {"seed": run.seed, "polygons": 6 if run.tier == "quick" else 60})
        run.extra["bounded_standins"].append({"function": unit_name + " (end to end, invariances)", "tool": "native replay against "
                                              "exact rational even-odd counting", "cases": 6 if run.tier == "quick" else 60,
                                              "bound": "random polygons with repeated / closing / nearly coincident vertices, 40 points each"})
        if out.get("failed"):
            fn = HERE / "replays" / "C15-filter-end-to-end.json"
            fn.parent.mkdir(exist_ok=True)
            fn.write_text(_json.dumps({"property": "C15", "obligation": unit_name, "replay": out}, indent=1))
            print("  " + out["detail"][:300])
            run.violations.append(f"VIOLATION property=C15 replay={fn.relative_to(HERE)}")
