"""C13 — the integrity checker flags real inconsistencies (and accepts dclab's own
output).

Contracts on the individual checks of rtdc_dataset/check.py, each of the form
"a violation cue is returned exactly when the inconsistency is present", on a
dataset whose features / metadata are present or absent and valued symbolically:
check_feat_index, check_feature_size, has_fluorescence, check_fl_num_channels,
check_fl_num_lasers, check_metadata_bad_greater_zero.

"Accepts dclab's own output, compressed / repacked copies get the same cues" is
a statement about the writer, the CLI tools and all checks together on real
files: decided by the bounded stand-in (labelled bounded).
"""
import numpy as np
import z3

from pyvc import models, npmodel, h5model   # noqa: F401
from pyvc.contract import Contract
from pyvc.engine import LoopSpec, NS, PyRaise, Unsupported
from pyvc.sym import SArr, SObj, SInt, SReal, SBool, Z, to_z3, wrap, is_sym

CHK = "dclab/rtdc_dataset/check.py"
CMOD = "dclab.rtdc_dataset.check"


def _pres(ctx, kind, name):
    st = ctx.__dict__.setdefault("_pres13", {})
    if (kind, name) not in st:
        st[(kind, name)] = ctx.bool(f"has_{kind}_{name}".replace(" ", "_"), inp=True)
    return st[(kind, name)]


def _cfgval(ctx, sec, key):
    st = ctx.__dict__.setdefault("_val13", {})
    if (sec, key) not in st:
        nm = f"cfg_{sec}_{key}".replace(" ", "_")
        st[(sec, key)] = ctx.int(nm, inp=True) if "count" in key else ctx.real(nm, inp=True)
    return st[(sec, key)]


def _key(k):
    if isinstance(k, models.SFmt) and all(isinstance(p, str) for p in k.parts):
        return "".join(k.parts)
    if is_sym(k):
        raise Unsupported("symbolic key")
    return k


M = h5model.OBJ_METHODS
M[("ChkDS", "__contains__")] = lambda interp, ds, k: _pres(interp.ctx, "item", _key(k))
M[("ChkDS", "__len__")] = lambda interp, ds: ds.fields["_N"]


def _ds_getitem(interp, ds, k):
    k = _key(k)
    if not interp.ctx.decide(_pres(interp.ctx, "item", k)):
        raise PyRaise(KeyError, (k,))
    return ds.fields["_feats"][k]


M[("ChkDS", "__getitem__")] = _ds_getitem
M[("ChkEvents", "__contains__")] = lambda interp, ev, k: _pres(interp.ctx, "event", _key(k))
M[("ChkCfg", "__contains__")] = lambda interp, c, sec: _pres(interp.ctx, "sec", sec)
M[("ChkCfg", "__getitem__")] = lambda interp, c, sec: interp.ctx.obj("ChkSec", {"sec": sec})


def _cfg_get(interp, c, sec, default=None):
    if interp.ctx.decide(_pres(interp.ctx, "sec", sec)):
        return interp.ctx.obj("ChkSec", {"sec": sec})
    return default


M[("ChkCfg", "get")] = _cfg_get
M[("ChkSec", "__contains__")] = lambda interp, s, k: _pres(interp.ctx, "cfg", f"{s.fields['sec']}:{_key(k)}")


def _sec_getitem(interp, s, k):
    k = _key(k)
    if not interp.ctx.decide(_pres(interp.ctx, "cfg", f"{s.fields['sec']}:{k}")):
        raise PyRaise(KeyError, (k,))
    return _cfgval(interp.ctx, s.fields["sec"], k)


def _sec_get(interp, s, k, default=None):
    k = _key(k)
    if not interp.ctx.decide(_pres(interp.ctx, "cfg", f"{s.fields['sec']}:{k}")):
        return default
    return _cfgval(interp.ctx, s.fields["sec"], k)


M[("ChkSec", "__getitem__")] = _sec_getitem
M[("ChkSec", "get")] = _sec_get


class Cue(Contract):
    """ICue(msg, level, category, ...): a record"""
    name = "ICue"
    trusted = True

    def __call__(self, interp, msg=None, level=None, category=None, **kw):
        return interp.ctx.obj("Cue", dict(level=level, category=category, **kw), name="cue")


class Check(Contract):
    path = CHK
    module = CMOD
    classes = {"IntegrityChecker": (CHK, "IntegrityChecker")}
    class_modules = {"IntegrityChecker": CMOD}
    params = ("self",)
    inline = {"IntegrityChecker.has_fluorescence"}

    def __init__(self):
        self.qualname = "IntegrityChecker." + self.fn
        self.name = "IntegrityChecker." + self.fn
        super().__init__()
        self.callees = {"ICue": Cue()}

    def mk(self, ctx, feats=None, innate=()):
        N = ctx.int("len_ds", lo=0, inp=True)
        ds = ctx.obj("ChkDS", {"_N": N, "_feats": dict(feats or {}), "config": ctx.obj("ChkCfg", {}),
                               "_events": ctx.obj("ChkEvents", {}), "features_innate": list(innate)}, name="ds")
        self._N = N.e
        return ctx.obj("IntegrityChecker", {"ds": ds}, name="ic")

    @staticmethod
    def violations(result):
        return [c for c in result if isinstance(c, SObj) and c.fields.get("level") == "violation"]


class FeatIndex(Check):
    """check_feat_index: a violation exactly when an index feature exists and is not 1, 2, ..., len(ds)"""
    fn = "check_feat_index"

    def inputs(self, ctx):
        idx = ctx.arr("index", "int", inp=True)
        self._idx = idx
        ic = self.mk(ctx, feats={"index": idx})
        ctx.assume(idx.n == self._N)         # feature sizes are check_feature_size's subject
        return {"self": ic}

    def ensures(self, ctx, old, a, result):
        k = z3.Int("k!fi")
        enumerated = z3.ForAll([k], z3.Implies(z3.And(k >= 0, k < self._N), self._idx.sel(k) == k + 1))
        has = _pres(ctx, "item", "index").e
        return [("a violation is reported exactly when the index feature does not enumerate the events 1..N",
                 z3.BoolVal(len(self.violations(result)) > 0) == z3.And(has, z3.Not(enumerated)))]


class FeatureSize(Check):
    """check_feature_size: one violation per innate feature whose length differs from len(ds)"""
    fn = "check_feature_size"

    def inputs(self, ctx):
        self._a, self._b = ctx.arr("deform", "real", inp=True), ctx.arr("area_um", "real", inp=True)
        ic = self.mk(ctx, feats={"deform": self._a, "area_um": self._b}, innate=["area_um", "deform"])
        ctx.assume(_pres(ctx, "item", "deform").e)
        ctx.assume(_pres(ctx, "item", "area_um").e)
        return {"self": ic}

    def ensures(self, ctx, old, a, result):
        want = z3.If(self._a.n != self._N, 1, 0) + z3.If(self._b.n != self._N, 1, 0)
        return [("one violation per feature whose number of events differs from the event count",
                 Z(len(self.violations(result))) == want)]


class HasFluorescence(Check):
    """has_fluorescence: true exactly when a 'fluorescence' entry or one of fl1_max, fl2_max, fl3_max exists"""
    fn = "has_fluorescence"

    def inputs(self, ctx):
        return {"self": self.mk(ctx)}

    def ensures(self, ctx, old, a, result):
        want = z3.Or(*[_pres(ctx, "item", n).e for n in ("fluorescence", "fl1_max", "fl2_max", "fl3_max")])
        return [("fluorescence data are recognised by any of the three channels", to_z3(result, "bool") == want)]


class FlCount(Check):
    def count(self, ctx):
        raise NotImplementedError

    def inputs(self, ctx):
        return {"self": self.mk(ctx)}

    def ensures(self, ctx, old, a, result):
        key, items = self.spec(ctx)
        has = _pres(ctx, "cfg", "fluorescence:" + key).e
        stated = _cfgval(ctx, "fluorescence", key).e
        actual = sum([z3.If(c, 1, 0) for c in items], Z(0))
        return [(f"a violation is reported exactly when '{key}' is given and differs from what the data show",
                 z3.BoolVal(len(self.violations(result)) > 0) == z3.And(has, stated != actual))]


class FlNumChannels(FlCount):
    """check_fl_num_channels: 'channel count' must equal the number of channels i with a 'channel i name' and a stored fli_max"""
    fn = "check_fl_num_channels"

    def spec(self, ctx):
        return "channel count", [z3.And(_pres(ctx, "cfg", f"fluorescence:channel {i} name").e,
                                        _pres(ctx, "event", f"fl{i}_max").e) for i in (1, 2, 3)]


class FlNumLasers(FlCount):
    """check_fl_num_lasers: 'laser count' must equal the number of lasers i with lambda and a non-zero power"""
    fn = "check_fl_num_lasers"

    def spec(self, ctx):
        return "laser count", [z3.And(_pres(ctx, "cfg", f"fluorescence:laser {i} lambda").e,
                                      _pres(ctx, "cfg", f"fluorescence:laser {i} power").e,
                                      _cfgval(ctx, "fluorescence", f"laser {i} power").e != 0) for i in (1, 2, 3)]


class GreaterZero(Check):
    """check_metadata_bad_greater_zero: one violation per physical set-up value (frame rate, pixel size, channel
    width, flow rate) that is present and not positive"""
    fn = "check_metadata_bad_greater_zero"

    def inputs(self, ctx):
        return {"self": self.mk(ctx)}

    def ensures(self, ctx, old, a, result):
        want = Z(0)
        for sec, key in (("imaging", "frame rate"), ("imaging", "pixel size"), ("setup", "channel width"), ("setup", "flow rate")):
            bad = z3.And(_pres(ctx, "sec", sec).e, _pres(ctx, "cfg", f"{sec}:{key}").e, _cfgval(ctx, sec, key).e <= 0)
            want = want + z3.If(bad, 1, 0)
        return [("one violation per set-up value that is present and not positive", Z(len(self.violations(result))) == want)]


class MetadataBad(Check):
    """check_metadata_bad: with both ROI sizes given, one violation per image-like feature (image, image_bg, mask)
    and axis whose frame size differs from the ROI size; none otherwise"""
    fn = "check_metadata_bad"
    IMG = ("image", "image_bg", "mask")

    def inputs(self, ctx):
        self._shape = {}
        feats = {}
        for f in self.IMG:
            sy, sx = ctx.int(f"frame_height_{f}", lo=0, inp=True), ctx.int(f"frame_width_{f}", lo=0, inp=True)
            self._shape[f] = (sy, sx)
            feats[f] = ctx.obj("ImgFeat", {"shape": (ctx.int(f"n_{f}", lo=0), sy, sx)}, name=f)
        return {"self": self.mk(ctx, feats=feats)}

    def ensures(self, ctx, old, a, result):
        both = z3.And(_pres(ctx, "sec", "imaging").e, _pres(ctx, "cfg", "imaging:roi size x").e,
                      _pres(ctx, "cfg", "imaging:roi size y").e)
        want = Z(0)
        per_key = {}
        for ii, roi in enumerate(["roi size y", "roi size x"]):
            for f in self.IMG:
                bad = z3.And(both, _pres(ctx, "item", f).e,
                             z3.ToReal(self._shape[f][ii].e) != _cfgval(ctx, "imaging", roi).e)
                want = want + z3.If(bad, 1, 0)
                per_key[roi] = per_key.get(roi, Z(0)) + z3.If(bad, 1, 0)
        vio = self.violations(result)
        posts = [("one violation per image-like feature and axis whose frame size contradicts the ROI size",
                  Z(len(vio)) == want)]
        for roi in per_key:
            posts.append((f"the violations name the key '{roi}' once per contradicting feature",
                          Z(len([c for c in vio if c.fields.get("cfg_key") == roi])) == per_key[roi]))
        return posts


class OwnOutput(Contract):
    """writer / export / CLI output passes check_dataset; copies get the same cues (bounded stand-in)"""
    path = CHK
    module = CMOD
    qualname = "check_dataset"
    params = ("path_or_ds",)
    name = "check_dataset on dclab's own output"
    bounded_by_design = True

    def inputs(self, ctx):
        raise Unsupported("whole-file behaviour of writer, CLI tools and all checks together")


UNITS = [FeatIndex(), FeatureSize(), HasFluorescence(), FlNumChannels(), FlNumLasers(), GreaterZero(), MetadataBad(),
         OwnOutput()]
TRUSTED = [Cue()]
TRUSTED_BASE = ["numpy elementwise comparison and np.all (N-ELEMWISE, N-ALL)"]
ASSUMPTIONS = ["checks not under contract: unknown features, missing mandatory metadata (table-driven), "
               "external links, compression, choices, HDF5 attribute types -- exercised by the bounded stand-in only"]


# --------------------------------------------------------------------------
# replay on the real code
# --------------------------------------------------------------------------
def _complete_meta(n, fl=False):
    m = {"experiment": {"date": "2020-01-01", "event count": n, "run index": 1, "sample": "s", "time": "12:00:00"},
         "imaging": {"flash device": "LED", "flash duration": 2.0, "frame rate": 2000.0, "pixel size": 0.34, "roi position x": 0,
                     "roi position y": 0, "roi size x": 8, "roi size y": 6},
         "setup": {"channel width": 20.0, "chip region": "channel", "flow rate": 0.04, "flow rate sample": 0.01,
                   "flow rate sheath": 0.03, "identifier": "id", "medium": "CellCarrier", "module composition": "Cell_Flow_2",
                   "software version": "dclab-test", "temperature": 23.0},
         "online_contour": {"bin area min": 10, "bin kernel": 5, "bin threshold": -6, "image blur": 0, "no absdiff": True}}
    if fl:
        m["fluorescence"] = {"bit depth": 16, "channel count": 2, "channels installed": 3, "laser count": 1, "lasers installed": 2,
                             "sample rate": 312500, "samples per event": 10, "signal max": 1.0, "signal min": -1.0,
                             "trace median": 0, "channel 1 name": "FITC", "channel 3 name": "APC",
                             "laser 1 lambda": 488.0, "laser 1 power": 10.0, "laser 2 lambda": 561.0, "laser 2 power": 0.0}
    return m


def _write(path, n=5, fl=False, mutate=None, seed=0):
    from dclab.rtdc_dataset import RTDCWriter, writer, export
    for m_ in (writer, export):
        if str(getattr(m_, "version", "")).startswith("0.0"):
            m_.version = "0.60.0"
    rng = np.random.default_rng(seed)
    meta = _complete_meta(n, fl)
    feats = {"deform": rng.uniform(0.01, 0.1, n), "area_um": rng.uniform(20, 200, n), "index": np.arange(1, n + 1),
             "frame": np.arange(1, n + 1), "time": np.arange(n) * 0.01, "pos_x": rng.uniform(1, 2, n),
             "image": rng.integers(0, 255, (n, 6, 8), dtype=np.uint8), "mask": rng.random((n, 6, 8)) > 0.5}
    if fl:
        feats["fl1_max"] = rng.uniform(10, 20, n)
        feats["fl3_max"] = rng.uniform(10, 20, n)
    if fl == "three signals, two channels in use":
        # all three detector signals are recorded, two channels are in use (named, counted)
        feats["fl2_max"] = rng.uniform(10, 20, n)
    if mutate:
        mutate(meta, feats)
    with RTDCWriter(path, mode="reset") as hw:
        hw.store_metadata(meta)
        for k, v in feats.items():
            hw.store_feature(k, v)
    return path


def _cues(path):
    import warnings
    from dclab.rtdc_dataset.check import check_dataset
    with warnings.catch_warnings():
        warnings.simplefilter("ignore")
        return check_dataset(path)


def _native_check(name, build, expect_violation_containing):
    import pathlib
    import tempfile
    with tempfile.TemporaryDirectory(prefix="c13_") as td:
        f = pathlib.Path(td) / "t.rtdc"
        build(f)
        viol, alerts, infos = _cues(f)
        hit = [v for v in viol if expect_violation_containing in v]
        return viol, hit


def replay(unit_name, inp, obligation=""):
    import pathlib
    import tempfile
    import warnings
    from dclab import cli
    with warnings.catch_warnings(), tempfile.TemporaryDirectory(prefix="c13_") as td:
        warnings.simplefilter("ignore")
        d = pathlib.Path(td)
        # 1. dclab's own output (complete metadata) has no violations; copies get the same cues
        for fl in (False, True, "three signals, two channels in use"):
            f = _write(d / f"own_{str(fl)[:5]}.rtdc", fl=fl)
            cues = _cues(f)
            if cues[0]:
                return {"failed": True, "detail": f"a file written by RTDCWriter with complete metadata "
                                                  f"(fluorescence: {fl}) gets violations: {cues[0][:3]}"}
            for tool, fn in (("compress", cli.compress), ("repack", cli.repack)):
                out = d / f"{tool}_{str(fl)[:5]}.rtdc"
                fn(path_in=f, path_out=out)
                c2 = _cues(out)
                if sorted(c2[0]) != sorted(cues[0]):
                    return {"failed": True, "detail": f"the {tool}ed copy gets other violations than the original: {c2[0][:3]}"}
        # 2. every inconsistency is a violation (the writer keeps its own output consistent, so the
        #    inconsistency is put into the finished file)
        import h5py

        def damaged(name, fl, dmg):
            f = _write(d / name, fl=fl)
            with h5py.File(f, "a") as h5:
                dmg(h5)
            return _cues(f)[0]

        def set_index(vals):
            def dmg(h5):
                h5["events/index"][:] = vals
            return dmg

        def set_attr(key, val):
            def dmg(h5):
                h5.attrs[key] = val
            return dmg

        def del_attr(key):
            def dmg(h5):
                del h5.attrs[key]
            return dmg
        def short_index(h5):
            del h5["events/index"]
            h5["events/index"] = np.arange(1, 5)

        cases = [
            ("index with one entry too few", False, short_index, "index"),
            ("index starting at 0", False, set_index(np.arange(0, 5)), "index"),
            ("index with a gap", False, set_index(np.array([1, 2, 4, 5, 6])), "index"),
            ("index 2..6", False, set_index(np.arange(2, 7)), "index"),
            ("non-positive pixel size", False, set_attr("imaging:pixel size", 0.0), "pixel size"),
            ("negative flow rate", False, set_attr("setup:flow rate", -0.04), "flow rate"),
            ("image size contradicting the ROI", False, set_attr("imaging:roi size x", 9), "roi size x"),
            ("missing mandatory key", False, del_attr("setup:channel width"), "channel width"),
            ("channel count contradicting the data", True, set_attr("fluorescence:channel count", 3), "channel count"),
            ("laser count contradicting the metadata", True, set_attr("fluorescence:laser count", 2), "laser count"),
        ]
        for name, fl, dmg, needle in cases:
            try:
                viol = damaged("bad.rtdc", fl, dmg)
            except Exception as ex:
                return {"failed": True, "detail": f"{name}: the checker raises {type(ex).__name__}: {str(ex)[:100]} instead of "
                                                  f"reporting a violation"}
            if not any(needle in v for v in viol):
                return {"failed": True, "detail": f"{name}: no violation mentions '{needle}' (violations: {viol[:3]})"}
        # every image-like feature whose frame size contradicts the ROI is reported, one by one
        def resize(feats):
            def dmg(h5):
                for ft in feats:
                    old = h5["events"][ft]
                    attrs = dict(old.attrs)
                    data = np.zeros((old.shape[0], old.shape[1], old.shape[2] + 2), dtype=old.dtype)
                    del h5["events"][ft]
                    ds_ = h5["events"].create_dataset(ft, data=data)
                    for k_, v_ in attrs.items():
                        ds_.attrs[k_] = v_
            return dmg
        for feats in (("mask",), ("image",), ("image", "mask")):
            viol = damaged("roi.rtdc", False, resize(feats))
            for ft in feats:
                if not any("roi size x" in v and f"feature {ft} " in v for v in viol):
                    return {"failed": True, "detail": f"frames of {' and '.join(feats)} are 2 px wider than [imaging] 'roi size x': "
                                                      f"no violation names '{ft}' (violations: {viol[:3]})"}
        # a dataset whose only fluorescence data is the third channel is still checked for fluorescence metadata
        f = _write(d / "fl3.rtdc", fl=True, mutate=lambda m, f_: (f_.pop("fl1_max"), m.pop("fluorescence")))
        viol = _cues(f)[0]
        if not any("fluorescence" in v.lower() for v in viol):
            return {"failed": True, "detail": "a file with fl3_max but without the [fluorescence] section passes the check "
                                              f"(violations: {viol[:3]})"}
        # feature length differing from the event count
        import h5py
        f = _write(d / "size.rtdc")
        with h5py.File(f, "a") as h5:
            del h5["events/pos_x"]
            h5["events/pos_x"] = np.arange(3.0)
        viol = _cues(f)[0]
        if not any("pos_x" in v for v in viol):
            return {"failed": True, "detail": f"a feature of 3 entries in a file of 5 events is not reported (violations: {viol[:3]})"}
    return {"failed": False, "detail": "own output passes; every seeded inconsistency is reported as a violation"}


def in_carve_out(unit_name, inp):
    return None


def bounded_inputs(unit_name, rng):
    yield {"seed": 1}
