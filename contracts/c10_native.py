"""Native fault-injection harness for C10 (replay of counterexamples and the
bounded stand-in).  Runs the *real* command-line task functions of /repo on small
files in a scratch directory and

 * observes the file system immediately before every write-capable operation
   (the state a process killed at that point leaves behind), and
 * makes the k-th such operation raise OSError(EIO) instead of taking effect,

checking after each: every requested output path is absent or equivalent to the
result of an undisturbed run; every input file is byte-identical.

Instrumented operations (outermost call only): h5py.File(path, write mode),
File.close of a writable file, Group.create_dataset / create_group / __setitem__
/ __delitem__ / copy, h5py.h5o.copy, AttributeManager.__setitem__ / create /
modify, Dataset.__setitem__ / resize / write_direct, pathlib.Path.rename /
replace.
"""
from __future__ import annotations

import contextlib
import errno
import hashlib
import os
import pathlib
import shutil
import sys
import tempfile
import warnings

import numpy as np


def _repo():
    return os.environ.get("VERIF_REPO", "/repo")


def _import():
    if _repo() not in sys.path:
        sys.path.insert(0, _repo())
    import dclab   # noqa: F401
    from dclab.rtdc_dataset import writer, export
    # an untagged build writes a version that it refuses to read back
    for m in (writer, export):
        if str(getattr(m, "version", "")).startswith("0.0"):
            m.version = "0.60.0"
    return dclab


class Injected(OSError):
    pass


class Probe:
    """counts operations; optionally fails the k-th; optionally calls observe()
    before each"""

    def __init__(self, fail_at=None, observe=None):
        self.n = 0
        self.depth = 0
        self.fail_at = fail_at
        self.observe = observe
        self.ops = []
        self.failed_op = None
        self.writable = []     # (weakref to h5py.File, inode) of files opened write-capable

    def open_writable_inodes(self):
        out = set()
        for ref, ino in self.writable:
            f = ref()
            try:
                if f is not None and f.id.valid:
                    out.add(ino)
            except Exception:
                pass
        return out

    def hit(self, what):
        if self.depth:
            return
        self.n += 1
        self.ops.append(what)
        if self.observe is not None:
            self.depth += 1
            try:
                self.observe(self.n, what)
            finally:
                self.depth -= 1
        if self.fail_at is not None and self.n == self.fail_at:
            self.failed_op = what
            raise Injected(errno.EIO, f"injected I/O error at operation {self.n}: {what}")


@contextlib.contextmanager
def instrumented(probe):
    import h5py
    saved = []

    def patch(owner, name, label, cond=None):
        orig = getattr(owner, name)

        def wrapper(*a, **k):
            if cond is None or cond(*a, **k):
                probe.hit(label(*a, **k) if callable(label) else label)
            probe.depth += 1
            try:
                return orig(*a, **k)
            finally:
                probe.depth -= 1
        saved.append((owner, name, orig))
        setattr(owner, name, wrapper)

    def file_mode(self, name=None, mode="r", *a, **k):
        return mode not in ("r",)

    patch(h5py.File, "__init__", lambda self, name=None, mode="r", *a, **k: f"open({name}, {mode})", file_mode)
    inner_init = h5py.File.__init__

    def init_and_track(self, name=None, mode="r", *a, **k):
        import weakref
        r = inner_init(self, name, mode, *a, **k)
        if mode != "r":
            try:
                probe.writable.append((weakref.ref(self), os.stat(self.filename).st_ino))
            except OSError:
                pass
        return r
    h5py.File.__init__ = init_and_track
    patch(h5py.File, "close", lambda self: f"close({getattr(self, 'filename', '?')})",
          lambda self: bool(self.id.valid) and self.mode != "r")
    for nm in ("create_dataset", "create_group", "__setitem__", "__delitem__", "copy"):
        patch(h5py.Group, nm, (lambda nm: lambda self, *a, **k: f"Group.{nm}({self.name}, {a[0] if a else ''})")(nm))
    patch(h5py.h5o, "copy", "h5o.copy")
    for nm in ("__setitem__", "create", "modify"):
        patch(h5py.AttributeManager, nm, (lambda nm: lambda self, *a, **k: f"attrs.{nm}({a[0] if a else ''})")(nm))
    for nm in ("__setitem__", "resize", "write_direct"):
        patch(h5py.Dataset, nm, (lambda nm: lambda self, *a, **k: f"Dataset.{nm}({self.name})")(nm))
    for nm in ("rename", "replace"):
        patch(pathlib.Path, nm, (lambda nm: lambda self, target: f"Path.{nm}({self} -> {target})")(nm))
    try:
        yield probe
    finally:
        for owner, name, orig in reversed(saved):
            setattr(owner, name, orig)


# --------------------------------------------------------------------- inputs
def make_rtdc(path, n=7, seed=0, with_image=True, run_index=1, time="12:00:00", extra_feat=False):
    dclab = _import()
    from dclab.rtdc_dataset import RTDCWriter
    rng = np.random.default_rng(seed)
    with RTDCWriter(path, mode="reset") as hw:
        hw.store_metadata({"experiment": {"sample": "verif", "run index": run_index, "date": "2020-01-01",
                                          "time": time, "event count": n},
                           "imaging": {"pixel size": 0.34, "frame rate": 2000.0, "flash duration": 2.0,
                                       "roi size x": 8, "roi size y": 6, "roi position x": 0,
                                       "roi position y": 0},
                           "setup": {"channel width": 20.0, "chip region": "channel", "flow rate": 0.04,
                                     "medium": "CellCarrier", "temperature": 23.0, "software version": "verif 1",
                                     "identifier": "v-1", "module composition": "Cell_Flow_2", "flow rate sample": 0.01,
                                     "flow rate sheath": 0.03},
                           "online_contour": {"no absdiff": True}})
        hw.store_feature("deform", rng.uniform(0.01, 0.2, n))
        hw.store_feature("area_um", rng.uniform(20, 200, n))
        hw.store_feature("time", np.arange(n) * 0.01)
        hw.store_feature("frame", np.arange(1, n + 1))
        hw.store_feature("index_online", np.arange(1, n + 1))
        hw.store_feature("pos_x", rng.uniform(1, 2, n))
        hw.store_feature("bright_avg", rng.uniform(1, 2, n))
        if extra_feat:
            hw.store_feature("userdef1", rng.uniform(1, 2, n))
        if with_image:
            hw.store_feature("image", rng.integers(1, 200, (n, 6, 8), dtype=np.uint8))
        hw.store_log("some-log", ["line 1", "line 2"])
        hw.store_table("tab", np.rec.fromarrays([np.arange(3.), np.arange(3.) + 1], names=["a", "b"]))
    return pathlib.Path(path)


def sha(path):
    return hashlib.sha256(pathlib.Path(path).read_bytes()).hexdigest()


def digest(path):
    """what makes an output 'the complete result': every object with its shape,
    event data by content, the attributes that are not time stamps; and the file
    must load as a dataset whose features can be read"""
    import h5py
    dclab = _import()
    out = {}
    with h5py.File(path, "r") as h5:
        def visit(name, obj):
            if name.startswith("basins/"):
                # named by a hash that covers the (scratch) location of the input
                out["@basins"] = out.get("@basins", 0) + 1
                return
            import re
            name = re.sub(r"_\d{4}-\d\d-\d\d_\d\d\.\d\d\.\d\d", "_<timestamp>", name)
            if isinstance(obj, h5py.Dataset):
                ent = [str(obj.shape), str(obj.dtype)]
                if name.startswith("events/"):
                    ent.append(hashlib.sha256(np.ascontiguousarray(obj[...]).tobytes()).hexdigest()[:16])
                out[name] = ent
            else:
                out[name] = ["group", len(obj)]
        h5.visititems(visit)
        out["@attrs"] = sorted(k for k in h5.attrs)
    with dclab.new_dataset(path) as ds:
        n = len(ds)
        for feat in ds.features_innate:
            if len(ds[feat]) != n:
                raise ValueError(f"feature {feat} has {len(ds[feat])} of {n} events")
        out["@len"] = n
    return out


# ---------------------------------------------------------------------- tasks
class Scenario:
    """a task call on files in a fresh directory"""

    def __init__(self, name, build, call, outs):
        self.name, self.build, self.call, self.outs = name, build, call, outs


def _scenarios():
    dclab = _import()
    from dclab import cli
    S = {}

    def one_in(d, **kw):
        return [make_rtdc(d / "in.rtdc", **kw)]

    for tname, fn in (("compress", cli.compress), ("repack", cli.repack), ("condense", cli.condense)):
        S[tname] = Scenario(tname, one_in, (lambda fn: lambda d, ins: fn(path_in=ins[0], path_out=d / "out.rtdc"))(fn),
                            lambda d: [d / "out.rtdc"])
        S[tname + ":nosuffix"] = Scenario(tname, one_in,
                                          (lambda fn: lambda d, ins: fn(path_in=ins[0], path_out=d / "out"))(fn),
                                          lambda d: [d / "out.rtdc"])
        S[tname + ":stale"] = Scenario(tname, lambda d: one_in(d) + [make_rtdc(d / "out.rtdc", n=3, seed=5)][:0],
                                       (lambda fn: lambda d, ins: fn(path_in=ins[0], path_out=d / "out.rtdc"))(fn),
                                       lambda d: [d / "out.rtdc"])
        S[tname + ":alias"] = Scenario(tname, one_in,
                                       (lambda fn: lambda d, ins: fn(path_in=ins[0], path_out=ins[0]))(fn),
                                       lambda d: [])
        S[tname + ":alias-nosuffix"] = Scenario(
            tname, one_in, (lambda fn: lambda d, ins: fn(path_in=ins[0], path_out=d / "in"))(fn), lambda d: [])
        S[tname + ":alias-dotdot"] = Scenario(
            tname, one_in, (lambda fn: lambda d, ins: fn(path_in=ins[0], path_out=d / "parts" / ".." / "in.rtdc"))(fn),
            lambda d: [])

        def _call_link(d, ins, fn=fn):
            # the requested output is a symbolic link to the input
            (d / "link.rtdc").symlink_to(ins[0])
            return fn(path_in=ins[0], path_out=d / "link.rtdc")
        S[tname + ":alias-symlink"] = Scenario(tname, one_in, _call_link, lambda d: [])
        def _build_dangling(d):
            # the temporary name is a symbolic link to the (not yet existing) output
            ins = one_in(d)
            (d / "out.rtdc~").symlink_to(d / "out.rtdc")
            return ins
        S[tname + ":dangling-temp-link"] = Scenario(
            tname, _build_dangling, (lambda fn: lambda d, ins: fn(path_in=ins[0], path_out=d / "out.rtdc"))(fn),
            lambda d: [d / "out.rtdc"])
        S[tname + ":alias-temp"] = Scenario(
            tname, lambda d: [make_rtdc(d / "x.rtdc~")],
            (lambda fn: lambda d, ins: fn(path_in=ins[0], path_out=d / "x.rtdc", check_suffix=False))(fn),
            lambda d: [])
    S["join"] = Scenario("join",
                         lambda d: [make_rtdc(d / "a.rtdc", n=4, seed=1, run_index=1),
                                    make_rtdc(d / "b.rtdc", n=3, seed=2, run_index=2, time="12:00:05")],
                         lambda d, ins: cli.join(paths_in=list(ins), path_out=d / "out.rtdc"),
                         lambda d: [d / "out.rtdc"])
    S["join:alias"] = Scenario("join",
                               lambda d: [make_rtdc(d / "a.rtdc", n=4, seed=1, run_index=1),
                                          make_rtdc(d / "b.rtdc", n=3, seed=2, run_index=2, time="12:00:05")],
                               lambda d, ins: cli.join(paths_in=list(ins), path_out=ins[1]),
                               lambda d: [])
    def _build_split_stale(d):
        ins = one_in(d, n=7)
        (d / "parts").mkdir(exist_ok=True)
        make_rtdc(d / "parts" / "in_0002.rtdc~", n=2, seed=9)      # left behind by an interrupted run
        return ins
    S["split:stale-temp"] = Scenario("split", _build_split_stale,
                                     lambda d, ins: cli.split(path_in=ins[0], path_out=d / "parts", split_events=3),
                                     lambda d: [d / "parts" / f"in_{i:04d}.rtdc" for i in (1, 2, 3)])
    S["split"] = Scenario("split", lambda d: one_in(d, n=7),
                          lambda d, ins: cli.split(path_in=ins[0], path_out=d / "parts", split_events=3),
                          lambda d: [d / "parts" / f"in_{i:04d}.rtdc" for i in (1, 2, 3)])
    return S


def scenario_names():
    return list(_scenarios())


def _tdms_scenario():
    """tdms2rtdc needs a .tdms measurement: taken from the repository's test data"""
    import zipfile
    dclab = _import()
    from dclab import cli
    zp = pathlib.Path(_repo()) / "tests" / "data" / "fmt-tdms_minimal_2016.zip"
    if not zp.exists():
        return None

    def build(d):
        with zipfile.ZipFile(zp) as z:
            z.extractall(d / "tdms")
        return sorted((d / "tdms").rglob("*"), key=str)

    def call(d, ins):
        tdms = [p for p in ins if p.suffix == ".tdms" and not p.name.endswith("_traces.tdms")][0]
        return cli.tdms2rtdc(path_tdms=tdms, path_rtdc=d / "out.rtdc")
    return Scenario("tdms2rtdc", build, call, lambda d: [d / "out.rtdc"])


def get_scenario(name):
    if name == "tdms2rtdc":
        return _tdms_scenario()
    return _scenarios()[name]


def _prepare(sc, d):
    (d / "parts").mkdir(exist_ok=True)
    ins = [p for p in sc.build(d) if pathlib.Path(p).is_file()]
    if sc.name and sc.outs(d) and ":stale" in getattr(sc, "variant", ""):
        pass
    return ins


def run(scname, fail_at=None, observe_all=False, reference=None):
    """one run of the scenario in a fresh directory; returns a report dict with
    'violations' (list of str)"""
    sc = get_scenario(scname)
    if sc is None:
        return {"skipped": "scenario unavailable"}
    _import()
    viol = []
    with tempfile.TemporaryDirectory(prefix="c10_") as td, warnings.catch_warnings():
        warnings.simplefilter("ignore")
        d = pathlib.Path(td)
        ins = _prepare(sc, d)
        if scname.endswith(":stale"):
            make_rtdc(d / "out.rtdc", n=3, seed=5)
            make_rtdc(d / "out.rtdc~", n=2, seed=6)
        before = {str(p): sha(p) for p in ins}
        outs = sc.outs(d)
        probe = Probe(fail_at=fail_at)
        if observe_all:
            probe.observe = lambda n, what: state(f"killed before operation {n} [{what}]")

        def state(when):
            for p, h in before.items():
                if not os.path.exists(p):
                    viol.append(f"{when}: input {os.path.basename(p)} no longer exists")
                elif sha(p) != h:
                    viol.append(f"{when}: input {os.path.basename(p)} was modified")
            for o in outs:
                if o.exists():
                    if os.stat(o).st_ino in probe.open_writable_inodes():
                        viol.append(f"{when}: output {o.name} exists while a write-capable handle on it is "
                                    f"still open (buffered data is not on disk)")
                        continue
                    try:
                        dg = digest(o)
                    except BaseException as ex:
                        viol.append(f"{when}: output {o.name} exists but cannot be loaded "
                                    f"({type(ex).__name__}: {str(ex)[:80]})")
                        continue
                    if reference is not None and o.name in reference and dg != reference[o.name]:
                        diff = sorted(k for k in set(dg) | set(reference[o.name])
                                      if dg.get(k) != reference[o.name].get(k))
                        viol.append(f"{when}: output {o.name} exists but differs from the complete result in {diff[:6]}")

        outcome = "returned"
        with instrumented(probe):
            try:
                sc.call(d, ins)
            except Injected:
                outcome = "raised the injected error"
            except BaseException as ex:
                outcome = f"raised {type(ex).__name__}: {str(ex)[:100]}"
        if fail_at is not None and probe.failed_op is not None:
            state(f"after operation {fail_at} [{probe.failed_op}] failed ({outcome})")
        else:
            state(f"after the run ({outcome})")
        digests = {}
        if reference is None and fail_at is None:
            for o in outs:
                if o.exists():
                    try:
                        digests[o.name] = digest(o)
                    except BaseException as ex:
                        viol.append(f"undisturbed run: output {o.name} cannot be loaded: {ex}")
                elif outcome == "returned":
                    viol.append(f"undisturbed run: output {o.name} was not created")
    return {"scenario": scname, "nops": probe.n, "outcome": outcome, "violations": viol, "digests": digests,
            "failed_op": probe.failed_op, "ops": probe.ops}


def explore(scname, ks=None, stride=1, max_points=None):
    """reference run, kill observation at every operation, failure of every
    (stride-th) operation; returns (violations, stats)"""
    ref = run(scname)
    if ref.get("skipped"):
        return [], {"scenario": scname, "skipped": ref["skipped"]}
    viol = [f"{scname}: {v}" for v in ref["violations"]]
    kill = run(scname, observe_all=True, reference=ref["digests"])
    viol += [f"{scname}: {v}" for v in kill["violations"]]
    n = ref["nops"]
    tried = 0
    if ks is None:
        ks = list(range(1, n + 1, stride))
        if max_points and len(ks) > max_points:
            # the first and last operations (setup, close, rename) and an even spread between
            edge = max_points // 4
            mid = [ks[int(i * (len(ks) - 1) / (max_points - 2 * edge))] for i in range(max_points - 2 * edge)]
            ks = sorted(set(ks[:edge] + mid + ks[-edge:]))
    for k in ks:
        if k > n:
            continue
        r = run(scname, fail_at=k, reference=ref["digests"])
        tried += 1
        viol += [f"{scname}: {v}" for v in r["violations"]]
        if viol:
            break
    return viol, {"scenario": scname, "operations": n, "kill_points_observed": kill["nops"],
                  "failures_injected": tried, "undisturbed": ref["outcome"]}


def _explore_job(args):
    return explore(*args)


if __name__ == "__main__":
    import json
    names = sys.argv[1:] or scenario_names() + ["tdms2rtdc"]
    for nm in names:
        v, st = explore(nm, max_points=40 if nm == "tdms2rtdc" else None)
        print(json.dumps(st), "VIOLATIONS:" if v else "ok", *v[:5], sep="\n  " if v else " ")
