"""C11 — metadata values are type-normalised and survive storage unchanged.

Decided by contracts: the converters of definitions/meta_parse.py on numeric
input (result type and idempotence), the dispatch of
definitions/meta_logic.get_config_value_func for rule-named keys, and
ConfigurationDict.__setitem__ / update (every way of setting a value goes through
it): lower-cased key, value converted to the documented type, None / "" / unknown
keys not stored.  The text (.cfg) and HDF5 round trips are string / file-format
code outside the accepted subset: bounded round-trip stand-ins (labelled).
"""
import numpy as np
import z3

from pyvc import models, npmodel, h5model   # noqa: F401
from pyvc.contract import Contract
from pyvc.engine import LoopSpec, NS, PyRaise, Unsupported
from pyvc.sym import SArr, SObj, SReal, SInt, SBool, Z, to_z3, wrap

MP = "dclab/definitions/meta_parse.py"
MPMOD = "dclab.definitions.meta_parse"
CFG = "dclab/rtdc_dataset/config.py"
CFGMOD = "dclab.rtdc_dataset.config"


def trunc(x):
    """int(float(x)): truncation towards zero"""
    return z3.If(x >= 0, z3.ToInt(x), -z3.ToInt(-x))


class Converter(Contract):
    """meta_parse.<f>(value) for a numeric value (float, int or bool): the result has
    the documented type and equals the documented conversion (fint: truncation,
    fbool: value != 0, fboolorfloat: False for 0 and the float otherwise, bool for a
    bool); the conversion is idempotent."""
    path = MP
    module = MPMOD
    params = ("value",)
    inline = {"fbool"}

    def __init__(self, fn, kind):
        self.fn, self.kind = fn, kind
        self.qualname = fn
        self.name = f"meta_parse.{fn}[{kind} input]"
        super().__init__()

    def inputs(self, ctx):
        if self.kind == "float":
            v = ctx.real("value", inp=True)
        elif self.kind == "int":
            v = ctx.int("value", inp=True)
        else:
            v = ctx.bool("value", inp=True)
        self._v = v
        return {"value": v}

    def spec(self, v):
        """(type, z3 term) of the documented conversion of a z3 value of self.kind"""
        x = z3.ToReal(v) if z3.is_int(v) else (z3.If(v, z3.RealVal(1), z3.RealVal(0)) if z3.is_bool(v) else v)
        if self.fn == "fint":
            return "int", trunc(x)
        if self.fn == "fbool":
            return "bool", x != 0
        if self.fn == "fboolorfloat":
            if self.kind == "bool":
                return "bool", v
            return ("bool|float", None)
        raise KeyError(self.fn)

    def ensures(self, ctx, old, a, result):
        v = self._v.e
        typ, want = self.spec(v)
        if self.fn == "fboolorfloat" and self.kind != "bool":
            x = z3.ToReal(v) if z3.is_int(v) else v
            if isinstance(result, (bool, SBool)):
                return [("a zero value is stored as False", z3.And(x == 0, to_z3(result, "bool") == z3.BoolVal(False)))]
            return [("a non-zero number is stored as the float", z3.And(x != 0, to_z3(result, "real") == x,
                                                                     z3.BoolVal(isinstance(result, (float, SReal)))))]
        ok_type = {"int": isinstance(result, (int, SInt)) and not isinstance(result, (bool, SBool)),
                   "bool": isinstance(result, (bool, SBool))}[typ]
        posts = [(f"the result is of the documented type ({typ})", z3.BoolVal(ok_type)),
                 ("the result is the documented conversion", to_z3(result, typ) == want)]
        # idempotence of the specification (applied to its own result)
        if typ == "int":
            posts.append(("converting the result again changes nothing", trunc(z3.ToReal(want)) == want))
        else:
            posts.append(("converting the result again changes nothing",
                          (z3.If(want, z3.RealVal(1), z3.RealVal(0)) != 0) == want))
        return posts


CONV_UNITS = [Converter(f, k) for f in ("fint", "fbool", "fboolorfloat") for k in ("float", "int", "bool")]


# --------------------------------------------------------------------------
class ValueFunc(Contract):
    """get_config_value_func(section, key): the converter of a statically defined
    key is the one of the definition table; for online_filter keys named by rule,
    '... soft limit' is a boolean and '... polygon points' a float array, whether the
    key names one feature or a pair of features; every other key is left unchanged"""
    path = "dclab/definitions/meta_logic.py"
    module = "dclab.definitions.meta_logic"
    qualname = "get_config_value_func"
    params = ("section", "key")
    CASES = [("online_filter", "deform soft limit", "fbool"), ("online_filter", "area_um,deform soft limit", "fbool"),
             ("online_filter", "area_um,deform polygon points", "f2dfloatarray"), ("online_filter", "deform min", "identity"),
             ("online_filter", "target event count", "fint"), ("setup", "channel width", "float"),
             ("setup", "chip region", "lcstr"), ("experiment", "event count", "fint"), ("user", "anything", "identity"),
             ("qpi", "scale to filter", "fboolorfloat"), ("qpi", "sideband freq", "f1dfloatduple")]

    def __init__(self, case):
        self.case = case
        self.name = f"get_config_value_func[{case[0]}: {case[1]}]"
        super().__init__()

    def inputs(self, ctx):
        return {"section": self.case[0], "key": self.case[1]}

    def ensures(self, ctx, old, a, result):
        from dclab.definitions import meta_parse
        want = self.case[2]
        if want == "identity":
            from pyvc.engine import Closure
            ok = isinstance(result, Closure) or (callable(result) and getattr(result, "__name__", "") == "<lambda>")
        elif want == "float":
            ok = result is float
        else:
            ok = result is getattr(meta_parse, want)
        return [(f"the converter is {want}", z3.BoolVal(bool(ok)))]


# --------------------------------------------------------------------------
class ClsK(Contract):
    name = "CDClass._k"
    trusted = False

    def __call__(self, interp, cls, key):
        return key.lower() if isinstance(key, str) else key


class SuperSet(Contract):
    """UserDict.__setitem__: self.data[key] = value"""
    name = "Super.__setitem__"
    trusted = True

    def __call__(self, interp, sup, key, value):
        obj = sup.fields["obj"]
        interp.heap_write(obj)
        obj.fields["data"][key] = value
        return None


class SetItem(Contract):
    """ConfigurationDict.__setitem__(key, value): the key is stored in lower case; a
    value for a known key of the section is stored converted to the key's type; None,
    an empty string and unknown keys leave the dictionary unchanged."""
    path = CFG
    module = CFGMOD
    qualname = "ConfigurationDict.__setitem__"
    classes = {"ConfigurationDict": (CFG, "ConfigurationDict")}
    class_modules = {"ConfigurationDict": CFGMOD}
    inline = {"verify_section_key", "fint", "fbool", "fboolorfloat", "lcstr"}
    native = {"config_key_exists", "get_config_value_type", "get_config_value_func", "scalar_feature_exists"}
    params = ("self", "key", "value")
    CASES = [("setup", "Channel Width", "real", ("float",)), ("setup", "channel width", "none", None),
             ("setup", "channel width", "empty", None), ("setup", "no such key", "real", None),
             ("experiment", "Event Count", "real", ("int",)), ("online_filter", "deform soft limit", "real", ("bool",)),
             ("online_filter", "area_um,deform soft limit", "real", ("bool",)),
             ("user", "My Key", "real", ("same",)), (None, "Any Key", "real", ("same",)), ("user", "  ", "real", None)]

    def __init__(self, case):
        self.case = case
        sec, key, vk, want = case
        self.name = f"ConfigurationDict.__setitem__[{sec}: {key!r} = {vk}]"
        super().__init__()
        self.callees = {"CDClass._k": ClsK(), "Super.__setitem__": SuperSet()}

    def inputs(self, ctx):
        sec, key, vk, want = self.case
        cls = ctx.obj("CDClass", {}, name="ConfigurationDict")
        self._cd = ctx.obj("ConfigurationDict", {"section": sec, "data": {"other": 1}, "__class__": cls}, name="cd")
        self._v = ctx.real("value", inp=True)
        val = {"real": self._v, "none": None, "empty": ""}[vk]
        return {"self": self._cd, "key": key, "value": val}

    def ensures(self, ctx, old, a, result):
        sec, key, vk, want = self.case
        data = self._cd.fields["data"]
        lk = key.lower()
        if want is None:
            return [("nothing is stored", z3.BoolVal(data == {"other": 1}))]
        posts = [("exactly the lower-case key is added", z3.BoolVal(set(data) == {"other", lk}))]
        if lk in data:
            st = data[lk]
            v = self._v.e
            if want == ("float",) or want == ("same",):
                posts.append(("the value is stored as the float it is", to_z3(st, "real") == v))
            elif want == ("int",):
                posts.append(("the value is stored as an integer (truncated)",
                              z3.And(z3.BoolVal(isinstance(st, (int, SInt)) and not isinstance(st, (bool, SBool))),
                                     to_z3(st, "int") == trunc(v))))
            elif want == ("bool",):
                posts.append(("the value is stored as a boolean",
                              z3.And(z3.BoolVal(isinstance(st, (bool, SBool))), to_z3(st, "bool") == (v != 0))))
        return posts


class Update(Contract):
    """ConfigurationDict.update(E, **F): every entry is stored through __setitem__"""
    path = CFG
    module = CFGMOD
    qualname = "ConfigurationDict.update"
    classes = {"ConfigurationDict": (CFG, "ConfigurationDict")}
    class_modules = {"ConfigurationDict": CFGMOD}
    params = ("self", "E")
    name = "ConfigurationDict.update"

    class Rec(Contract):
        name = "ConfigurationDict.__setitem__"

        def __call__(self, interp, cd, key, value):
            interp.cur_frame.unit._calls.append((key, value))
            return None

    def __init__(self):
        super().__init__()
        self.callees = {"ConfigurationDict.__setitem__": self.Rec()}

    def inputs(self, ctx):
        self._calls = []
        self._a, self._b = ctx.real("a"), ctx.real("b")
        cd = ctx.obj("ConfigurationDict", {"section": "setup", "data": {}}, name="cd")
        return {"self": cd, "E": {"Channel Width": self._a, "flow rate": self._b}}

    def ensures(self, ctx, old, a, result):
        return [("every given entry is handed to __setitem__ (conversion and checks apply)",
                 z3.BoolVal(self._calls == [("Channel Width", self._a), ("flow rate", self._b)]))]


class RoundTrip(Contract):
    """Configuration.tostring / load_from_file, RTDCWriter.store_metadata / the HDF5
    reader: text and file formats (outside the accepted subset; bounded stand-in)"""
    path = CFG
    module = CFGMOD
    qualname = "load_from_file"
    params = ("cfg_file",)
    bounded_by_design = True

    def __init__(self, which):
        self.which = which
        self.name = f"metadata round trip through {which}"
        super().__init__()

    def inputs(self, ctx):
        raise Unsupported("text / HDF5 attribute formats")


UNITS = CONV_UNITS + [ValueFunc(c) for c in ValueFunc.CASES] + [SetItem(c) for c in SetItem.CASES] \
    + [Update(), RoundTrip("a .cfg text file"), RoundTrip("an .rtdc file and export")]
TRUSTED = [SuperSet()]
TRUSTED_BASE = ["collections.UserDict stores into self.data", "real arithmetic stands for float; int(float(x)) truncates"]
ASSUMPTIONS = ["string-valued input of the converters ('true', '1.0', '[1, 2]') and the text / HDF5 formats are covered by the "
               "bounded round-trip stand-ins only"]


# --------------------------------------------------------------------------
# replay / bounded stand-ins on the real code
# --------------------------------------------------------------------------
def _norm(v):
    """canonical form for 'compares equal': numeric sequences (list, tuple, array -- HDF5 hands
    back arrays) by shape and values; scalars by type class and value"""
    if isinstance(v, np.ndarray) or (isinstance(v, (list, tuple)) and v
                                     and all(isinstance(x, (int, float, np.number)) and not isinstance(x, bool) for x in v)):
        arr = np.asarray(v, dtype=float)
        return ("seq", arr.shape, tuple(arr.ravel().tolist()))
    if isinstance(v, (list, tuple)):
        return tuple(_norm(x) for x in v)
    if isinstance(v, (bool, np.bool_)):
        return ("bool", bool(v))
    if isinstance(v, (int, np.integer)):
        return ("int", int(v))
    if isinstance(v, (float, np.floating)):
        return ("float", float(v))
    if isinstance(v, bytes):
        return ("str", v.decode("utf-8"))
    return ("str", str(v))


def _sample_config(rng):
    """values for known keys of all types, dynamic online_filter keys and user entries"""
    import dclab
    cfg = {
        "experiment": {"Date": "2020-01-%02d" % rng.randint(1, 28), "event count": rng.randint(1, 10 ** 6), "run index": rng.randint(1, 9),
                       "sample": rng.choice(["plain", "with # hash", "a = b", "ünï", "x;y", "50% [v/v]", "tab\there", "0042",
                                             "true", "1e3", "1,5"]),
                       "time": "12:00:%02d.5" % rng.randint(0, 59)},
        "imaging": {"pixel size": rng.choice([0.34, 0.3412345678901234, 1e-7, "0.34"]), "frame rate": rng.choice([float(rng.randint(100, 4000)), "2000"]),
                    "roi size x": rng.randint(10, 400), "flash device": "LED"},
        "setup": {"channel width": rng.choice([20.0, 30.0]), "chip region": rng.choice(["Channel", "reservoir"]),
                  "flow rate": rng.choice([0.04, 0.16, 1e-3]), "medium": rng.choice(["CellCarrier", "0.49% MC-PBS", "other"]),
                  "software version": "ShapeIn 2.0.1 | dclab 0.1", "temperature": 23.5,
                  "chip identifier": rng.choice(["0017", "ZMD-1", "1e2"]), "identifier": rng.choice(["20230101", "rig 7"])},
        "online_contour": {"no absdiff": rng.random() < 0.5, "bin threshold": -rng.randint(0, 9)},
        "online_filter": {"target event count": rng.randint(0, 5000), "deform soft limit": rng.random() < 0.5,
                          "area_um,deform soft limit": rng.random() < 0.5,
                          "area_um,deform polygon points": [[rng.random(), rng.random()] for _ in range(3)],
                          "deform min": 0.01, "area_um max": 200.5},
        "qpi": {"scale to filter": rng.choice([False, True, 0.5, "0.5", "2", "1e-2", "True", "0"]), "sideband freq": (0.1, -0.2), "wavelength": 532.0},
        "user": {"My Key": rng.choice([1, 2.5, "text", True]), "a:b": "colon", "with space ": 3, "ünï": "ü",
                 "one element list": [7], "one element tuple": (12.5,), "one element array": np.array([3]),
                 "two elements": [1, 2]},
    }
    return cfg


def _expected(cfg):
    """normalised originals: what dclab itself stores when the values are assigned"""
    import dclab
    from dclab.rtdc_dataset.config import Configuration
    c = Configuration()
    for sec, kv in cfg.items():
        for k, v in kv.items():
            c[sec][k] = v
    return c


def _replay_text(inp):
    """a configuration file is one of the ways of setting values: every value loaded
    from it has the documented type of its key and is a fixed point of assignment"""
    import pathlib
    import random
    import tempfile
    import warnings
    import dclab.definitions as dfn
    from dclab.rtdc_dataset.config import Configuration
    rng = random.Random(int(inp.get("seed", 1)))
    with warnings.catch_warnings(), tempfile.TemporaryDirectory(prefix="c11_") as td:
        warnings.simplefilter("ignore")
        for trial in range(int(inp.get("trials", 6))):
            cfg = _sample_config(rng)
            want = _expected(cfg)
            # text given as bytes is the text
            for sec, k, b_, want_ in (("experiment", "sample", b"blood", "blood"), ("setup", "chip region", b"Channel", "channel"),
                                      ("setup", "medium", np.bytes_(b"CellCarrier"), "CellCarrier"), ("user", "note", b"\xc3\xbc", "ü")):
                ref = Configuration()
                ref[sec][k] = b_
                if k not in ref[sec] or ref[sec][k] != want_ or not isinstance(ref[sec][k], str):
                    return {"failed": True, "detail": f"[{sec}] '{k}' = {b_!r} (bytes) is stored as {ref[sec].get(k)!r}, "
                                                      f"expected the text {want_!r}"}
            # a number given as text is the number: the same as assigning the number itself
            for sec in cfg:
                for k, orig in cfg[sec].items():
                    if not isinstance(orig, str) or k.lower() not in want[sec]:
                        continue
                    try:
                        num = float(orig)
                    except ValueError:
                        continue
                    typ = dfn.get_config_value_type(sec, k.lower())
                    if typ is None or str in (typ if isinstance(typ, tuple) else (typ,)) or num != num:
                        continue
                    ref = Configuration()
                    ref[sec][k] = int(num) if num == int(num) and "." not in orig and "e" not in orig.lower() else num
                    if k.lower() in ref[sec] and _norm(ref[sec][k.lower()]) != _norm(want[sec][k.lower()]):
                        return {"failed": True, "detail": f"[{sec}] '{k}': the text {orig!r} is stored as {want[sec][k.lower()]!r}, "
                                                          f"the number itself as {ref[sec][k.lower()]!r}"}
            f = pathlib.Path(td) / f"c{trial}.cfg"
            text_cfg = _expected({sec: {k: v for k, v in kv.items() if not isinstance(want[sec].get(k), (np.ndarray, tuple, list))}
                                  for sec, kv in cfg.items()})
            text_cfg.save(f)
            got = Configuration(files=[f])
            # key names are case-insensitive in files as well
            f2 = pathlib.Path(td) / f"c{trial}_caps.cfg"
            f2.write_text("\n".join((li.split("=", 1)[0].title() + "=" + li.split("=", 1)[1]) if "=" in li and not li.startswith("[")
                                     else li for li in f.read_text().split("\n")))
            got_caps = Configuration(files=[f2])
            for sec in cfg:
                for k in got[sec].keys():
                    if k not in got_caps[sec] or _norm(got_caps[sec][k]) != _norm(got[sec][k]):
                        return {"failed": True, "detail": f"[{sec}] '{k}': a .cfg file with the key written '{k.title()}' loads "
                                                          f"{got_caps[sec].get(k)!r}, with the lower-case key {got[sec][k]!r}"}
            for sec in cfg:
                for k in got[sec].keys():
                    v = got[sec][k]
                    typ = dfn.get_config_value_type(sec, k)
                    if sec == "online_filter" and (k.endswith(" min") or k.endswith(" max")) and not inp.get("with_ranges"):
                        continue          # known finding D29
                    if typ is not None and not isinstance(v, typ):
                        return {"failed": True, "detail": f"[{sec}] '{k}' loaded from a .cfg file is {v!r} of type "
                                                          f"{type(v).__name__}, documented type {typ}"}
                    w = want[sec][k] if k in want[sec] else None
                    if isinstance(w, str) and "#" not in w and w == w.strip(" '\"") and _norm(v) != _norm(w):
                        # text without comment / quote characters is taken as it is: the same as item assignment
                        return {"failed": True, "detail": f"[{sec}] '{k}': the text {w!r} in a .cfg file is loaded as {v!r}; "
                                                          f"item assignment of the same text stores {w!r}"}
                    again = Configuration()
                    again[sec][k.upper()] = v
                    if k not in again[sec] or _norm(again[sec][k]) != _norm(v):
                        return {"failed": True, "detail": f"[{sec}] '{k}': assigning the loaded value {v!r} again gives "
                                                          f"{again[sec].get(k)!r}"}
            # item assignment of the originals is idempotent and case-insensitive
            again = _expected({sec: {k.upper(): want[sec][k] for k in want[sec].keys()} for sec in cfg})
            for sec in cfg:
                for k in want[sec].keys():
                    if _norm(again[sec][k]) != _norm(want[sec][k]):
                        return {"failed": True, "detail": f"[{sec}] '{k}': assigning the normalised value {want[sec][k]!r} again "
                                                          f"(upper-case key) gives {again[sec][k]!r}"}
    return {"failed": False, "detail": "values loaded from a .cfg file have the documented types; assignment is idempotent"}


def _replay_hdf5(inp):
    import pathlib
    import random
    import tempfile
    import warnings
    import dclab
    from dclab.rtdc_dataset import RTDCWriter, writer, export
    for m in (writer, export):
        if str(getattr(m, "version", "")).startswith("0.0"):
            m.version = "0.60.0"
    rng = random.Random(int(inp.get("seed", 1)))
    with warnings.catch_warnings(), tempfile.TemporaryDirectory(prefix="c11_") as td:
        warnings.simplefilter("ignore")
        for trial in range(int(inp.get("trials", 4))):
            cfg = _sample_config(rng)
            cfg["experiment"]["event count"] = 5
            want = _expected(cfg)
            f = pathlib.Path(td) / f"m{trial}.rtdc"
            meta = {sec: dict(want[sec]) for sec in cfg}
            with RTDCWriter(f, mode="reset") as hw:
                hw.store_metadata(meta)
                hw.store_feature("deform", np.linspace(0.01, 0.02, 5))
                hw.store_feature("area_um", np.linspace(50, 60, 5))
            with dclab.new_dataset(f) as ds:
                for stage, dsx in (("written and read back", ds),):
                    for sec in cfg:
                        for k in want[sec].keys():
                            if sec == "setup" and k == "software version":
                                continue          # the writer appends its own version
                            if k not in dsx.config[sec]:
                                return {"failed": True, "detail": f"[{sec}] '{k}' = {want[sec][k]!r} is lost when {stage}"}
                            if _norm(dsx.config[sec][k]) != _norm(want[sec][k]):
                                return {"failed": True, "detail": f"[{sec}] '{k}': stored {want[sec][k]!r}, {stage}: "
                                                                  f"{dsx.config[sec][k]!r}"}
                f2 = pathlib.Path(td) / f"e{trial}.rtdc"
                ds.export.hdf5(f2, features=["deform", "area_um"], filtered=False)
            with dclab.new_dataset(f2) as ds2:
                for sec in cfg:
                    for k in want[sec].keys():
                        if (sec, k) in (("setup", "software version"), ("experiment", "run identifier")):
                            continue
                        if k not in ds2.config[sec] or _norm(ds2.config[sec][k]) != _norm(want[sec][k]):
                            return {"failed": True, "detail": f"[{sec}] '{k}' = {want[sec][k]!r} is not carried over by export "
                                                              f"(got {ds2.config[sec].get(k)!r})"}
    return {"failed": False, "detail": "metadata survive store_metadata / reading / export unchanged"}


def replay(unit_name, inp, obligation=""):
    if unit_name.startswith("metadata round trip through a .cfg"):
        return _replay_text(inp)
    if unit_name.startswith("metadata round trip through an .rtdc"):
        return _replay_hdf5(inp)
    if unit_name.startswith("meta_parse."):
        from dclab.definitions import meta_parse
        fn = getattr(meta_parse, unit_name.split(".")[1].split("[")[0])
        v = inp.get("value", 0)
        try:
            r = fn(v)
            r2 = fn(r)
        except Exception as ex:
            return {"failed": True, "detail": f"{unit_name}({v!r}) raises {type(ex).__name__}: {ex}"}
        if _norm(r) != _norm(r2):
            return {"failed": True, "detail": f"{unit_name}: {v!r} -> {r!r} -> {r2!r} (not idempotent)"}
        return {"failed": False, "detail": "idempotent on the model's value"}
    if unit_name.startswith("ConfigurationDict") or unit_name.startswith("get_config_value_func"):
        out = _replay_text({"seed": 3, "trials": 3})
        return out if out["failed"] else _replay_hdf5({"seed": 3, "trials": 2})
    return {"failed": None, "detail": "no replay for " + unit_name}


def in_carve_out(unit_name, inp):
    return None


def bounded_inputs(unit_name, rng):
    for s in range(5):
        yield {"seed": s, "trials": 5}
