"""C12 — statistics and density estimates are computed from exactly the filtered
events.

Decided by contracts:
 * Statistics.get_feature (proof over symbolic arrays): the data handed to every
   per-feature statistic are the finite values of the feature at the events that
   pass the filter (all events with filtering disabled), in order;
 * Statistics.__call__: NaN for no data, else the registered method applied to
   exactly that data; the registry maps Mean / Median / SD to numpy's average /
   median / std;
 * data flow of RTDCBase.get_kde_scatter / get_kde_contour and
   kde_contours.get_quantile_levels (structural signatures): every feature read is
   immediately restricted to filter.all, scaling is applied to the restricted
   data, the estimator receives only those, grid and quantile computations drop
   NaN *and* infinite events (get_bad_vals of both coordinates).

Not decided (stated): the estimators themselves against reference estimators
(2-D histogram spline, Gaussian and product kernels in scipy / statsmodels code)
and the quantile-level bisection; exercised by the bounded layer only.
"""
import numpy as np
import z3

from pyvc import models, npmodel, h5model, rngmodel   # noqa: F401
from pyvc.contract import Contract
from pyvc.engine import LoopSpec, NS, PyRaise, sig_of, SIGS
from pyvc.models import where_idx
from pyvc.sym import SArr, SObj, SOpaque, F, Elem, Z, to_z3, wrap

STAT = "dclab/statistics.py"
SMOD = "dclab.statistics"
CORE = "dclab/rtdc_dataset/core.py"
CMOD = "dclab.rtdc_dataset.core"


class DsFeat(Contract):
    name = "DS.__getitem__"
    trusted = True

    def __call__(self, interp, ds, key):
        return ds.fields["_feats"][key]


class CfgGet(Contract):
    name = "Config.__getitem__"
    trusted = True

    def __call__(self, interp, cfg, key):
        return cfg.fields["_d"][key]


class GetFeature(Contract):
    """Statistics.get_feature(ds, feat): the finite values of ds[feat] at the events
    selected by ds.filter.all (at all events when 'enable filters' is off), in
    order -- what the same call returns on a dataset holding only those events."""
    path = STAT
    module = SMOD
    qualname = "Statistics.get_feature"
    classes = {"Statistics": (STAT, "Statistics")}
    class_modules = {"Statistics": SMOD}
    params = ("self", "ds", "feat")
    count_masks = True

    def __init__(self, enabled, remove_invalid):
        self.enabled, self.remove_invalid = enabled, remove_invalid
        self.name = f"Statistics.get_feature[filters {'on' if enabled else 'off'}" \
                    f"{', remove invalid events set' if remove_invalid else ''}]"
        super().__init__()
        self.callees = {"DS.__getitem__": DsFeat(), "Config.__getitem__": CfgGet()}

    def inputs(self, ctx):
        n = ctx.int("N", lo=0, inp=True)
        X = ctx.arr("deform", "F", n=n.e, inp=True, dtype=np.dtype("float64"))
        fa = ctx.arr("filter_all", "bool", n=n.e, inp=True)
        cfg = ctx.obj("Config", {"_d": {"filtering": {"enable filters": self.enabled,
                                                      "remove invalid events": self.remove_invalid}}})
        ds = ctx.obj("DS", {"_feats": {"deform": X}, "config": cfg, "filter": ctx.obj("Filter", {"all": fa})}, name="ds")
        self._X, self._fa, self._n = X, fa, n.e
        return {"self": ctx.obj("Statistics", {}), "ds": ds, "feat": "deform"}

    def ensures(self, ctx, old, a, result):
        fake = NS({"ctx": ctx, "cur_frame": None})
        X, fa = self._X, SArr(self._fa.n, self._fa.a, "bool")
        sel = models.arr_new(fake, self._n, lambda k: z3.And(fa.sel(k) if self.enabled else z3.BoolVal(True),
                                                               F.is_fin(X.sel(k))), "bool")
        sel = SArr(sel.n, sel.a, "bool")
        idx = where_idx(fake, sel)
        i, k = z3.Int("i!gf"), z3.Int("k!gf")
        # the code selects in two steps (filter.all, then the finite values of the selection): the combined mask
        # c = scatter(not-bad into filter.all) enumerates the composition (N-COUNT-MASKSET), and equals `sel`
        if not hasattr(a, "bad"):
            # the function returned before it looked for NaN / infinite values
            return [("every returned value is finite",
                     z3.ForAll([i], z3.Implies(z3.And(i >= 0, i < result.n), F.is_fin(result.sel(i))))),
                    ("the returned values are the feature at the selected finite events, in order, nothing else",
                     z3.And(result.n == idx.n,
                            z3.ForAll([i], z3.Implies(z3.And(i >= 0, i < idx.n), result.sel(i) == X.sel(idx.sel(i))))))]
        notbad = models.unaryop(fake, "Invert", a.bad)
        if self.enabled:
            fake2 = NS({"ctx": ctx, "cur_frame": NS({"unit": self}), "heap_write": lambda o: None})
            c = models.arr_new(fake2, self._n, lambda k_: z3.BoolVal(False), "bool")
            rngmodel._arr_setitem(fake2, c, fa, SArr(notbad.n, notbad.a, "bool"))
            ctx.assume(models.where_ext(fake, sel, SArr(c.n, c.a, "bool")))
        else:
            ctx.assume(models.where_ext(fake, sel, SArr(notbad.n, notbad.a, "bool")))
        # the code selects in two steps (filter, then finite): link the enumerations
        posts = [("every returned value is finite",
                  z3.ForAll([i], z3.Implies(z3.And(i >= 0, i < result.n), F.is_fin(result.sel(i))))),
                 ("the returned values are the feature at the selected finite events, in order, nothing else",
                  z3.And(result.n == idx.n,
                         z3.ForAll([i], z3.Implies(z3.And(i >= 0, i < idx.n), result.sel(i) == X.sel(idx.sel(i))))))]
        return posts


class StatCall(Contract):
    """Statistics.__call__(ds=.., feature=..): NaN for an empty selection, otherwise the
    registered method applied to exactly the data of get_feature"""
    path = STAT
    module = SMOD
    qualname = "Statistics.__call__"
    classes = {"Statistics": (STAT, "Statistics")}
    class_modules = {"Statistics": SMOD}
    inline = {"Statistics._get_data"}
    params = ("self", "kwargs")
    name = "Statistics.__call__"

    class GF(Contract):
        name = "Statistics.get_feature"

        def __call__(self, interp, st, ds, feat):
            interp.cur_frame.unit._asked = (ds, feat)
            return interp.cur_frame.unit._data

    class Method(Contract):
        name = "Statistics.method"

        def __call__(self, interp, st, data):
            interp.cur_frame.unit._applied_to = data
            return interp.cur_frame.unit._value

    def __init__(self):
        super().__init__()
        self.callees = {"Statistics.get_feature": self.GF(), "Statistics.method": self.Method()}

    def inputs(self, ctx):
        self._data = ctx.arr("selected_data", "F")
        self._value = ctx.real("statistic")
        self._ds = ctx.obj("DS", {"title": "t"}, name="ds")
        self._asked = self._applied_to = None
        st = ctx.obj("Statistics", {"name": "Mean", "req_feature": True}, name="stat")
        return {"self": st, "kwargs": {"ds": self._ds, "feature": "deform"}}

    def bind_kwargs(self):
        return True

    def ensures(self, ctx, old, a, result):
        asked = self._asked or (None, None)
        empty = self._data.n == 0
        if self._applied_to is None:
            return [("no data: the statistic is NaN", z3.And(empty, z3.BoolVal(isinstance(result, float) and result != result))),
                    ("the data of get_feature(ds, feature) were requested", z3.BoolVal(asked[0] is self._ds and asked[1] == "deform"))]
        return [("the method is applied to exactly the data of get_feature(ds, feature)",
                 z3.And(z3.Not(empty), z3.BoolVal(self._applied_to is self._data and asked[0] is self._ds
                                                  and asked[1] == "deform" and result is self._value)))]


# --------------------------------------------------------------------------
# data flow of the density functions (structural signatures)
# --------------------------------------------------------------------------
def _tag(v, sig):
    SIGS[id(v)] = (v, sig)
    return v


class KdeDS(Contract):
    name = "DS.__getitem__"
    trusted = True

    def __call__(self, interp, ds, key):
        return _tag(SOpaque(interp.ctx.const("feature_" + key, Elem)), ("feature", key))


class Rec(Contract):
    """records a call (name, argument signatures) and returns an opaque value tagged with it"""
    trusted = True

    def __init__(self, name, nres=1):
        self.name, self.nres = name, nres
        super().__init__()

    def __call__(self, interp, *args, **kw):
        args = [x for x in args if not (isinstance(x, SObj) and x.clsname in ("DS", "RTDCBaseCls"))]
        sig = (self.name, tuple(sig_of(x) for x in args), tuple(sorted((k, sig_of(v)) for k, v in kw.items())))
        interp.cur_frame.unit._calls.append(sig)
        if self.nres == 1:
            return _tag(SOpaque(interp.ctx.const(self.name.split(".")[-1], Elem)), sig)
        return tuple(_tag(SOpaque(interp.ctx.const(f"{self.name.split('.')[-1]}{i}", Elem)), (sig, i)) for i in range(self.nres))


def _kde_stub(**kw):      # stands for kde_methods.methods[kde_type]
    raise RuntimeError("only called symbolically")


models._MODELS[_kde_stub] = lambda interp, **kw: Rec("kde_fct")(interp, **kw)

FILT = lambda feat: ("getitem", ("feature", feat), ("filter_all",))     # noqa: E731


class KdeFlow(Contract):
    path = CORE
    module = CMOD
    classes = {"DS": (CORE, "RTDCBase")}
    class_modules = {"DS": CMOD}
    opaque_arith = True

    def __init__(self, which, scale):
        self.which, self.scale = which, scale
        self.qualname = "RTDCBase." + which
        self.name = f"RTDCBase.{which}[{scale}]"
        self.params = {"get_kde_scatter": ("self", "xax", "yax", "positions", "kde_type", "kde_kwargs", "xscale", "yscale"),
                       "get_kde_contour": ("self", "xax", "yax", "xacc", "yacc", "kde_type", "kde_kwargs", "xscale", "yscale")}[which]
        super().__init__()
        self.callees = {"DS.__getitem__": KdeDS(), "RTDCBase._apply_scale": Rec("_apply_scale"), "_apply_scale": Rec("_apply_scale"),
                        "RTDCBase.get_kde_spacing": Rec("get_kde_spacing", 2), "get_kde_spacing": Rec("get_kde_spacing", 2),
                        "get_bad_vals": Rec("get_bad_vals"), "kde_histogram": Rec("kde_fct")}

    def get_globals(self):
        g = dict(super().get_globals())
        unit = self

        class _Methods(dict):
            pass
        km = g["kde_methods"]
        import types
        fake = types.SimpleNamespace(**{k: getattr(km, k) for k in dir(km) if not k.startswith("__")})
        fake.methods = {"histogram": _kde_stub}
        g["kde_methods"] = fake
        return g

    def inputs(self, ctx):
        fa = _tag(SOpaque(ctx.const("filter_all", Elem)), ("filter_all",))
        ds = ctx.obj("DS", {"filter": ctx.obj("Filter", {"all": fa})}, name="ds")
        self._calls = []
        d = {"self": ds, "xax": "area_um", "yax": "deform", "kde_type": "histogram", "kde_kwargs": None,
             "xscale": self.scale, "yscale": self.scale}
        if self.which == "get_kde_scatter":
            d["positions"] = None
        else:
            d["xacc"] = None
            d["yacc"] = None
        return d

    def ensures(self, ctx, old, a, result):
        calls = self._calls
        names = [c[0] for c in calls]
        fx, fy = FILT("area_um"), FILT("deform")
        posts = []
        if self.which == "get_kde_scatter":
            sc = [c for c in calls if c[0] == "_apply_scale"]
            ok_scale = len(sc) == 2 and sc[0][1][0] == fx and sc[1][1][0] == fy
            kd = [c for c in calls if c[0] == "kde_fct"]
            ok_kde = len(kd) <= 1 and all(dict(c[2]).get("events_x") == sc[0] and dict(c[2]).get("events_y") == sc[1] for c in kd) \
                if ok_scale else False
            posts.append(("the scaling is applied to the feature data restricted to filter.all", z3.BoolVal(ok_scale)))
            posts.append(("the estimator receives exactly the scaled, filtered events", z3.BoolVal(bool(ok_kde))))
        else:
            sp = [c for c in calls if c[0] == "get_kde_spacing"]
            # nothing selected: an empty grid and an empty density, nothing is computed
            lens = list(ctx.__dict__.get("_opaque_len", {}).values())
            empty_result = isinstance(result, tuple) and len(result) == 3 \
                and all(isinstance(r, np.ndarray) and r.size == 0 for r in result)
            if empty_result and not calls:
                return [("an empty grid is returned only when no event is selected",
                         z3.Or(*[ln.e == 0 for ln in lens]) if lens else z3.BoolVal(False))]
            ok_sp = len(sp) == 2 and dict(sp[0][2]).get("a") == fx and dict(sp[1][2]).get("a") == fy \
                and all(dict(c[2]).get("ret_scaled") == ("const", "True") for c in sp)
            posts.append(("bin spacing and scaled data are computed by get_kde_spacing from the feature data restricted to "
                          "filter.all", z3.BoolVal(ok_sp)))
            bad = [c for c in calls if c[0] == "get_bad_vals"]
            ok_bad = ok_sp and len(bad) == 1 and bad[0][1] == ((sp[0], 1), (sp[1], 1))
            posts.append(("NaN and infinite events of both scaled coordinates are dropped before the grid is laid out",
                          z3.BoolVal(bool(ok_bad))))
            kd = [c for c in calls if c[0] == "kde_fct"]
            ok_kde = ok_sp and all(dict(c[2]).get("events_x") == (sp[0], 1) and dict(c[2]).get("events_y") == (sp[1], 1) for c in kd)
            posts.append(("the estimator receives exactly the scaled, filtered events", z3.BoolVal(bool(ok_kde))))
        return posts

    def exceptional(self, ctx, old, a, exc):
        return z3.BoolVal(True)


class QuantileFlow(Contract):
    """kde_contours.get_quantile_levels: the density is interpolated at the events whose
    coordinates are both finite (get_bad_vals of both), and the level is the
    q-percentile of those interpolated densities"""
    path = "dclab/kde_contours.py"
    module = "dclab.kde_contours"
    qualname = "get_quantile_levels"
    name = "kde_contours.get_quantile_levels"
    params = ("density", "x", "y", "xp", "yp", "q", "normalize")
    opaque_arith = True

    def __init__(self):
        super().__init__()
        self.callees = {"get_bad_vals": Rec("get_bad_vals")}

    def inputs(self, ctx):
        self._calls = []
        mk = lambda n: _tag(SOpaque(ctx.const(n, Elem)), ("input", n))   # noqa: E731
        dens, x, y = ctx.obj("Grid", {"shape": (5, 5)}, name="density"), ctx.obj("Axis", {"shape": (5,)}, name="x"), \
            ctx.obj("Axis", {"shape": (5,)}, name="y")
        return {"density": dens, "x": x, "y": y, "xp": mk("xp"), "yp": mk("yp"), "q": 0.5, "normalize": False}

    def ensures(self, ctx, old, a, result):
        bad = [c for c in self._calls if c[0] == "get_bad_vals"]
        ok = len(bad) == 1 and bad[0][1] == (("input", "xp"), ("input", "yp"))
        sig = repr(sig_of(result))
        uses = "get_bad_vals" in sig and "nanpercentile" in sig and "interpn" in sig
        return [("events with a NaN or infinite coordinate are identified by get_bad_vals(xp, yp)", z3.BoolVal(ok)),
                ("the level is the percentile of the density interpolated at the remaining events", z3.BoolVal(uses))]


h5model.OBJ_METHODS[("Axis", "max")] = lambda interp, o: _tag(SOpaque(interp.ctx.const("axis_max", Elem)), ("max", o.name))
h5model.OBJ_METHODS[("Grid", "max")] = lambda interp, o: _tag(SOpaque(interp.ctx.const("grid_max", Elem)), ("max", "density"))


UNITS = [GetFeature(True, False), GetFeature(False, False), GetFeature(True, True), GetFeature(False, True), StatCall()] \
    + [KdeFlow(w, s) for w in ("get_kde_scatter", "get_kde_contour") for s in ("linear", "log")] + [QuantileFlow()]
TRUSTED = [DsFeat(), CfgGet(), KdeDS()]
TRUSTED_BASE = ["N-WHERE / N-MASK, N-COUNT-MASKSET (enumeration of a two-step selection)",
                "the kernel density estimators, scipy.interpolate.interpn and numpy's percentile are outside the contracts"]
ASSUMPTIONS = ["the data-flow obligations are structural (signatures of opaque values): they show which data reach the estimator, "
               "not what the estimator computes"]


def registry_check():
    """the statistics registry maps the documented names to numpy's definitions"""
    import dclab.statistics as st
    av = st.Statistics.available_methods
    want = {"Mean": np.average, "Median": np.median, "SD": np.std}
    bad = [k for k, f in want.items() if av[k].method is not f or not av[k].req_feature]
    return bad


def extra_checks(run):
    import json as _json
    from pyvc.run import HERE
    run.n_ob += 1
    bad = registry_check()
    if not bad:
        run.n_dis += 1
    else:
        run.undecided.append(f"statistics registry: {bad} are not numpy's average / median / std on per-feature data")
    out = replay("end to end", {"seed": run.seed, "trials": 2 if run.tier == "quick" else 10})
    run.extra.setdefault("bounded_standins", []).append(
        {"function": "statistics / KDE / quantile levels on a filtered dataset vs. a dataset holding only the selected events",
         "tool": "native replay", "cases": 2 if run.tier == "quick" else 10,
         "bound": "random datasets with NaN / inf values and random filters; histogram, gauss and multivariate estimators"})
    if out.get("failed"):
        fn = HERE / "replays" / "C12-end-to-end.json"
        fn.parent.mkdir(exist_ok=True)
        fn.write_text(_json.dumps({"property": "C12", "obligation": "filtered == dataset of the selected events", "replay": out},
                                  indent=1))
        print("  " + out["detail"][:300])
        run.violations.append(f"VIOLATION property=C12 replay={fn.relative_to(HERE)}")


# --------------------------------------------------------------------------
def _close(a_, b_):
    a_, b_ = np.asarray(a_, dtype=float), np.asarray(b_, dtype=float)
    return a_.shape == b_.shape and bool(np.allclose(a_, b_, rtol=1e-9, equal_nan=True))


def replay(unit_name, inp, obligation=""):
    """filtered dataset vs. dataset of the selected events (statistics, KDE scatter /
    contour, quantile levels), with NaN / inf values present"""
    import warnings
    import dclab
    from dclab import kde_contours
    if unit_name.startswith("Statistics.get_feature"):
        with warnings.catch_warnings():
            warnings.simplefilter("ignore")
            X = np.array([1.0, np.nan, 3.0, np.inf, 5.0, -np.inf, 7.0])
            fa = np.array([True, True, False, True, True, True, True])
            ds = dclab.new_dataset({"deform": X})
            ds.filter.manual[:] = fa
            ds.config["filtering"]["enable filters"] = "filters on" in unit_name
            ds.config["filtering"]["remove invalid events"] = "remove invalid" in unit_name
            ds.apply_filter()
            st = dclab.statistics.Statistics.available_methods["Mean"]
            got = st.get_feature(ds, "deform")
            use = ds.filter.all if "filters on" in unit_name else np.ones(len(X), dtype=bool)
            want = X[use & np.isfinite(X)]
            if not (got.shape == want.shape and np.array_equal(got, want)):
                return {"failed": True, "detail": f"get_feature on {X.tolist()} with filter {ds.filter.all.tolist()} gives "
                                                  f"{np.asarray(got).tolist()}, the finite selected values are {want.tolist()}"}
        return {"failed": False, "detail": "finite selected values"}
    rng = np.random.default_rng(int(inp.get("seed", 1)))
    with warnings.catch_warnings():
        warnings.simplefilter("ignore")
        for trial in range(int(inp.get("trials", 3))):
            n = 120
            area = rng.uniform(20, 200, n)
            deform = rng.uniform(0.005, 0.2, n)
            bad_idx = rng.choice(n, 12, replace=False)
            area[bad_idx[:4]] = np.nan
            deform[bad_idx[4:8]] = np.inf
            area[bad_idx[8:10]] = -np.inf
            sel = rng.random(n) < 0.6
            sel[bad_idx[:6]] = True
            ds = dclab.new_dataset({"area_um": area, "deform": deform})
            ds.filter.manual[:] = sel
            ds.apply_filter()
            ref = dclab.new_dataset({"area_um": area[sel], "deform": deform[sel]})
            h1, v1 = dclab.statistics.get_statistics(ds, features=["area_um", "deform"])
            h2, v2 = dclab.statistics.get_statistics(ref, features=["area_um", "deform"])
            for h, a_, b_ in zip(h1, v1, v2):
                if h in ("%-gated",):
                    continue
                if not np.isclose(a_, b_, rtol=1e-12, equal_nan=True):
                    return {"failed": True, "detail": f"statistic '{h}': {a_} on the filtered dataset, {b_} on the dataset of the "
                                                      f"selected events"}
            fin = np.isfinite(area[sel])
            if not np.isclose(v1[h1.index([h for h in h1 if h.startswith("Mean") and "rea" in h][0])], np.mean(area[sel][fin])):
                return {"failed": True, "detail": "Mean of area is not the mean of the finite selected values"}
            for kt in ("histogram", "gauss", "multivariate"):
                for sc in ("linear", "log"):
                    d1 = ds.get_kde_scatter(kde_type=kt, xscale=sc, yscale=sc)
                    d2 = ref.get_kde_scatter(kde_type=kt, xscale=sc, yscale=sc)
                    if not _close(d1, d2):
                        return {"failed": True, "detail": f"KDE scatter ({kt}, {sc}) differs between the filtered dataset and the "
                                                          f"dataset of the selected events"}
            for sc in ("linear", "log"):
                try:
                    c1 = ds.get_kde_contour(kde_type="histogram", xscale=sc, yscale=sc)
                    c2 = ref.get_kde_contour(kde_type="histogram", xscale=sc, yscale=sc)
                except Exception as ex:
                    return {"failed": True, "detail": f"get_kde_contour ({sc}) raises {type(ex).__name__}: {ex}"}
                if not all(_close(p, q) for p, q in zip(c1, c2)):
                    return {"failed": True, "detail": f"KDE contour ({sc}) differs between the filtered dataset and the dataset of "
                                                      f"the selected events"}
                xm, ym, de = c1
                xs, ys = ds["area_um"][ds.filter.all], ds["deform"][ds.filter.all]
                lev = kde_contours.get_quantile_levels(density=de, x=xm, y=ym, xp=xs, yp=ys, q=0.5, normalize=False)
                ok = np.isfinite(xs) & np.isfinite(ys) & (xs > 0 if sc == "log" else True)
                lev_ref = kde_contours.get_quantile_levels(density=de, x=xm, y=ym, xp=xs[ok], yp=ys[ok], q=0.5, normalize=False)
                if not np.isclose(lev, lev_ref, rtol=1e-9):
                    return {"failed": True, "detail": f"quantile level ({sc}) {lev} changes to {lev_ref} when events with NaN / "
                                                      f"infinite coordinates are removed beforehand"}
    return {"failed": False, "detail": "filtered dataset and dataset of the selected events agree"}


def bounded_inputs(unit_name, rng):
    for s in range(3):
        yield {"seed": s, "trials": 3}
