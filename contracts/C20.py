"""C20 — reported minima / maxima / means equal the NaN-ignoring summaries of
the data.

SInv(dset): every summary attribute that is present equals the corresponding
NaN-ignoring summary of the dataset's content:
    "min"  in attrs  =>  is_nanmin(attrs["min"],  content)
    "max"  in attrs  =>  is_nanmax(attrs["max"],  content)
    "mean" in attrs  =>  is_nanmean(attrs["mean"], content)

Functions under contract: RTDCWriter.write_ndarray (1-D branch: content grows
by exactly the new data and SInv is re-established with all three summaries
present, for any split of the events over calls and any position of NaNs),
H5ScalarEvent._fetch_ufunc_attr, ChildScalar._fetch_ufunc_attr,
copier.rtdc_copy summary completion (see C20 units below).
"""
import numpy as np
import z3

from pyvc import h5model, npmodel   # noqa: F401  (registers the models)
from pyvc.contract import Contract
from pyvc.engine import LoopSpec, NS
from pyvc.h5model import new_attrs, new_dataset, new_group
from pyvc.npmodel import is_nanmin, is_nanmax, is_nanmean, summary_facts
from pyvc.sym import SArr, SF, SInt, F, And, Or, Implies, Not, Z, to_z3, seq_eq, forall_idx

WRITER = "dclab/rtdc_dataset/writer.py"


def f_ok(arr, tag="ok"):
    """entries are finite or NaN (A-NOINF)"""
    k = z3.Int("k!" + tag)
    return z3.ForAll([k], z3.Or(F.is_fin(arr.sel(k)), F.is_nan(arr.sel(k))))


def sinv(ctx_or_none, attrs, content, tag=""):
    """SInv as a list of (name, formula) over an H5Attrs object"""
    out = []
    d, maybe = attrs.fields["d"], attrs.fields["maybe"]
    for key, pred in (("min", is_nanmin), ("max", is_nanmax), ("mean", is_nanmean)):
        if key in d:
            v = d[key]
            if isinstance(v, SInt):
                v = SF(F.fin(z3.ToReal(v.e)))     # integer extremum of an integer feature
            if not isinstance(v, SF):
                out.append((f"stored {key} is a number", z3.BoolVal(False)))
                continue
            out.append((f"stored {key} equals the nan-{key} of the content", pred(ctx_or_none, v.e, content)))
        elif key in maybe:
            present, v = maybe[key]
            out.append((f"stored {key} (if present) equals the nan-{key} of the content",
                        z3.Implies(to_z3(present), pred(ctx_or_none, v.e, content))))
    return out


class GetBestNdChunks(Contract):
    """RTDCWriter.get_best_nd_chunks returns a chunk shape whose first entry is
    a positive integer (verified separately under C01)."""
    name = "RTDCWriter.get_best_nd_chunks"
    qualname = "RTDCWriter.get_best_nd_chunks"
    params = ("item_shape", "item_dtype")
    trusted = True

    def __call__(self, interp, *args, item_shape=(), item_dtype=None, **kw):
        c0 = interp.ctx.int("chunk0")
        interp.ctx.assume(c0.e >= 1)
        if args:
            item_shape = args[0]
        return (c0,) + tuple(item_shape)


class WriteNdarray1D(Contract):
    name = "RTDCWriter.write_ndarray[1-D]"
    path = WRITER
    qualname = "RTDCWriter.write_ndarray"
    module = "dclab.rtdc_dataset.writer"
    classes = {"RTDCWriter": (WRITER, "RTDCWriter")}
    class_modules = {"RTDCWriter": "dclab.rtdc_dataset.writer"}
    params = ("self", "group", "name", "data", "dtype")

    def __init__(self, kind="F", **kw):
        self.kind = kind
        if kind != "F":
            self.name = f"RTDCWriter.write_ndarray[1-D,{kind}]"
        super().__init__(**kw)
        self.callees = {"RTDCWriter.get_best_nd_chunks": GetBestNdChunks()}

    def inputs(self, ctx):
        dt = np.dtype("float64") if self.kind == "F" else np.dtype("int64")
        data = ctx.arr("data", self.kind, inp=True, dtype=dt)
        data.item_shape = ()
        exists = ctx.bool("exists", inp=True)
        old = ctx.arr("old", self.kind, inp=True, dtype=dt)
        maybe = {}
        for key in ("min", "max", "mean"):
            maybe[key] = (ctx.bool("has_" + key, inp=True), SF(ctx.const("old_" + key, F)))
        attrs = new_attrs(ctx, maybe=maybe)
        # (the existing dataset has the type of the data: appending data of another type converts them on
        #  storage -- covered by the demonstration of review finding R-C20-2, not by this unit)
        dset0 = new_dataset(ctx, old, attrs=attrs, chunks=(ctx.int("oldchunk0", lo=1),),
                            dtype=dt, name="/events/feat")
        group = new_group(ctx, maybe={"feat": (exists, dset0)}, name="/events")
        # VInv: a cached count of valid values equals the number of non-NaN entries
        counts = {}
        self._cnt0 = None
        if ctx.decide(ctx.bool("has_cached_count", inp=True)):
            self._cnt0 = ctx.int("cached_count")
            counts["/events/feat"] = self._cnt0
        self_ = ctx.obj("RTDCWriter", {"compression_kwargs": {}, "mode": "append",
                                       "_valid_counts": counts}, name="self")
        self._g = NS(dict(old=old, data=data, exists=exists, dset0=dset0, attrs0=attrs))
        summary_facts(ctx, old)
        summary_facts(ctx, data)
        return {"self": self_, "group": group, "name": "feat", "data": data, "dtype": None}

    def requires(self, ctx, a):
        g = self._g
        reqs = [("an existing dataset is not empty", g.old.n >= 1)]
        if self.kind == "F":
            reqs += [("entries of the new data are finite or NaN", f_ok(g.data, "d")),
                     ("entries of the stored data are finite or NaN", f_ok(g.old, "o"))]
        reqs += [("SInv(existing dataset): " + n, f) for n, f in sinv(ctx, g.attrs0, g.old, "r")]
        if self._cnt0 is not None:
            from pyvc.npmodel import summary
            reqs.append(("VInv: cached count == number of non-NaN stored values",
                         z3.And(to_z3(g.exists), self._cnt0.e == summary(ctx, g.old).cnt)))
        return reqs

    def exceptional(self, ctx, old, a, exc):
        if exc.name == "ValueError":
            return self._g.data.n == 0     # "Empty data object"
        return None

    def ensures(self, ctx, old, a, result):
        g = self._g
        dset = result
        ok_type = isinstance(dset, type(g.dset0)) and dset.clsname == "H5Dataset"
        if not ok_type:
            return [("returns the dataset", z3.BoolVal(False))]
        c = dset.fields["content"]
        off = z3.If(to_z3(g.exists), g.old.n, Z(0))
        k = z3.Int("k!p")
        posts = [
            ("the dataset is the member `name` of the group",
             z3.BoolVal(a.group.fields["members"].get("feat") is dset
                        or a.group.fields["maybe"].get("feat", (None, None))[1] is dset)),
            ("length grows by len(data)", c.n == off + g.data.n),
            ("new events are the data, in order",
             z3.ForAll([k], z3.Implies(z3.And(k >= 0, k < g.data.n),
                                       c.sel(off + k) == g.data.sel(k)))),
            ("stored events are unchanged",
             z3.ForAll([k], z3.Implies(z3.And(k >= 0, k < off), c.sel(k) == g.old.sel(k)))),
        ]
        at = dset.fields["attrs"]
        for key in ("min", "max", "mean"):
            posts.append((f"summary {key} is stored", z3.BoolVal(key in at.fields["d"])))
        posts += [("SInv: " + n, f) for n, f in sinv(ctx, at, c, "e")]
        from pyvc.npmodel import summary
        cached = a.self.fields["_valid_counts"].get("/events/feat")
        posts.append(("VInv: cached count == number of non-NaN stored values",
                      z3.BoolVal(False) if cached is None else to_z3(cached) == summary(ctx, c).cnt))
        return posts


LEMMAS = ["summary_lemmas"]
UNITS = [WriteNdarray1D(), WriteNdarray1D(kind="int")]
TRUSTED = [GetBestNdChunks()]
TRUSTED_BASE = [
    "floats as reals plus an explicit NaN (A-FP); +-inf not modelled (A-NOINF)",
    "h5py object model: H-CREATE, H-RESIZE, H-SLICE, H-ATTR (pyvc/h5model.py)",
    "numpy nanmin/nanmax/nanmean are the NaN-ignoring extremum/mean (N-NANMIN/NANMAX, N-NANMEAN)",
    "nansum/nancnt additivity over concatenation (N-SUM-CONCAT, proved by induction in pyvc/lemmas.py)",
]
ASSUMPTIONS = ["warnings raised by numpy for all-NaN input are not modelled"]


# ---------------------------------------------------------------- replay on the real code
def _close(a, b):
    import math
    if isinstance(a, float) and math.isnan(a) or isinstance(b, float) and math.isnan(b):
        return (a != a) and (b != b)
    return abs(a - b) <= 1e-9 * max(1.0, abs(a), abs(b))


def _replay_copy_summaries():
    """a file that stores no summaries (as written by other software): rtdc_copy completes them"""
    import pathlib, tempfile, warnings
    import h5py
    import numpy as np
    from dclab.rtdc_dataset import rtdc_copy
    with tempfile.TemporaryDirectory(prefix="c20c_") as td, warnings.catch_warnings():
        warnings.simplefilter("ignore")
        src, dst = pathlib.Path(td) / "src.rtdc", pathlib.Path(td) / "dst.rtdc"
        feats = {"deform": np.array([0.01, np.nan, 0.05, 0.02]), "frame": np.array([1, 2, 3, 19], dtype=np.uint64),
                 "fl1_npeaks": np.array([1, 2, 2, 0], dtype=np.int16)}
        with h5py.File(src, "w") as h5:
            for k, v in feats.items():
                h5.create_dataset("events/" + k, data=v)
            h5.attrs["experiment:event count"] = 4
        with h5py.File(src, "r") as hs, h5py.File(dst, "w") as hd:
            rtdc_copy(hs, hd)
        with h5py.File(dst, "r") as hd:
            for k, v in feats.items():
                at = hd["events"][k].attrs
                want = {"min": np.nanmin(v), "max": np.nanmax(v), "mean": np.nanmean(v.astype(float))}
                for key, w_ in want.items():
                    if key not in at:
                        return {"failed": True, "detail": f"the copy of '{k}' (stored without summaries) has no '{key}' attribute"}
                    if not _close(float(at[key]), float(w_)):
                        return {"failed": True, "detail": f"copy of a file without stored summaries: {k}.attrs['{key}'] == "
                                                          f"{float(at[key])}, the values {v.tolist()} give {float(w_)}"}
    return {"failed": False, "detail": "completed summaries equal the nan-summaries of the copied values"}


def replay(unit_name, inp, obligation=""):
    import pathlib, tempfile, warnings
    import h5py
    import numpy as np
    from dclab.rtdc_dataset.writer import RTDCWriter
    if unit_name.startswith("rtdc_copy[summaries"):
        return _replay_copy_summaries()
    if unit_name.startswith("H5ScalarEvent."):
        return _replay_h5scalar(unit_name.split(".")[1], inp)
    if unit_name.startswith("ChildScalar."):
        return _replay_childscalar(unit_name.split(".")[1], inp)
    if not unit_name.startswith("RTDCWriter.write_ndarray"):
        return {"failed": None, "detail": "no replay for " + unit_name}
    data = np.array([float(x) for x in inp.get("data", [])], dtype=float)
    old = np.array([float(x) for x in inp.get("old", [])], dtype=float)
    exists = bool(inp.get("exists"))
    if len(data) == 0 or (exists and len(old) == 0):
        return {"failed": False, "detail": "witness outside the precondition (empty array)"}
    with tempfile.TemporaryDirectory(prefix="c20_") as td, warnings.catch_warnings():
        warnings.simplefilter("ignore")
        path = pathlib.Path(td) / "t.rtdc"
        if exists:
            with h5py.File(path, "w") as h5:
                ds = h5.require_group("events").create_dataset(
                    "feat", data=old, maxshape=(None,), chunks=(max(1, len(old)),))
                for key, fn in (("min", np.nanmin), ("max", np.nanmax), ("mean", np.nanmean)):
                    if inp.get("has_" + key):
                        ds.attrs[key] = fn(old)
        hw = RTDCWriter(path, mode="append")
        try:
            hw.write_ndarray(hw.h5file.require_group("events"), "feat", data)
        finally:
            hw.h5file.close()
        with h5py.File(path) as h5:
            ds = h5["events/feat"]
            got = ds[:]
            want = np.concatenate([old, data]) if exists else data
            if len(got) != len(want) or not all(_close(float(x), float(y)) for x, y in zip(got, want)):
                return {"failed": True, "detail": f"content {got.tolist()} != {want.tolist()}"}
            for key, fn in (("min", np.nanmin), ("max", np.nanmax), ("mean", np.nanmean)):
                if key not in ds.attrs:
                    return {"failed": True, "detail": f"summary {key} not stored"}
                if not _close(float(ds.attrs[key]), float(fn(want))):
                    return {"failed": True,
                            "detail": f"stored {key}={float(ds.attrs[key])!r} but nan{key} of the "
                                      f"{len(want)} stored values {want.tolist()} is {float(fn(want))!r} "
                                      f"(old={old.tolist() if exists else None}, appended={data.tolist()})"}
    return {"failed": False, "detail": "summaries equal the nan-summaries of the content"}


# =====================================================================================
# readers: H5ScalarEvent and ChildScalar
# =====================================================================================
H5EV = "dclab/rtdc_dataset/fmt_hdf5/events.py"
HIEV = "dclab/rtdc_dataset/fmt_hierarchy/events.py"
UFUNCS = {"min": np.nanmin, "max": np.nanmax, "mean": np.nanmean}


def summ_pred(ctx, key, r, arr):
    from pyvc.npmodel import is_nanmin, is_nanmax, is_nanmean
    if isinstance(r, SInt):
        r = SF(F.fin(z3.ToReal(r.e)))
    if not isinstance(r, SF):
        return z3.BoolVal(False)
    return {"min": is_nanmin, "max": is_nanmax, "mean": is_nanmean}[key](ctx, r.e, arr)


class H5ScalarSummary(Contract):
    """H5ScalarEvent.min/max/mean: the stored attribute if present (correct under
    SInv), otherwise computed from the data; the result is cached and equals the
    NaN-ignoring summary of the dataset's content."""
    path = H5EV
    module = "dclab.rtdc_dataset.fmt_hdf5.events"
    classes = {"H5ScalarEvent": (H5EV, "H5ScalarEvent")}
    class_modules = {"H5ScalarEvent": "dclab.rtdc_dataset.fmt_hdf5.events"}
    inline = {"H5ScalarEvent._fetch_ufunc_attr", "H5ScalarEvent.__array__"}
    params = ("self",)

    def __init__(self, key):
        self.key = key
        self.name = f"H5ScalarEvent.{key}"
        self.qualname = f"H5ScalarEvent.{key}"
        super().__init__()

    def inputs(self, ctx):
        content = ctx.arr("content", "F", inp=True, dtype=np.dtype("float64"))
        content.item_shape = ()
        self._content = content
        ufa = {}
        self._stored = {}
        for key in ("min", "max", "mean"):
            if ctx.decide(ctx.bool("has_" + key, inp=True)):
                v = SF(ctx.const("attr_" + key, F))
                ufa[key] = v
                self._stored[key] = v
        dset = new_dataset(ctx, content, dtype=np.dtype("float64"), name="/events/feat")
        self_ = ctx.obj("H5ScalarEvent", {"h5ds": dset, "_array": None, "_ufunc_attrs": ufa,
                                          "ndim": 1}, name="self")
        return {"self": self_}

    def requires(self, ctx, a):
        reqs = [("the feature is not empty", self._content.n >= 1),
                ("entries are finite or NaN", f_ok(self._content, "c"))]
        for key, v in self._stored.items():
            reqs.append((f"SInv: stored {key}", summ_pred(ctx, key, v, self._content)))
        return reqs

    def ensures(self, ctx, old, a, result):
        return [(f"reported {self.key} equals the nan-{self.key} of the feature's values",
                 summ_pred(ctx, self.key, result, self._content)),
                ("the other cached summaries are unchanged",
                 z3.BoolVal(all(a.self.fields["_ufunc_attrs"].get(k) is v
                                for k, v in self._stored.items())))]


class ParentGetitem(Contract):
    """hparent[feat] hands out the parent's feature array (C04/C06 decide what
    that array is; here it is the given data of the parent)."""
    name = "Parent.__getitem__"
    trusted = True

    def __call__(self, interp, parent, key):
        return parent.fields["feats"][key]


class ChildScalarSummary(Contract):
    """ChildScalar.min/max/mean equal the NaN-ignoring summary of the child's own
    values, i.e. of the parent's feature restricted to the parent's filter."""
    path = HIEV
    module = "dclab.rtdc_dataset.fmt_hierarchy.events"
    classes = {"ChildScalar": (HIEV, "ChildScalar")}
    class_modules = {"ChildScalar": "dclab.rtdc_dataset.fmt_hierarchy.events"}
    inline = {"ChildScalar._fetch_ufunc_attr", "ChildScalar.__array__"}
    params = ("self",)

    def __init__(self, key):
        self.key = key
        self.name = f"ChildScalar.{key}"
        self.qualname = f"ChildScalar.{key}"
        super().__init__()
        self.callees = {"Parent.__getitem__": ParentGetitem()}

    def inputs(self, ctx):
        pdata = ctx.arr("parent_data", "F", inp=True, dtype=np.dtype("float64"))
        pdata.item_shape = ()
        filt = ctx.arr("parent_filter", "bool", inp=True)
        ctx.assume(filt.n == pdata.n)
        self._pdata, self._filt = pdata, filt
        parent = ctx.obj("Parent", {"feats": {"deform": pdata},
                                    "filter": ctx.obj("Filter", {"all": filt})}, name="hparent")
        child = ctx.obj("Child", {"hparent": parent}, name="child")
        self_ = ctx.obj("ChildScalar", {"child": child, "feat": "deform", "_array": None,
                                        "_ufunc_attrs": {}, "ndim": 1}, name="self")
        return {"self": self_}

    def requires(self, ctx, a):
        return [("entries are finite or NaN", f_ok(self._pdata, "p"))]

    def spec_values(self, ctx):
        from pyvc import models
        import types
        fake = types.SimpleNamespace(ctx=ctx, heap_write=lambda o: None)
        return models.mask_select(fake, self._pdata, self._filt)

    def exceptional(self, ctx, old, a, exc):
        if exc.name == "ValueError":
            # numpy raises for an empty selection (no summary exists)
            return self.spec_values(ctx).n == 0
        return None

    def ensures(self, ctx, old, a, result):
        vals = self.spec_values(ctx)
        return [(f"reported {self.key} equals the nan-{self.key} of parent[feat][filter]",
                 summ_pred(ctx, self.key, result, vals))]


UNITS += [H5ScalarSummary(k) for k in ("min", "max", "mean")]


class CopyDataset(Contract):
    """h5ds_copy(src_loc, src_name, dst_loc, ...): dst_loc[name] becomes a dataset with the content and
    the attributes of the source (C08); returns it"""
    name = "h5ds_copy"
    trusted = True

    def __call__(self, interp, src_loc=None, src_name=None, dst_loc=None, dst_name=None, **kw):
        src = h5model._grp_getitem(interp, src_loc, src_name)
        name = dst_name or src_name
        interp.heap_write(dst_loc)
        c = src.fields["content"]
        cp = new_dataset(interp.ctx, SArr(c.n, c.a, c.kind, dtype=c.dtype), name=f"{dst_loc.fields['name']}/{name}",
                         dtype=src.fields.get("dtype"),
                         attrs=new_attrs(interp.ctx, d=dict(src.fields["attrs"].fields["d"])))
        cp.fields["content"].item_shape = ()
        dst_loc.fields["members"][name] = cp
        return cp


class CopySummaries(Contract):
    """rtdc_copy completes the summaries: a scalar feature copied from a file that stores no (or only some)
    min/max/mean attributes has all three afterwards, each equal to the NaN-ignoring summary of the copied
    values; stored ones are carried over as they are"""
    path = "dclab/rtdc_dataset/copier.py"
    module = "dclab.rtdc_dataset.copier"
    qualname = "rtdc_copy"
    params = ("src_h5file", "dst_h5file", "features", "include_basins", "include_logs", "include_tables", "meta_prefix")
    native = {"feature_exists", "scalar_feature_exists"}

    def __init__(self, kind):
        self.kind = kind
        self.feat = "deform" if kind == "F" else "frame"
        self.name = f"rtdc_copy[summaries of a scalar {'float' if kind == 'F' else 'integer'} feature]"
        super().__init__()
        self.callees = {"h5ds_copy": CopyDataset()}

    def inputs(self, ctx):
        dt = np.dtype("float64") if self.kind == "F" else np.dtype("int64")
        content = ctx.arr("content", self.kind, inp=True, dtype=dt)
        content.item_shape = ()
        self._content = content
        d = {}
        self._stored = {}
        for key in ("min", "max", "mean"):
            if ctx.decide(ctx.bool("has_" + key, inp=True)):
                v = SF(ctx.const("attr_" + key, F))
                d[key] = v
                self._stored[key] = v
        src_ds = new_dataset(ctx, content, dtype=dt, name="/events/" + self.feat, attrs=new_attrs(ctx, d=d))
        src = new_group(ctx, members={"events": new_group(ctx, members={self.feat: src_ds}, name="/events")}, name="/")
        dst = new_group(ctx, name="/")
        dst.fields["name"] = "/dst"
        self._dst = dst
        return {"src_h5file": src, "dst_h5file": dst, "features": "all", "include_basins": False,
                "include_logs": False, "include_tables": False, "meta_prefix": ""}

    def requires(self, ctx, a):
        reqs = [("the feature is not empty", self._content.n >= 1)]
        if self.kind == "F":
            reqs.append(("entries are finite or NaN", f_ok(self._content, "c")))
        for key, v in self._stored.items():
            reqs.append((f"SInv in the source: stored {key}", summ_pred(ctx, key, v, self._content)))
        return reqs

    def ensures(self, ctx, old, a, result):
        ev = self._dst.fields["members"].get("events")
        ds_ = ev.fields["members"].get(self.feat) if ev is not None else None
        if ds_ is None:
            return [("the feature is copied", z3.BoolVal(False))]
        d = ds_.fields["attrs"].fields["d"]
        posts = [("the copy has all three summaries", z3.BoolVal(all(k in d for k in ("min", "max", "mean"))))]
        posts += sinv(ctx, ds_.fields["attrs"], self._content)
        return posts


UNITS += [CopySummaries("F"), CopySummaries("int")]
TRUSTED += [CopyDataset()]
UNITS += [ChildScalarSummary(k) for k in ("min", "max", "mean")]
TRUSTED += [ParentGetitem()]


def _replay_h5scalar(key, inp):
    import pathlib, tempfile, warnings
    import h5py
    import numpy as np
    from dclab.rtdc_dataset.fmt_hdf5.events import H5ScalarEvent
    content = np.array([float(x) for x in inp.get("content", [])], dtype=float)
    if len(content) == 0:
        return {"failed": False, "detail": "witness outside the precondition (empty feature)"}
    fns = {"min": np.nanmin, "max": np.nanmax, "mean": np.nanmean}
    with tempfile.TemporaryDirectory(prefix="c20_") as td, warnings.catch_warnings():
        warnings.simplefilter("ignore")
        with h5py.File(pathlib.Path(td) / "t.h5", "w") as h5:
            ds = h5.create_dataset("feat", data=content)
            for k, fn in fns.items():
                if inp.get("has_" + k):
                    ds.attrs[k] = fn(content)
            ev = H5ScalarEvent(ds)
            got = float(getattr(ev, key)())
            again = float(getattr(ev, key)())
            want = float(fns[key](content))
    if not _close(got, want) or not _close(again, want):
        return {"failed": True, "detail": f"H5ScalarEvent.{key}() == {got!r} (second call {again!r}) "
                                          f"but nan{key}({content.tolist()}) == {want!r}; stored attrs: "
                                          f"{[k for k in fns if inp.get('has_' + k)]}"}
    return {"failed": False, "detail": f"H5ScalarEvent.{key}() equals the nan-summary"}


def _replay_childscalar(key, inp):
    import warnings
    import numpy as np
    import dclab
    pdata = np.array([float(x) for x in inp.get("parent_data", [])], dtype=float)
    filt = np.array([bool(x) for x in inp.get("parent_filter", [])], dtype=bool)
    if len(pdata) == 0 or len(filt) != len(pdata):
        return {"failed": False, "detail": "witness outside the precondition"}
    fns = {"min": np.nanmin, "max": np.nanmax, "mean": np.nanmean}
    with warnings.catch_warnings():
        warnings.simplefilter("ignore")
        ds = dclab.new_dataset({"deform": pdata, "area_um": np.arange(len(pdata), dtype=float)})
        ds.filter.manual[:] = filt
        ds.apply_filter()
        child = dclab.new_dataset(ds)
        child.rejuvenate()
        sel = pdata[filt]
        try:
            got = float(getattr(child["deform"], key)())
        except ValueError as ex:
            if len(sel) == 0:
                return {"failed": False, "detail": "empty selection raises (permitted)"}
            return {"failed": True, "detail": f"ChildScalar.{key}() raised {ex} for {inp}"}
        want = float(fns[key](sel)) if len(sel) else float("nan")
    if not _close(got, want):
        return {"failed": True, "detail": f"child['deform'].{key}() == {got!r} but nan{key} of the "
                                          f"selected parent values {sel.tolist()} is {want!r} "
                                          f"(parent={pdata.tolist()}, filter={filt.tolist()})"}
    return {"failed": False, "detail": f"ChildScalar.{key}() equals the nan-summary of the selection"}


def bounded_inputs(unit_name, rng):
    """small concrete inputs for the bounded stand-in (used only when a function
    has left the accepted subset; never counted as proved)"""
    import itertools
    vals = [float("nan"), -1.0, 0.5, 2.0]
    if unit_name.startswith("ChildScalar."):
        for n in (1, 2, 3):
            for data in itertools.product(vals, repeat=n):
                for filt in itertools.product([True, False], repeat=n):
                    yield {"parent_data": list(data), "parent_filter": list(filt)}
    elif unit_name.startswith("H5ScalarEvent."):
        for n in (1, 2, 3):
            for data in itertools.product(vals, repeat=n):
                for bits in itertools.product([True, False], repeat=3):
                    yield {"content": list(data), "has_min": bits[0], "has_max": bits[1], "has_mean": bits[2]}
    elif unit_name.startswith("RTDCWriter.write_ndarray"):
        for n in (1, 2):
            for m in (1, 2):
                for old in itertools.product(vals, repeat=n):
                    for data in itertools.product(vals, repeat=m):
                        for bits in ((True, True, True), (False, False, False), (True, True, False)):
                            yield {"old": list(old), "data": list(data), "exists": True,
                                   "has_min": bits[0], "has_max": bits[1], "has_mean": bits[2]}
        for data in itertools.product(vals, repeat=2):
            yield {"old": [], "data": list(data), "exists": False}


# --------------------------------------------------------------------------
# always-on bounded layer: summaries of scalar features obtained through a mapped basin
# --------------------------------------------------------------------------
def _proxy_summaries():
    """BasinProxyFeature.min/max/mean == NaN-ignoring summary of origin[basinmap], for maps that repeat, skip
    and permute events (also maps that are as long as the origin)"""
    import numpy as np
    from dclab.rtdc_dataset.feat_basin import BasinProxyFeature

    class Origin:
        """a scalar feature object with stored summaries (like H5ScalarEvent)"""
        def __init__(self, a):
            self._a, self.shape, self.dtype = a, a.shape, a.dtype

        def __getitem__(self, k):
            return self._a[k]

        def __len__(self):
            return len(self._a)

        def __array__(self, *a, **k):
            return self._a

        def min(self):
            return np.nanmin(self._a)

        def max(self):
            return np.nanmax(self._a)

        def mean(self):
            return np.nanmean(self._a)
    rng = np.random.default_rng(11)
    for trial in range(30):
        n = int(rng.integers(3, 12))
        a = rng.uniform(0, 1, n)
        if trial % 3 == 0:
            a[rng.integers(0, n)] = np.nan
        a[0], a[-1] = -5.0, 9.0                      # the extremes sit at the ends
        maps = [rng.integers(1, n - 1, n), rng.permutation(n)[:max(1, n // 2)], rng.integers(0, n, n + 3)]
        for bm in maps:
            bm = np.asarray(bm, dtype=np.uint64)
            want = a[bm.astype(int)]
            if np.all(np.isnan(want)):
                continue
            import tempfile, pathlib, h5py
            from dclab.rtdc_dataset.fmt_hdf5.events import H5ScalarEvent
            with tempfile.TemporaryDirectory(prefix="c20p_") as td, h5py.File(pathlib.Path(td) / "o.h5", "w") as h5:
                dset = h5.create_dataset("feat", data=a)
                dset.attrs["min"], dset.attrs["max"], dset.attrs["mean"] = np.nanmin(a), np.nanmax(a), np.nanmean(a)
                msg = _proxy_case(a, bm, want, (a, Origin(a), H5ScalarEvent(dset)))
            if msg:
                return msg
    return None


def _proxy_case(a, bm, want, origins):
    import numpy as np
    from dclab.rtdc_dataset.feat_basin import BasinProxyFeature
    for origin in origins:
        pf = BasinProxyFeature(feat_obj=origin, basinmap=bm)
        for key, fn in (("min", np.nanmin), ("max", np.nanmax), ("mean", np.nanmean)):
            got = getattr(pf, key)()
            if not _close(float(got), float(fn(want))):
                return (f"scalar feature ({type(origin).__name__}) through a mapped basin: {key}() == {float(got)}, the mapped "
                        f"values {want.tolist()} (origin {a.tolist()}, map {bm.tolist()}) give {float(fn(want))}")
    return None


def extra_checks(run):
    import json as _json
    from pyvc.run import HERE
    msg = _proxy_summaries()
    run.extra.setdefault("bounded_standins", []).append(
        {"function": "BasinProxyFeature.min / max / mean", "tool": "native comparison with the NaN-ignoring summary of "
         "origin[basinmap] (labelled bounded)", "cases": 30 * 3 * 2 * 3, "bound": "random origins of 3..11 events, maps that repeat, "
         "skip and permute events"})
    if msg:
        fn = HERE / "replays" / "C20-bounded-proxy-summaries.json"
        fn.parent.mkdir(exist_ok=True)
        fn.write_text(_json.dumps({"property": "C20", "obligation": "summaries of a mapped basin feature describe the mapped values",
                                   "replay": {"failed": True, "detail": msg}}, indent=1))
        print("  " + msg[:300])
        run.violations.append(f"VIOLATION property=C20 replay={fn.relative_to(HERE)}")
