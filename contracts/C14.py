"""C14 — basins are only followed when matching, acyclic and permitted."""
import z3

from pyvc import h5model, npmodel   # noqa: F401
from pyvc.contract import Contract
from pyvc.engine import LoopSpec, NS
from pyvc.sym import SStr, SBool, SObj, And, Or, Not, Implies, to_z3, wrap

FB = "dclab/rtdc_dataset/feat_basin.py"
FBMOD = "dclab.rtdc_dataset.feat_basin"
CORE = "dclab/rtdc_dataset/core.py"
COREMOD = "dclab.rtdc_dataset.core"


class IsAvailable(Contract):
    """Basin.is_available(): whether the basin's resource can be opened
    (environment; unconstrained boolean)."""
    name = "Basin.is_available"
    trusted = True

    def __call__(self, interp, basin):
        return basin.fields["_avail"]


class BasinMeasId(Contract):
    """Basin.get_measurement_identifier(): the run identifier of the basin's
    dataset -- a string, or None when the dataset has none."""
    name = "Basin.get_measurement_identifier"
    trusted = True

    def __call__(self, interp, basin):
        return basin.fields["_basin_id"]


class VerifyBasin(Contract):
    """verify_basin() is truthy only if the basin is available and the referrer
    has no identifier, or (unmapped) the basin's identifier is a string equal to
    the referrer's, or (mapped) a string that is a prefix of the referrer's.
    It never raises."""
    path = FB
    module = FBMOD
    qualname = "Basin.verify_basin"
    classes = {"Basin": (FB, "Basin")}
    class_modules = {"Basin": FBMOD}
    params = ("self", "run_identifier", "availability")

    def __init__(self, mapping, ref_has_id, basin_has_id):
        self.mapping, self.ref_has_id, self.basin_has_id = mapping, ref_has_id, basin_has_id
        self.name = (f"Basin.verify_basin[{mapping},referrer id {'str' if ref_has_id else 'None'},"
                     f"basin id {'str' if basin_has_id else 'None'}]")
        super().__init__()
        self.callees = {"Basin.is_available": IsAvailable(),
                        "Basin.get_measurement_identifier": BasinMeasId()}

    def inputs(self, ctx):
        ref = ctx.str("referrer_id", inp=True) if self.ref_has_id else None
        bid = ctx.str("basin_id", inp=True) if self.basin_has_id else None
        avail = ctx.bool("available", inp=True)
        self._g = NS(dict(ref=ref, bid=bid, avail=avail))
        self_ = ctx.obj("Basin", {"_measurement_identifier_verified": False,
                                  "measurement_identifier": ref, "mapping": self.mapping,
                                  "_avail": avail, "_basin_id": bid}, name="self")
        return {"self": self_, "run_identifier": True, "availability": True}

    def ensures(self, ctx, old, a, result):
        from pyvc import models
        g = self._g
        t = models.truth(NS({"ctx": ctx}), result) if not isinstance(result, bool) else result
        t = to_z3(t)
        if g.ref is None:
            match = z3.BoolVal(True)
        elif g.bid is None:
            match = z3.BoolVal(False)
        elif self.mapping == "same":
            match = g.ref.e == g.bid.e
        else:
            match = z3.PrefixOf(g.bid.e, g.ref.e)
        return [("truthy only for an available basin of the same measurement",
                 z3.Implies(t, z3.And(to_z3(g.avail), match))),
                ("an available basin of the same measurement is accepted",
                 z3.Implies(z3.And(to_z3(g.avail), match), t))]


UNITS = [VerifyBasin(m, r, b) for m in ("same", "basinmap0") for r in (True, False) for b in (True, False)]
TRUSTED = [IsAvailable(), BasinMeasId()]
TRUSTED_BASE = ["python str semantics: str.__eq__(s, non-str) is NotImplemented (truthy); str.startswith(s, non-str) raises TypeError",
                "z3/cvc5 string theory for == and prefix"]
ASSUMPTIONS = ["the availability-checker thread and remote formats' network behaviour are outside every contract"]


def _replay_local_basins():
    """a dataset that must not open local basins (as one reached through a network format) meets basin
    definitions of every stated type whose format reads a local file"""
    import json, pathlib, tempfile, warnings
    from unittest import mock
    import numpy as np
    import dclab
    import dclab.rtdc_dataset.writer as w
    import dclab.rtdc_dataset.export as e
    from dclab.rtdc_dataset import RTDCWriter, fmt_hdf5
    old_w, old_e = w.version, e.version
    w.version = e.version = "0.60.0"
    try:
        with tempfile.TemporaryDirectory(prefix="c14_") as td, warnings.catch_warnings():
            warnings.simplefilter("ignore")
            d = pathlib.Path(td)
            n = 6
            meta = {"experiment": {"sample": "x", "run index": 1, "run identifier": "abc"}, "imaging": {"pixel size": 0.34},
                    "setup": {"channel width": 20, "flow rate": 0.04, "chip region": "channel", "medium": "CellCarrierB"}}
            with RTDCWriter(d / "local.rtdc") as hw:
                hw.store_metadata(meta)
                hw.store_feature("deform", np.linspace(.01, .1, n))
                hw.store_feature("area_um", np.linspace(20, 70, n))
            for typ, key in (("file", "paths"), ("remote", "urls"), ("internal", "paths")):
                p = d / f"ref_{typ}.rtdc"
                with RTDCWriter(p) as hw:
                    hw.store_metadata(meta)
                    hw.store_feature("deform", np.linspace(.01, .1, n))
                    bdef = {"type": typ, "format": "hdf5", "name": "b", key: [str(d / "local.rtdc")], "features": ["area_um"]}
                    hw.write_text(hw.h5file.require_group("basins"), "k1", json.dumps(bdef, indent=2).split("\n"))
                with mock.patch.object(fmt_hdf5.RTDC_HDF5, "_local_basins_allowed", False, create=True):
                    with dclab.new_dataset(p) as ds:
                        ds._local_basins_allowed = False
                        opened = [type(b).__name__ for b in ds.basins]
                        if opened or "area_um" in ds:
                            return {"failed": True, "detail": f"a dataset that must not open local basins follows a basin "
                                                              f"definition of type '{typ}' with format 'hdf5' to the local "
                                                              f"file {d.name}/local.rtdc (basins: {opened})"}
    finally:
        w.version, e.version = old_w, old_e
    return {"failed": False, "detail": "no local file is opened, whatever type the definition states"}


def replay(unit_name, inp, obligation=""):
    import warnings
    from dclab.rtdc_dataset import feat_basin
    if unit_name.startswith("RTDCBase.basins_retrieve"):
        return _replay_local_basins()
    if not unit_name.startswith("Basin.verify_basin"):
        return {"failed": None, "detail": "no replay for " + unit_name}
    mapping = "same" if "[same" in unit_name else "basinmap0"
    ref = inp.get("referrer_id") if "referrer id str" in unit_name else None
    bid = inp.get("basin_id") if "basin id str" in unit_name else None
    avail = bool(inp.get("available", True))

    class B(feat_basin.Basin):
        basin_format = "replay"
        basin_type = "file"

        def __init__(self):      # the real __init__ starts a thread and opens files
            self._measurement_identifier_verified = False
            self.measurement_identifier = ref
            self.mapping = mapping

        def is_available(self):
            return avail

        def get_measurement_identifier(self):
            return bid

        def _load_dataset(self, location, **kwargs):
            raise NotImplementedError
    with warnings.catch_warnings():
        warnings.simplefilter("ignore")
        try:
            res = B().verify_basin()
        except Exception as ex:
            return {"failed": True, "detail": f"verify_basin raised {type(ex).__name__}: {ex} for referrer id "
                                              f"{ref!r}, basin id {bid!r}, mapping {mapping}"}
    if ref is None:
        match = True
    elif bid is None:
        match = False
    elif mapping == "same":
        match = ref == bid
    else:
        match = ref.startswith(bid)
    want = avail and match
    if bool(res) != want:
        return {"failed": True, "detail": f"verify_basin() == {res!r} (truthy: {bool(res)}) but the basin "
                                          f"{'matches' if match else 'does not match'}: referrer id {ref!r}, basin id "
                                          f"{bid!r}, mapping {mapping}, available {avail}"}
    return {"failed": False, "detail": "verify_basin agrees with the specification"}


def bounded_inputs(unit_name, rng):
    for ref in ("abc-1", "abc", "x"):
        for bid in ("abc", "abc-1", "bc", ""):
            for av in (True, False):
                yield {"referrer_id": ref, "basin_id": bid, "available": av}


# ---------------------------------------------------------------- basins_retrieve
class BasinCtor(Contract):
    """Basin subclass constructor: records its arguments (the real constructor
    stores them and starts the availability thread, which is outside every
    contract); verify_basin() of the instance is an unconstrained boolean here
    (its own contract is VerifyBasin)."""
    trusted = True

    def __init__(self, clsname, btype):
        self.clsname, self.btype = clsname, btype
        self.name = clsname
        super().__init__()

    def __call__(self, interp, location, **kw):
        ctx = interp.ctx
        b = ctx.obj("BasinInst", dict(kw, location=location, basin_type=self.btype,
                                      basin_class=self.clsname,
                                      _verify=ctx.bool("verify_" + self.clsname)))
        return b


class BasinInstVerify(Contract):
    name = "BasinInst.verify_basin"
    trusted = True

    def __call__(self, interp, b, *a, **k):
        return b.fields["_verify"]


class DsMeasId(Contract):
    name = "RTDCBase.get_measurement_identifier"
    trusted = True

    def __call__(self, interp, ds):
        return ds.fields["_meas_id"]


class BasinsGetDicts(Contract):
    name = "RTDCBase.basins_get_dicts"
    trusted = True

    def __call__(self, interp, ds):
        return [dict(d) for d in ds.fields["_bdicts"]]


BDICTS = [
    {"type": "file", "format": "hdf5", "key": "k_file", "paths": ["/abs/origin.rtdc", "origin.rtdc"],
     "name": "f", "mapping": "basinmap0", "features": ["deform"]},
    {"type": "remote", "format": "http", "key": "k_remote", "urls": ["http://host/x.rtdc"], "name": "r"},
    {"type": "internal", "format": "h5dataset", "key": "k_internal", "paths": ["basin_events"],
     "features": ["image"], "name": "i"},
    {"type": "file", "format": "hdf5", "key": "k_file2", "paths": ["../rel/other.rtdc"], "name": "f2"},
    # definitions whose stated type does not match what their format does: a local-file format
    # declared as "remote" / "internal" still opens a file of the local file system
    {"type": "remote", "format": "hdf5", "key": "k_disguised", "urls": ["/local/secret.rtdc"], "name": "x"},
    {"type": "internal", "format": "hdf5", "key": "k_disguised2", "paths": ["/local/secret2.rtdc"], "name": "y"},
]


h5model_M = __import__("pyvc.h5model", fromlist=["OBJ_METHODS"]).OBJ_METHODS
h5model_M[("Cfg14", "__getitem__")] = lambda interp, c, sec: interp.ctx.obj("Sec14", {"cfg": c, "sec": sec})
h5model_M[("Cfg14", "__contains__")] = lambda interp, c, sec: True
h5model_M[("Sec14", "get")] = lambda interp, s_, key, default=None: (
    s_.fields["cfg"].fields["run_identifier"] if (s_.fields["sec"], key) == ("experiment", "run identifier") else default)
h5model_M[("Sec14", "__getitem__")] = lambda interp, s_, key: h5model_M[("Sec14", "get")](interp, s_, key)
h5model_M[("Sec14", "__contains__")] = lambda interp, s_, key: (s_.fields["sec"], key) == ("experiment", "run identifier")


class BasinsRetrieve(Contract):
    """basins_retrieve(): every basin handed out (a) is not on the ignore list
    (cycle guard), (b) is of type 'file' only if local basins are allowed for
    this dataset, (c) carries ignored_basins >= ignore list + all own keys and the
    referrer's measurement identifier, (d) file-type basins were verified."""
    path = CORE
    module = COREMOD
    name = "RTDCBase.basins_retrieve"
    qualname = "RTDCBase.basins_retrieve"
    classes = {"RTDCBase": (CORE, "RTDCBase")}
    class_modules = {"RTDCBase": COREMOD}
    native = {"get_basin_classes", "basin_priority_sorted_key"}
    params = ("self",)
    inline = {"RTDCBase._basin_is_usable"}

    def __init__(self):
        super().__init__()
        self.callees = {"HDF5Basin": BasinCtor("HDF5Basin", "file"),
                        "HTTPBasin": BasinCtor("HTTPBasin", "remote"),
                        "S3Basin": BasinCtor("S3Basin", "remote"),
                        "DCORBasin": BasinCtor("DCORBasin", "remote"),
                        "InternalH5DatasetBasin": BasinCtor("InternalH5DatasetBasin", "internal"),
                        "BasinInst.verify_basin": BasinInstVerify(),
                        "RTDCBase.get_measurement_identifier": DsMeasId(),
                        "RTDCBase.basins_get_dicts": BasinsGetDicts()}

    def inputs(self, ctx):
        ignored = []
        for d in BDICTS:
            if ctx.decide(ctx.bool("ignored_" + d["key"], inp=True)):
                ignored.append(d["key"])
        ignored.append("k_elsewhere")
        allowed = ctx.bool("local_basins_allowed", inp=True)
        mid = ctx.str("measurement_identifier")
        self._g = NS(dict(ignored=list(ignored), allowed=allowed, mid=mid))
        # the configuration may hold a run identifier, or not: what identifies the measurement for its basins is
        # get_measurement_identifier() (which falls back to date / time / setup), not that key alone
        cfg = ctx.obj("Cfg14", {"run_identifier": ctx.str("config_run_identifier")}, name="config")
        self_ = ctx.obj("RTDCBase", {"_basins_ignored": ignored, "_local_basins_allowed": allowed,
                                     "_meas_id": mid, "_bdicts": BDICTS, "path": "/data/this.rtdc",
                                     "format": "hdf5", "config": cfg}, name="self")
        return {"self": self_}

    def ensures(self, ctx, old, a, result):
        g = self._g
        if not isinstance(result, list):
            return [("returns a list", z3.BoolVal(False))]
        posts = []
        allkeys = {d["key"] for d in BDICTS}
        key_of = {"f": "k_file", "r": "k_remote", "i": "k_internal", "f2": "k_file2", "x": "k_disguised", "y": "k_disguised2"}
        for i, b in enumerate(result):
            f = b.fields
            key = key_of.get(f.get("name"))
            posts.append((f"basin {i}: not on the ignore list (cycle guard)",
                          z3.BoolVal(key is not None and key not in g.ignored)))
            posts.append((f"basin {i}: a basin class that opens local files only if local basins are allowed",
                          z3.Implies(z3.BoolVal(f["basin_type"] == "file"), to_z3(g.allowed))))
            posts.append((f"basin {i}: file-type basins were verified",
                          z3.Implies(z3.BoolVal(key in ("k_file", "k_file2")), to_z3(f["_verify"]))))
            ib = f.get("ignored_basins") or []
            posts.append((f"basin {i}: passes on the ignore list and all own keys",
                          z3.BoolVal(set(g.ignored) | allkeys <= set(ib))))
            posts.append((f"basin {i}: carries the referrer's measurement identifier",
                          z3.BoolVal(f.get("measurement_identifier") is g.mid)))
        posts.append(("the ignore list of the dataset is not shortened",
                      z3.BoolVal(set(g.ignored) <= set(a.self.fields["_basins_ignored"]))))
        return posts


class BasinAvail(Contract):
    """Basin.is_available(): whether the basin can be reached right now (environment)"""
    name = "BasinInst.is_available"
    trusted = True

    def __call__(self, interp, b, *a, **k):
        return b.fields["_available"]


class BasinsProp(Contract):
    name = "RTDCBase.basins"
    trusted = True
    is_property = True

    def __call__(self, interp, ds):
        return ds.fields["_basins_list"]


class FeaturesBasin(Contract):
    """RTDCBase.features_basin: a feature is offered through basins exactly when a basin that can be
    reached right now provides it -- an unreachable basin makes its features unavailable (however its
    definition lists them)"""
    path = CORE
    module = COREMOD
    name = "RTDCBase.features_basin"
    qualname = "RTDCBase.features_basin"
    classes = {"RTDCBase": (CORE, "RTDCBase")}
    class_modules = {"RTDCBase": COREMOD}
    params = ("self",)
    OFFERS = (["area_um", "deform"], ["deform"], ["image"], [])

    def __init__(self):
        super().__init__()
        self.callees = {"BasinInst.is_available": BasinAvail(), "RTDCBase.basins": BasinsProp()}

    def inputs(self, ctx):
        self._av = [ctx.bool(f"basin_{i}_is_available", inp=True) for i in range(len(self.OFFERS))]
        basins = [ctx.obj("BasinInst", {"features": list(fs), "_available": self._av[i], "name": f"b{i}"})
                  for i, fs in enumerate(self.OFFERS)]
        self_ = ctx.obj("RTDCBase", {"_basins_features": None, "_basins_list": basins}, name="self")
        return {"self": self_}

    def ensures(self, ctx, old, a, result):
        if not isinstance(result, list):
            return [("returns a list of feature names", z3.BoolVal(False))]
        posts = []
        for f in sorted({x for fs in self.OFFERS for x in fs}):
            offered = z3.Or(*[to_z3(self._av[i], "bool") for i, fs in enumerate(self.OFFERS) if f in fs])
            posts.append((f"'{f}' is offered exactly when a reachable basin provides it", z3.BoolVal(f in result) == offered))
        posts.append(("sorted, without repetitions", z3.BoolVal(result == sorted(set(result)))))
        return posts


class BasinDs(Contract):
    """Basin.ds: the dataset opened for a basin ignores at least the basin's
    ignored_basins (so the ignore set grows along any chain of basins: the
    variant |keys \\ ignored| decreases, hence resolution terminates for every
    reference graph)."""
    path = FB
    module = FBMOD
    name = "Basin.ds"
    qualname = "Basin.ds"
    classes = {"Basin": (FB, "Basin"), "RTDCBase": (CORE, "RTDCBase")}
    class_modules = {"Basin": FBMOD, "RTDCBase": COREMOD}
    inline = {"RTDCBase.ignore_basins"}
    params = ("self",)

    def __init__(self):
        super().__init__()

        class Load(Contract):
            name = "Basin.load_dataset"
            trusted = True

            def __call__(s, interp, basin, location, **kw):
                return basin.fields["_new_ds"]
        self.callees = {"Basin.is_available": IsAvailable(), "Basin.load_dataset": Load()}

    def inputs(self, ctx):
        pre = ["k0"]
        ds = ctx.obj("RTDCBase", {"_basins_ignored": list(pre)}, name="ds")
        ign = ["k1", "k2"]
        self._g = NS(dict(ds=ds, ign=ign, pre=pre))
        self_ = ctx.obj("Basin", {"_ds": None, "_avail": ctx.bool("available", inp=True),
                                  "location": "/x", "kwargs": {}, "ignored_basins": list(ign),
                                  "_new_ds": ds}, name="self")
        return {"self": self_}

    def exceptional(self, ctx, old, a, exc):
        if exc.name == "BasinNotAvailableError":
            return z3.Not(to_z3(a.self.fields["_avail"]))
        return None

    def ensures(self, ctx, old, a, result):
        g = self._g
        return [("returns the loaded dataset", z3.BoolVal(result is g.ds)),
                ("the dataset ignores the basin's ignore list (and keeps its own)",
                 z3.BoolVal(set(g.ign) | set(g.pre) <= set(g.ds.fields["_basins_ignored"])))]


class GetFeatureData(Contract):
    """Basin.get_feature_data(feat): data are handed out only after the
    measurement identifier has been verified (KeyError otherwise)."""
    path = FB
    module = FBMOD
    name = "Basin.get_feature_data"
    qualname = "Basin.get_feature_data"
    classes = {"Basin": (FB, "Basin")}
    class_modules = {"Basin": FBMOD}
    inline = {"Basin._assert_measurement_identifier"}
    params = ("self", "feat")

    def __init__(self):
        super().__init__()

        class V(Contract):
            name = "Basin.verify_basin"
            trusted = False

            def __call__(s, interp, basin, **kw):
                return basin.fields["_verify"]

        class Ds(Contract):
            name = "Basin.ds"
            is_property = True

            def __call__(s, interp, basin):
                return {"deform": "DATA"}
        self.callees = {"Basin.verify_basin": V(), "Basin.ds": Ds(),
                        "Basin.get_measurement_identifier": BasinMeasId()}

    def inputs(self, ctx):
        v = ctx.bool("verified", inp=True)
        self._v = v
        return {"self": ctx.obj("Basin", {"_verify": v, "_basin_id": "x", "measurement_identifier": "y"},
                                name="self"), "feat": "deform"}

    def exceptional(self, ctx, old, a, exc):
        if exc.name == "KeyError":
            return z3.Not(to_z3(self._v))
        return None

    def ensures(self, ctx, old, a, result):
        return [("data only from a verified basin", to_z3(self._v)),
                ("the basin dataset's feature", z3.BoolVal(result == "DATA"))]


UNITS += [BasinsRetrieve(), BasinDs(), GetFeatureData(), FeaturesBasin()]
TRUSTED += [BasinAvail(), BasinCtor("HDF5Basin", "file"), BasinInstVerify(), DsMeasId(), BasinsGetDicts()]


def extra_checks(run):
    """Frame obligations (solver-free except for the guard formula):
    FW1  the only writes to `_local_basins_allowed` are the constant False and the
         assignment guarded by format == "hdf5" in RTDC_HDF5.__init__;
    FW2  `format` of a dataset is written only by RTDCBase.__init__ (derived from
         the class name), and no dataset class other than RTDC_HDF5 is named *_hdf5."""
    import ast
    from pyvc import frames
    sites = frames.attribute_stores("_local_basins_allowed")
    bad = []
    seen_guard = False
    for s in sites:
        rhs = s["rhs"]
        if rhs is not None and isinstance(rhs, ast.Constant) and rhs.value is False:
            ok = True
        elif rhs is not None and s["where"].endswith("RTDC_HDF5.__init__"):
            # evaluate the right-hand side with a symbolic format string
            fmt = z3.String("format")
            src = ast.unparse(rhs)
            ok = _guarded_by_hdf5(rhs)
            seen_guard = seen_guard or ok
        elif s["kind"] == "class attribute" and s["where"].split(".")[-1] not in _network_capable():
            # a purely local format (e.g. the in-memory RTDC_Dict); the instance
            # attribute set by RTDCBase.__init__ shadows it anyway (FW1a)
            ok = True
        else:
            ok = False
        run.n_ob += 1
        if ok:
            run.n_dis += 1
        else:
            bad.append(s)
    # FW1a: the base-class constructor sets the instance attribute to False
    run.n_ob += 1
    if any(x["where"].endswith("RTDCBase.__init__") and isinstance(x["rhs"], ast.Constant)
           and x["rhs"].value is False and x.get("target") == "self._local_basins_allowed" for x in sites):
        run.n_dis += 1
    else:
        bad.append({"file": "dclab/rtdc_dataset/core.py", "line": 0, "where": "RTDCBase.__init__",
                    "kind": "missing `self._local_basins_allowed = False`", "rhs": None})
    run.by_backend["frame"] = run.by_backend.get("frame", 0) + len(sites)
    for s in bad:
        fn = _write_frame_replay(run, "FW1", s, "write of _local_basins_allowed that is neither the constant "
                                 "False nor guarded by format == 'hdf5'")
        print(f"  failed obligation: frame FW1: {s['file']}:{s['line']} ({s['where']}) {s['kind']}")
        run.violations.append(f"VIOLATION property={run.pid} replay={fn} no-failing-input-found")
    sites2 = [s for s in frames.attribute_stores("format", "dclab/rtdc_dataset")
              if s["kind"] != "attribute store" or s.get("target", "").startswith("self.")]
    for s in sites2:
        run.n_ob += 1
        ok = (s["where"].endswith("RTDCBase.__init__") and s["rhs"] is not None
              and ast.unparse(s["rhs"]) == "self.__class__.__name__.split('_')[-1].lower()") \
            or s["file"].endswith("fmt_tdms/naming.py")
        if ok:
            run.n_dis += 1
        else:
            fn = _write_frame_replay(run, "FW2", s, "dataset attribute `format` written outside RTDCBase.__init__")
            print(f"  failed obligation: frame FW2: {s['file']}:{s['line']} ({s['where']})")
            run.violations.append(f"VIOLATION property={run.pid} replay={fn} no-failing-input-found")
    run.by_backend["frame"] += len(sites2)
    # class names: network formats are not named *_hdf5
    import dclab.rtdc_dataset as rd
    from dclab.rtdc_dataset.core import RTDCBase

    def subs(c):
        for s in c.__subclasses__():
            yield s
            yield from subs(s)
    names = sorted({c.__name__ for c in subs(RTDCBase)})
    run.n_ob += 1
    clash = [n for n in names if n.split("_")[-1].lower() == "hdf5" and n != "RTDC_HDF5"]
    if not clash:
        run.n_dis += 1
    else:
        run.undecided.append(f"dataset classes whose derived format is 'hdf5': {clash}")
    run.extra["frame_obligations"] = {
        "writes_of__local_basins_allowed": [{k: (ast.unparse(v) if isinstance(v, ast.AST) else v)
                                             for k, v in s.items()} for s in sites],
        "writes_of_format": [{k: (ast.unparse(v) if isinstance(v, ast.AST) else v)
                              for k, v in s.items()} for s in sites2],
        "dataset_classes": names}


def _network_capable():
    """names of the dataset classes through which remote data can be opened:
    RTDCBase itself, RTDC_HDF5 and everything derived from it, RTDC_DCOR"""
    import dclab.rtdc_dataset as rd   # noqa: F401  (imports all formats)
    from dclab.rtdc_dataset.core import RTDCBase
    from dclab.rtdc_dataset.fmt_hdf5.base import RTDC_HDF5

    def subs(c):
        for x in c.__subclasses__():
            yield x
            yield from subs(x)
    names = {"RTDCBase", "RTDC_HDF5", "RTDC_DCOR"} | {c.__name__ for c in subs(RTDC_HDF5)}
    return names


def _guarded_by_hdf5(rhs):
    """z3: rhs (over self.format) is truthy only when format == 'hdf5'"""
    import ast
    fmt = z3.String("format")

    def ev(n):
        if isinstance(n, ast.Constant):
            if isinstance(n.value, bool):
                return z3.BoolVal(n.value)
            if isinstance(n.value, str):
                return z3.StringVal(n.value)
            raise ValueError
        if isinstance(n, ast.Attribute) and ast.unparse(n) == "self.format":
            return fmt
        if isinstance(n, ast.Compare) and len(n.ops) == 1:
            a, b = ev(n.left), ev(n.comparators[0])
            if isinstance(n.ops[0], ast.Eq):
                return a == b
            if isinstance(n.ops[0], ast.NotEq):
                return a != b
            raise ValueError
        if isinstance(n, ast.IfExp):
            return z3.If(ev(n.test), ev(n.body), ev(n.orelse))
        if isinstance(n, ast.BoolOp):
            vs = [ev(v) for v in n.values]
            return z3.And(*vs) if isinstance(n.op, ast.And) else z3.Or(*vs)
        if isinstance(n, ast.UnaryOp) and isinstance(n.op, ast.Not):
            return z3.Not(ev(n.operand))
        raise ValueError
    try:
        e = ev(rhs)
    except ValueError:
        return False
    s = z3.Solver()
    s.add(e, fmt != z3.StringVal("hdf5"))
    return s.check() == z3.unsat


def _write_frame_replay(run, oid, site, what):
    import ast, json, pathlib
    d = pathlib.Path(__file__).resolve().parent.parent / "replays"
    d.mkdir(exist_ok=True)
    fn = d / f"{run.pid}-frame-{oid}-{site['file'].replace('/', '_')}-{site['line']}.json"
    fn.write_text(json.dumps({"property": run.pid, "obligation": f"frame {oid}: {what}",
                              "site": {k: (ast.unparse(v) if isinstance(v, ast.AST) else v)
                                       for k, v in site.items()},
                              "verifier_output": "frame analyser: store site outside the modifies clause"},
                             indent=1))
    return fn.relative_to(d.parent)
