"""C02 — export contains exactly the selected events and features."""
import numpy as np
import z3

from pyvc import h5model, npmodel, models   # noqa: F401
from pyvc.contract import Contract
from pyvc.engine import LoopSpec, NS
from pyvc.models import divmod_sym, where_idx
from pyvc.sym import SArr, SObj, SInt, SOpaque, And, Or, Not, Implies, Z, to_z3, wrap
from contracts.C01 import GetBestNdChunks

EXPORT = "dclab/rtdc_dataset/export.py"
EMOD = "dclab.rtdc_dataset.export"


class YieldStacks(Contract):
    """yield_filtered_array_stacks(data, indices): the concatenation of the yielded
    chunks is data[indices] in order; every chunk is non-empty and has at most
    chunk_size events (chunk_size from get_best_nd_chunks)."""
    path = EXPORT
    module = EMOD
    qualname = "yield_filtered_array_stacks"
    params = ("data", "indices")

    def __init__(self, variant):
        self.variant = variant      # "sliceable" (has __array__) or "indexable only"
        self.name = f"yield_filtered_array_stacks[{variant}]"
        super().__init__()
        class IdxGet(Contract):
            """data[i] of a source that can only be indexed event by event"""
            name = "IndexableOnly.__getitem__"
            trusted = True

            def __call__(s, interp, d, key):
                from pyvc.sym import arr_elem
                arr = d.fields["_data"]
                kk = models.norm_index(interp, arr.n, key)
                return arr_elem(arr, kk)
        self.callees = {"RTDCWriter.get_best_nd_chunks": GetBestNdChunks(),
                        "IndexableOnly.__getitem__": IdxGet()}
        if variant == "sliceable":
            self.loops = {"kk in range(len(indices) // chunk_size)":
                          LoopSpec(inv=self.inv_fast, hints=self.hints_fast)}
        else:
            self.loops = {"ii in indices": LoopSpec(inv=self.inv_slow, hints=self.hints_slow,
                                                    modifies=lambda ctx, v: [v.chunk])}

    def inputs(self, ctx):
        N = ctx.int("N", lo=0, inp=True)
        h, w = ctx.int("h", lo=1), ctx.int("w", lo=1)
        data = ctx.arr("data", "elem", n=N.e, inp=True, dtype=np.dtype("uint8"))
        data.item_shape = (h, w)
        idx = ctx.arr("indices", "int", inp=True)
        k = z3.Int("k!rq")
        ctx.assume(z3.ForAll([k], z3.Implies(z3.And(k >= 0, k < idx.n), z3.And(idx.sel(k) >= 0, idx.sel(k) < N.e))))
        self._g = NS(dict(N=N, data=data, idx=SArr(idx.n, idx.a, "int")))
        if self.variant != "sliceable":
            # an object that can only be indexed event by event (e.g. tdms images)
            d = ctx.obj("IndexableOnly", {"_data": data, "shape": (N, h, w), "dtype": np.dtype("uint8")})
            d.closed = True
            return {"data": d, "indices": idx}
        return {"data": data, "indices": idx}

    # ------------------------------------------------------------ fast path
    def hints_fast(self, ctx, v):
        g = self._g
        cs = to_z3(v.chunk_size)
        q, r = divmod_sym(ctx, g.idx.n, cs)
        q, r = to_z3(q), to_z3(r)
        it = v.it
        return [("(it+1)*cs <= len(indices) while it < len // cs",
                 z3.Implies(z3.And(cs > 0, g.idx.n == cs * q + r, r >= 0, r < cs, it >= 0, it < q),
                            (it + 1) * cs <= g.idx.n))]

    def out_is_prefix(self, v, m):
        g = self._g
        out = v.__out__
        j = z3.Int("j!o")
        return z3.And(out.n == m, z3.ForAll([j], z3.Implies(z3.And(j >= 0, j < m),
                                                            out.sel(j) == g.data.sel(g.idx.sel(j)))))

    def inv_fast(self, ctx, v):
        cs = to_z3(v.chunk_size)
        return [("chunks yielded so far concatenate to data[indices[:it*chunk_size]]",
                 self.out_is_prefix(v, v.it * cs)),
                ("stop marks the end of the last chunk", to_z3(v.stop) == v.it * cs),
                ("chunk_size >= 1", cs >= 1)]

    # ------------------------------------------------------------ slow path
    def hints_slow(self, ctx, v):
        cs = to_z3(v.chunk_size)
        p = to_z3(v.jj) + 1
        q, r = divmod_sym(ctx, p, cs)
        q, r = to_z3(q), to_z3(r)
        return [("(jj+1) % chunk_size == 0 iff the buffer is full",
                 z3.Implies(z3.And(cs > 0, p == cs * q + r, r >= 0, r < cs, p >= 1, p <= cs),
                            (r == 0) == (p == cs)))]

    def inv_slow(self, ctx, v):
        g = self._g
        cs = to_z3(v.chunk_size)
        jj = to_z3(v.jj)
        out = v.__out__
        chunk = v.chunk
        j = z3.Int("j!s")
        return [("events visited so far == events yielded + events waiting in the buffer",
                 z3.And(out.n + jj == v.it, jj >= 0, jj < cs, cs >= 1)),
                ("yielded chunks concatenate to data[indices[:len(out)]]",
                 z3.ForAll([j], z3.Implies(z3.And(j >= 0, j < out.n), out.sel(j) == g.data.sel(g.idx.sel(j))))),
                ("the buffer holds the events visited since the last yield",
                 z3.And(chunk.n == cs,
                        z3.ForAll([j], z3.Implies(z3.And(j >= 0, j < jj),
                                                  chunk.sel(j) == g.data.sel(g.idx.sel(out.n + j))))))]

    def on_yield(self, ctx, v, value):
        cs = to_z3(v.chunk_size)
        if not isinstance(value, SArr):
            return [("a stack of events is yielded", z3.BoolVal(False))]
        return [("a yielded chunk holds between 1 and chunk_size events", z3.And(value.n >= 1, value.n <= cs))]

    def ensures(self, ctx, old, a, result):
        g = self._g
        v = NS({"__out__": self._last_locals["__out__"]})
        return [("the yielded chunks concatenate to data[indices], in order", self.out_is_prefix(v, g.idx.n))]

    def post(self, ctx, st):
        self._last_locals = st.frame.locals
        return super().post(ctx, st)


UNITS = [YieldStacks("sliceable"), YieldStacks("indexable only")]
TRUSTED = []
TRUSTED_BASE = ["numpy fancy indexing (N-FANCY) and np.where (N-WHERE); events of non-scalar features are opaque payloads",
                "RTDCWriter contracts of C01 at the call sites"]
ASSUMPTIONS = [".tdms sources are represented by an object that is indexable event by event"]


# ---------------------------------------------------------------- store_filtered_feature
from contracts.common_writer import StoreFeatureCallee   # noqa: E402
from pyvc.h5model import new_group, new_dataset   # noqa: E402
from pyvc.models import SIter   # noqa: E402


class YieldStacksCallee(Contract):
    """callee form of YieldStacks: an iterable of ceil(m / cs) chunks, chunk i holding
    data[indices[i*cs : min((i+1)*cs, m)]] (m = len(indices), cs >= 1)"""
    name = "yield_filtered_array_stacks"

    def __call__(self, interp, data, indices):
        ctx = interp.ctx
        darr = npmodel.as_arr(interp, data) if not isinstance(data, SArr) else data
        idx = npmodel.as_arr(interp, indices)
        cs = ctx.int("chunk_size", lo=1).e
        m = idx.n
        q, r = divmod_sym(ctx, m, cs)
        q, r = to_z3(q), to_z3(r)
        nchunks = z3.If(r > 0, q + 1, q)

        def getter(i):
            n_i = z3.If((i + 1) * cs <= m, cs, m - i * cs)
            c = models.arr_new(interp, n_i, lambda k: darr.sel(idx.sel(i * cs + k)), darr.kind, darr.dtype)
            c.item_shape = getattr(darr, "item_shape", ())
            return c
        it = SIter(nchunks, getter, {"cs": cs, "m": m, "q": q, "r": r})
        interp.cur_frame.unit._chunks = NS(dict(cs=cs, m=m, q=q, r=r, idx=idx, data=darr))
        return it


class StoreFiltered(Contract):
    """store_filtered_feature(writer, feat, data, filtarr): the feature's dataset in the
    output grows by exactly data[i] for the indices i selected by filtarr, in
    increasing order, unchanged; nothing is written for an empty selection."""
    path = EXPORT
    module = EMOD
    qualname = "store_filtered_feature"
    params = ("rtdc_writer", "feat", "data", "filtarr")
    native = {"scalar_feature_exists", "feature_exists"}

    def __init__(self, feat):
        self.feat = feat
        self.name = f"store_filtered_feature[{feat}]"
        super().__init__()
        self.callees = {"yield_filtered_array_stacks": YieldStacksCallee(),
                        "Writer.store_feature": StoreFeatureCallee(with_summaries=False)}
        chunk_loop = LoopSpec(inv=self.inv_chunks, havoc=self.havoc, hints=self.hints,
                              modifies=lambda ctx, v: self.touched())
        self.loops = {
            "imstack in yield_filtered_array_stacks(data, indices)": chunk_loop,
            "trstack in yield_filtered_array_stacks(data[tr], indices)": chunk_loop,
            "dstack in yield_filtered_array_stacks(data, indices)": chunk_loop,
            "ii in indices": LoopSpec(inv=self.inv_single, havoc=self.havoc,
                                      modifies=lambda ctx, v: self.touched()),
        }

    def inputs(self, ctx):
        N = ctx.int("N", lo=0, inp=True)
        filt = ctx.arr("filtarr", "bool", n=N.e, inp=True)
        kind = "F" if self.feat == "deform" else "elem"
        data = ctx.arr("data", kind, n=N.e, inp=True, dtype=np.dtype("float64" if kind == "F" else "uint8"))
        if kind == "elem":
            data.item_shape = (ctx.int("h", lo=1), ctx.int("w", lo=1))
        events = new_group(ctx, name="/events")
        h5 = new_group(ctx, members={"events": events}, name="/")
        hw = ctx.obj("Writer", {"h5file": h5, "mode": "append", "path": "out.rtdc"}, name="rtdc_writer")
        arg = {"fl1_raw": data} if self.feat == "trace" else data
        self._g = NS(dict(N=N, filt=SArr(filt.n, filt.a, "bool"), data=data, events=events, hw=hw))
        self._interp_like = None
        return {"rtdc_writer": hw, "feat": self.feat, "data": arg, "filtarr": filt}

    # the dataset of the feature in the output (None if not created yet)
    def target(self):
        def look(grp, name):
            if grp is None:
                return None
            if name in grp.fields["members"]:
                return grp.fields["members"][name]
            if name in grp.fields["maybe"]:
                return grp.fields["maybe"][name][1]
            return None
        ev = self._g.events
        if self.feat == "trace":
            return look(look(ev, "trace"), "fl1_raw")
        return look(ev, self.feat)

    def target_exists(self):
        """z3 condition under which the dataset is in the file"""
        def cond(grp, name):
            if grp is None:
                return z3.BoolVal(False)
            if name in grp.fields["members"]:
                return z3.BoolVal(True)
            if name in grp.fields["maybe"]:
                return to_z3(grp.fields["maybe"][name][0], "bool")
            return z3.BoolVal(False)
        ev = self._g.events
        if self.feat == "trace":
            tg = ev.fields["members"].get("trace") or (ev.fields["maybe"].get("trace") or (None, None))[1]
            return z3.And(cond(ev, "trace"), cond(tg, "fl1_raw"))
        return cond(ev, self.feat)

    def touched(self):
        out = [self._g.events]
        tg = self._g.events.fields["members"].get("trace")
        if tg is not None:
            out.append(tg)
        t = self.target()
        if t is not None:
            out.append(t)
        return out

    def havoc(self, ctx, v):
        """at the loop head the feature's dataset exists iff an iteration has run;
        its content is arbitrary (constrained by the invariant)"""
        g = self._g
        t = self.target()
        kind = g.data.kind
        nc = ctx.arr("content@L", kind, dtype=g.data.dtype)
        nc.item_shape = getattr(g.data, "item_shape", ())
        if t is None:
            grp = g.events
            name = self.feat
            if self.feat == "trace":
                present = wrap(v.it > 0)
                tg = new_group(ctx, name="/events/trace")
                g.events.fields["maybe"]["trace"] = (present, tg)
                grp, name = tg, "fl1_raw"
            ds = new_dataset(ctx, nc, chunks=(ctx.int("c0", lo=1),) + tuple(nc.item_shape),
                             name=f"/events/{self.feat}", item_shape=nc.item_shape, dtype=g.data.dtype)
            grp.fields["maybe"][name] = (wrap(v.it > 0), ds)
            self._loop_ds = ds
            self._loop_present = v.it > 0
        else:
            t.fields["content"] = nc

    def sel(self, ctx):
        class FI:
            pass
        fi = FI()
        fi.ctx = ctx
        fi.heap_write = lambda o: None
        return where_idx(fi, self._g.filt)

    def stored_is_prefix(self, ctx, m):
        """the output dataset holds data[S[j]] for j < m (and nothing else)"""
        g = self._g
        t = self.target()
        S = self.sel(ctx)
        j = z3.Int("j!sp")
        if t is None:
            return m == 0
        c = t.fields["content"]
        ex = self.target_exists()
        return z3.And(ex == (m > 0),
                      z3.Implies(ex, z3.And(c.n == m, z3.ForAll([j], z3.Implies(z3.And(j >= 0, j < m),
                                                                                c.sel(j) == g.data.sel(S.sel(j)))))))

    def hints(self, ctx, v):
        ch = self._chunks
        it = v.it
        return [("chunk arithmetic: it < number of chunks => it*cs < m, and the chunk ends at min((it+1)*cs, m)",
                 z3.Implies(z3.And(ch.cs > 0, ch.m == ch.cs * ch.q + ch.r, ch.r >= 0, ch.r < ch.cs, it >= 0,
                                   it < z3.If(ch.r > 0, ch.q + 1, ch.q)),
                            z3.And(it * ch.cs < ch.m,
                                   z3.Implies((it + 1) * ch.cs > ch.m, it == ch.q))))]

    def inv_chunks(self, ctx, v):
        ch = self._chunks
        done = z3.If(v.it * ch.cs <= ch.m, v.it * ch.cs, ch.m)
        return [("the output holds the selected events of the chunks visited so far",
                 self.stored_is_prefix(ctx, done)),
                ("chunks come from the selection of filtarr", ch.m == self.sel(ctx).n)]

    def inv_single(self, ctx, v):
        return [("the output holds the selected events visited so far", self.stored_is_prefix(ctx, v.it))]

    def ensures(self, ctx, old, a, result):
        S = self.sel(ctx)
        return [("the output holds exactly the selected events, in order, unchanged",
                 self.stored_is_prefix(ctx, S.n))]


UNITS += [StoreFiltered(f) for f in ("deform", "image", "contour", "trace")]
