"""C02 — export contains exactly the selected events and features."""
import numpy as np
import z3

from pyvc import h5model, npmodel, models   # noqa: F401
from pyvc.contract import Contract
from pyvc.engine import LoopSpec, NS
from pyvc.models import divmod_sym, where_idx
from pyvc.sym import SArr, SObj, SInt, SOpaque, Sym, And, Or, Not, Implies, Z, to_z3, wrap
from contracts.C01 import GetBestNdChunks

EXPORT = "dclab/rtdc_dataset/export.py"
EMOD = "dclab.rtdc_dataset.export"


class YieldStacks(Contract):
    """yield_filtered_array_stacks(data, indices): the concatenation of the yielded
    chunks is data[indices] in order; every chunk is non-empty and has at most
    chunk_size events (chunk_size from get_best_nd_chunks)."""
    path = EXPORT
    module = EMOD
    qualname = "yield_filtered_array_stacks"
    params = ("data", "indices")

    def __init__(self, variant):
        self.variant = variant      # "sliceable" (has __array__) or "indexable only"
        self.name = f"yield_filtered_array_stacks[{variant}]"
        super().__init__()
        class IdxGet(Contract):
            """data[i] of a source that can only be indexed event by event"""
            name = "IndexableOnly.__getitem__"
            trusted = True

            def __call__(s, interp, d, key):
                from pyvc.sym import arr_elem
                arr = d.fields["_data"]
                kk = models.norm_index(interp, arr.n, key)
                return arr_elem(arr, kk)
        self.callees = {"RTDCWriter.get_best_nd_chunks": GetBestNdChunks(),
                        "IndexableOnly.__getitem__": IdxGet()}
        if variant == "sliceable":
            self.loops = {"kk in range(len(indices) // chunk_size)":
                          LoopSpec(inv=self.inv_fast, hints=self.hints_fast)}
        else:
            self.loops = {"ii in indices": LoopSpec(inv=self.inv_slow, hints=self.hints_slow,
                                                    modifies=lambda ctx, v: [v.chunk])}

    def inputs(self, ctx):
        N = ctx.int("N", lo=0, inp=True)
        h, w = ctx.int("h", lo=1), ctx.int("w", lo=1)
        data = ctx.arr("data", "elem", n=N.e, inp=True, dtype=np.dtype("uint8"))
        data.item_shape = (h, w)
        idx = ctx.arr("indices", "int", inp=True)
        k = z3.Int("k!rq")
        ctx.assume(z3.ForAll([k], z3.Implies(z3.And(k >= 0, k < idx.n), z3.And(idx.sel(k) >= 0, idx.sel(k) < N.e))))
        self._g = NS(dict(N=N, data=data, idx=SArr(idx.n, idx.a, "int")))
        if self.variant != "sliceable":
            # an object that can only be indexed event by event (e.g. tdms images)
            d = ctx.obj("IndexableOnly", {"_data": data, "shape": (N, h, w), "dtype": np.dtype("uint8")})
            d.closed = True
            return {"data": d, "indices": idx}
        return {"data": data, "indices": idx}

    # ------------------------------------------------------------ fast path
    def hints_fast(self, ctx, v):
        g = self._g
        cs = to_z3(v.chunk_size)
        q, r = divmod_sym(ctx, g.idx.n, cs)
        q, r = to_z3(q), to_z3(r)
        it = v.it
        return [("(it+1)*cs <= len(indices) while it < len // cs",
                 z3.Implies(z3.And(cs > 0, g.idx.n == cs * q + r, r >= 0, r < cs, it >= 0, it < q),
                            (it + 1) * cs <= g.idx.n))]

    def out_is_prefix(self, v, m):
        g = self._g
        out = v.__out__
        j = z3.Int("j!o")
        return z3.And(out.n == m, z3.ForAll([j], z3.Implies(z3.And(j >= 0, j < m),
                                                            out.sel(j) == g.data.sel(g.idx.sel(j)))))

    def inv_fast(self, ctx, v):
        cs = to_z3(v.chunk_size)
        return [("chunks yielded so far concatenate to data[indices[:it*chunk_size]]",
                 self.out_is_prefix(v, v.it * cs)),
                ("stop marks the end of the last chunk", to_z3(v.stop) == v.it * cs),
                ("chunk_size >= 1", cs >= 1)]

    # ------------------------------------------------------------ slow path
    def hints_slow(self, ctx, v):
        cs = to_z3(v.chunk_size)
        p = to_z3(v.jj) + 1
        q, r = divmod_sym(ctx, p, cs)
        q, r = to_z3(q), to_z3(r)
        return [("(jj+1) % chunk_size == 0 iff the buffer is full",
                 z3.Implies(z3.And(cs > 0, p == cs * q + r, r >= 0, r < cs, p >= 1, p <= cs),
                            (r == 0) == (p == cs)))]

    def inv_slow(self, ctx, v):
        g = self._g
        cs = to_z3(v.chunk_size)
        jj = to_z3(v.jj)
        out = v.__out__
        chunk = v.chunk
        j = z3.Int("j!s")
        return [("events visited so far == events yielded + events waiting in the buffer",
                 z3.And(out.n + jj == v.it, jj >= 0, jj < cs, cs >= 1)),
                ("yielded chunks concatenate to data[indices[:len(out)]]",
                 z3.ForAll([j], z3.Implies(z3.And(j >= 0, j < out.n), out.sel(j) == g.data.sel(g.idx.sel(j))))),
                ("the buffer holds the events visited since the last yield",
                 z3.And(chunk.n == cs,
                        z3.ForAll([j], z3.Implies(z3.And(j >= 0, j < jj),
                                                  chunk.sel(j) == g.data.sel(g.idx.sel(out.n + j))))))]

    def on_yield(self, ctx, v, value):
        cs = to_z3(v.chunk_size)
        if not isinstance(value, SArr):
            return [("a stack of events is yielded", z3.BoolVal(False))]
        return [("a yielded chunk holds between 1 and chunk_size events", z3.And(value.n >= 1, value.n <= cs))]

    def ensures(self, ctx, old, a, result):
        g = self._g
        v = NS({"__out__": self._last_locals["__out__"]})
        return [("the yielded chunks concatenate to data[indices], in order", self.out_is_prefix(v, g.idx.n))]

    def post(self, ctx, st):
        self._last_locals = st.frame.locals
        return super().post(ctx, st)


UNITS = [YieldStacks("sliceable"), YieldStacks("indexable only")]
TRUSTED = []
TRUSTED_BASE = ["numpy fancy indexing (N-FANCY) and np.where (N-WHERE); events of non-scalar features are opaque payloads",
                "RTDCWriter contracts of C01 at the call sites"]
ASSUMPTIONS = [".tdms sources are represented by an object that is indexable event by event"]


# ---------------------------------------------------------------- store_filtered_feature
from contracts.common_writer import StoreFeatureCallee   # noqa: E402
from pyvc.h5model import new_group, new_dataset   # noqa: E402
from pyvc.models import SIter   # noqa: E402


class YieldStacksCallee(Contract):
    """callee form of YieldStacks: an iterable of ceil(m / cs) chunks, chunk i holding
    data[indices[i*cs : min((i+1)*cs, m)]] (m = len(indices), cs >= 1)"""
    name = "yield_filtered_array_stacks"

    def __call__(self, interp, data, indices):
        ctx = interp.ctx
        darr = npmodel.as_arr(interp, data) if not isinstance(data, SArr) else data
        idx = npmodel.as_arr(interp, indices)
        cs = ctx.int("chunk_size", lo=1).e
        m = idx.n
        q, r = divmod_sym(ctx, m, cs)
        q, r = to_z3(q), to_z3(r)
        nchunks = z3.If(r > 0, q + 1, q)

        def getter(i):
            n_i = z3.If((i + 1) * cs <= m, cs, m - i * cs)
            c = models.arr_new(interp, n_i, lambda k: darr.sel(idx.sel(i * cs + k)), darr.kind, darr.dtype)
            c.item_shape = getattr(darr, "item_shape", ())
            return c
        it = SIter(nchunks, getter, {"cs": cs, "m": m, "q": q, "r": r})
        interp.cur_frame.unit._chunks = NS(dict(cs=cs, m=m, q=q, r=r, idx=idx, data=darr))
        return it


class StoreFiltered(Contract):
    """store_filtered_feature(writer, feat, data, filtarr): the feature's dataset in the
    output grows by exactly data[i] for the indices i selected by filtarr, in
    increasing order, unchanged; nothing is written for an empty selection."""
    path = EXPORT
    module = EMOD
    qualname = "store_filtered_feature"
    params = ("rtdc_writer", "feat", "data", "filtarr")
    native = {"scalar_feature_exists", "feature_exists"}

    def __init__(self, feat):
        self.feat = feat
        self.name = f"store_filtered_feature[{feat}]"
        super().__init__()
        self.callees = {"yield_filtered_array_stacks": YieldStacksCallee(),
                        "Writer.store_feature": StoreFeatureCallee(with_summaries=False)}
        chunk_loop = LoopSpec(inv=self.inv_chunks, havoc=self.havoc, hints=self.hints,
                              modifies=lambda ctx, v: self.touched())
        self.loops = {
            "imstack in yield_filtered_array_stacks(data, indices)": chunk_loop,
            "trstack in yield_filtered_array_stacks(data[tr], indices)": chunk_loop,
            "dstack in yield_filtered_array_stacks(data, indices)": chunk_loop,
            "ii in indices": LoopSpec(inv=self.inv_single, havoc=self.havoc,
                                      modifies=lambda ctx, v: self.touched()),
        }

    def inputs(self, ctx):
        N = ctx.int("N", lo=0, inp=True)
        filt = ctx.arr("filtarr", "bool", n=N.e, inp=True)
        kind = "F" if self.feat == "deform" else "elem"
        data = ctx.arr("data", kind, n=N.e, inp=True, dtype=np.dtype("float64" if kind == "F" else "uint8"))
        if kind == "elem":
            data.item_shape = (ctx.int("h", lo=1), ctx.int("w", lo=1))
        events = new_group(ctx, name="/events")
        h5 = new_group(ctx, members={"events": events}, name="/")
        hw = ctx.obj("Writer", {"h5file": h5, "mode": "append", "path": "out.rtdc"}, name="rtdc_writer")
        arg = {"fl1_raw": data} if self.feat == "trace" else data
        self._g = NS(dict(N=N, filt=SArr(filt.n, filt.a, "bool"), data=data, events=events, hw=hw))
        self._interp_like = None
        return {"rtdc_writer": hw, "feat": self.feat, "data": arg, "filtarr": filt}

    # the dataset of the feature in the output (None if not created yet)
    def target(self):
        def look(grp, name):
            if grp is None:
                return None
            if name in grp.fields["members"]:
                return grp.fields["members"][name]
            if name in grp.fields["maybe"]:
                return grp.fields["maybe"][name][1]
            return None
        ev = self._g.events
        if self.feat == "trace":
            return look(look(ev, "trace"), "fl1_raw")
        return look(ev, self.feat)

    def target_exists(self):
        """z3 condition under which the dataset is in the file"""
        def cond(grp, name):
            if grp is None:
                return z3.BoolVal(False)
            if name in grp.fields["members"]:
                return z3.BoolVal(True)
            if name in grp.fields["maybe"]:
                return to_z3(grp.fields["maybe"][name][0], "bool")
            return z3.BoolVal(False)
        ev = self._g.events
        if self.feat == "trace":
            tg = ev.fields["members"].get("trace") or (ev.fields["maybe"].get("trace") or (None, None))[1]
            return z3.And(cond(ev, "trace"), cond(tg, "fl1_raw"))
        return cond(ev, self.feat)

    def touched(self):
        out = [self._g.events]
        tg = self._g.events.fields["members"].get("trace")
        if tg is not None:
            out.append(tg)
        t = self.target()
        if t is not None:
            out.append(t)
        return out

    def havoc(self, ctx, v):
        """at the loop head the feature's dataset exists iff an iteration has run;
        its content is arbitrary (constrained by the invariant)"""
        g = self._g
        t = self.target()
        kind = g.data.kind
        nc = ctx.arr("content@L", kind, dtype=g.data.dtype)
        nc.item_shape = getattr(g.data, "item_shape", ())
        if t is None:
            grp = g.events
            name = self.feat
            if self.feat == "trace":
                present = wrap(v.it > 0)
                tg = new_group(ctx, name="/events/trace")
                g.events.fields["maybe"]["trace"] = (present, tg)
                grp, name = tg, "fl1_raw"
            ds = new_dataset(ctx, nc, chunks=(ctx.int("c0", lo=1),) + tuple(nc.item_shape),
                             name=f"/events/{self.feat}", item_shape=nc.item_shape, dtype=g.data.dtype)
            grp.fields["maybe"][name] = (wrap(v.it > 0), ds)
            self._loop_ds = ds
            self._loop_present = v.it > 0
        else:
            t.fields["content"] = nc

    def sel(self, ctx):
        class FI:
            pass
        fi = FI()
        fi.ctx = ctx
        fi.heap_write = lambda o: None
        return where_idx(fi, self._g.filt)

    def stored_is_prefix(self, ctx, m):
        """the output dataset holds data[S[j]] for j < m (and nothing else)"""
        g = self._g
        t = self.target()
        S = self.sel(ctx)
        j = z3.Int("j!sp")
        if t is None:
            return m == 0
        c = t.fields["content"]
        ex = self.target_exists()
        return z3.And(ex == (m > 0),
                      z3.Implies(ex, z3.And(c.n == m, z3.ForAll([j], z3.Implies(z3.And(j >= 0, j < m),
                                                                                c.sel(j) == g.data.sel(S.sel(j)))))))

    def hints(self, ctx, v):
        ch = self._chunks
        it = v.it
        return [("chunk arithmetic: it < number of chunks => it*cs < m, and the chunk ends at min((it+1)*cs, m)",
                 z3.Implies(z3.And(ch.cs > 0, ch.m == ch.cs * ch.q + ch.r, ch.r >= 0, ch.r < ch.cs, it >= 0,
                                   it < z3.If(ch.r > 0, ch.q + 1, ch.q)),
                            z3.And(it * ch.cs < ch.m,
                                   z3.Implies((it + 1) * ch.cs > ch.m, it == ch.q))))]

    def inv_chunks(self, ctx, v):
        ch = self._chunks
        done = z3.If(v.it * ch.cs <= ch.m, v.it * ch.cs, ch.m)
        return [("the output holds the selected events of the chunks visited so far",
                 self.stored_is_prefix(ctx, done)),
                ("chunks come from the selection of filtarr", ch.m == self.sel(ctx).n)]

    def inv_single(self, ctx, v):
        return [("the output holds the selected events visited so far", self.stored_is_prefix(ctx, v.it))]

    def ensures(self, ctx, old, a, result):
        S = self.sel(ctx)
        return [("the output holds exactly the selected events, in order, unchanged",
                 self.stored_is_prefix(ctx, S.n))]


UNITS += [StoreFiltered(f) for f in ("deform", "image", "contour", "trace")]


# ---------------------------------------------------------------- Export.hdf5 (scenario)
class StoreFilteredCallee(Contract):
    """callee form of StoreFiltered (verified above)"""
    name = "store_filtered_feature"

    def __call__(self, interp, rtdc_writer=None, feat=None, data=None, filtarr=None):
        ctx = interp.ctx
        S = where_idx(interp, filtarr)
        interp.cur_frame.unit.__dict__.setdefault("_filtarrs", []).append(SArr(filtarr.n, filtarr.a, "bool"))
        if not ctx.decide(wrap(S.n > 0)):
            return None
        darr = data if isinstance(data, SArr) else npmodel.as_arr(interp, data)
        sel = models.arr_new(interp, S.n, lambda k: darr.sel(S.sel(k)), darr.kind, darr.dtype)
        sel.item_shape = getattr(darr, "item_shape", ())
        StoreFeatureCallee(with_summaries=False)(interp, rtdc_writer, feat=feat, data=sel)
        return None


class WriterCtor(Contract):
    """RTDCWriter(path, mode="append", ...): a writer on a new, empty file"""
    name = "RTDCWriter"
    trusted = True

    def __call__(self, interp, path, mode="append", compression_kwargs=None, **kw):
        u = interp.cur_frame.unit
        events = new_group(interp.ctx, name="/events")
        h5 = new_group(interp.ctx, members={"events": events}, name="/")
        hw = interp.ctx.obj("Writer", {"h5file": h5, "mode": mode, "path": path, "_meta": None, "_logs": {},
                                       "_tables": {}, "_basins": []}, name="hw")
        u._hw = hw
        return hw


class WriterExit(Contract):
    """RTDCWriter.__exit__: rectify_metadata (C01: event count := number of stored events,
    ...) if the events group is not empty, then the file is closed"""
    name = "Writer.__exit__"
    trusted = True

    def __call__(self, interp, hw, *a):
        ev = hw.fields["h5file"].fields["members"]["events"]
        names = sorted(ev.fields["members"])
        if names:
            first = ev.fields["members"][names[0]]
            if first.clsname == "H5Group":     # trace
                first = list(first.fields["members"].values())[0]
            hw.fields["_count_after_exit"] = wrap(first.fields["content"].n)
        else:
            m = hw.fields["_meta"] or {}
            hw.fields["_count_after_exit"] = m.get("experiment", {}).get("event count")
        hw.fields["_closed"] = True
        return None


class WriterRecord(Contract):
    trusted = True

    def __init__(self, name, slot):
        self.name, self.slot = name, slot
        super().__init__()

    def __call__(self, interp, hw, *a, **k):
        if self.slot == "_meta":
            hw.fields["_meta"] = a[0] if a else k.get("meta")
        elif self.slot == "_basins":
            hw.fields["_basins"].append(k)
        else:
            name = a[0] if a else k.get("name")
            val = a[1] if len(a) > 1 else (k.get("lines") if "lines" in k else k.get("cmp_array"))
            key = name if isinstance(name, str) else models.str_term(name)
            hw.fields[self.slot][key if isinstance(key, str) else str(key)] = val
        return None


class ExpConfig(Contract):
    trusted = True

    def __init__(self, name, what):
        self.name, self.what = name, what
        super().__init__()

    def __call__(self, interp, cfg, key=None):
        if self.what == "contains":
            return key in cfg.fields["_d"]
        return cfg.fields["_d"][key]


class ExportHdf5(Contract):
    """Export.hdf5(path, features, filtered, logs, tables): every requested feature of the
    output holds exactly the events selected by the filter (all events when not
    filtered; limited to the common length when feature lengths differ), in order
    and unchanged; metadata sections, requested logs and tables are carried over;
    the stored event count equals the number of exported events; a filtered export
    gets a new run identifier derived from the source's."""
    path = EXPORT
    module = EMOD
    qualname = "Export.hdf5"
    classes = {"Export": (EXPORT, "Export")}
    class_modules = {"Export": EMOD}
    native = {"scalar_feature_exists", "feature_exists", "get_basin_classes"}
    params = ("self", "path", "features", "filtered", "logs", "tables", "basins", "meta_prefix", "override")

    def __init__(self, fmt, filtered, unequal=False):
        self.fmt, self.filtered, self.unequal = fmt, filtered, unequal
        self.name = (f"Export.hdf5[source {fmt}, {'filtered' if filtered else 'unfiltered'}"
                     f"{', unequal feature lengths' if unequal else ''}]")
        super().__init__()
        self.callees = {
            "RTDCWriter": WriterCtor(), "Writer.__exit__": WriterExit(),
            "Writer.store_metadata": WriterRecord("Writer.store_metadata", "_meta"),
            "Writer.store_log": WriterRecord("Writer.store_log", "_logs"),
            "Writer.store_table": WriterRecord("Writer.store_table", "_tables"),
            "Writer.store_basin": WriterRecord("Writer.store_basin", "_basins"),
            "Writer.store_feature": StoreFeatureCallee(with_summaries=False),
            "store_filtered_feature": StoreFilteredCallee(),
            "Config.__contains__": ExpConfig("Config.__contains__", "contains"),
            "Config.__getitem__": ExpConfig("Config.__getitem__", "get"),
            "DS.__getitem__": _DsGet(), "DS.__len__": _DsLen(),
            "DS.get_measurement_identifier": _DsMeasId(),
        }

    def inputs(self, ctx):
        import pathlib
        self._filtarrs = []
        N = ctx.int("N", lo=1, inp=True)
        n_img = ctx.int("N_image", lo=0, inp=True) if self.unequal else N
        if self.unequal:
            ctx.assume(n_img.e <= N.e)
        deform = ctx.arr("deform", "F", n=N.e, inp=True, dtype=np.dtype("float64"))
        deform.item_shape = ()
        image = ctx.arr("image", "elem", n=to_z3(n_img), inp=True, dtype=np.dtype("uint8"))
        image.item_shape = (ctx.int("h", lo=1), ctx.int("w", lo=1))
        filt = ctx.arr("filter_all", "bool", n=N.e, inp=True)
        count0 = ctx.int("source_event_count")
        cfg = ctx.obj("Config", {"_d": {
            "experiment": {"sample": "s", "event count": count0, "run index": 1},
            "imaging": {"pixel size": 0.34}, "setup": {"medium": "CellCarrier"},
            # a key that exists only by a naming rule (not in the static key tables)
            "online_filter": {"area_um,deform soft limit": True, "target event count": 100},
            "user": {"my key": 5}, "filtering": {"enable filters": True}}})
        self._cfg, self._cfg0 = cfg, {sec: dict(v) for sec, v in cfg.fields["_d"].items()}
        ds = ctx.obj("DS", {"_N": N, "_feats": {"deform": deform, "image": image}, "config": cfg,
                            "format": self.fmt, "features_innate": ["deform", "image"],
                            "filter": ctx.obj("Filter", {"all": filt}),
                            "logs": {"acq": "LOGLINES"}, "tables": {"tab": "TABLE"}, "basins": [],
                            "_meas_id": "run-0001", "path": pathlib.Path("/data/src.rtdc")}, name="ds")
        self._g = NS(dict(N=N, n_img=n_img, deform=deform, image=image,
                          filt=SArr(filt.n, filt.a, "bool"), ds=ds, count0=count0))
        return {"self": ctx.obj("Export", {"rtdc_ds": ds}, name="self"), "path": "/out/exported.rtdc",
                "features": ["image", "deform", "deform"], "filtered": self.filtered, "logs": True,
                "tables": True, "basins": False, "meta_prefix": "src_", "override": True}

    def sel_mask(self, ctx, k):
        g = self._g
        lim = to_z3(g.n_img) if self.unequal else g.N.e
        base = g.filt.sel(k) if self.filtered else z3.BoolVal(True)
        return z3.And(k >= 0, k < g.N.e, base, k < lim)

    def ensures(self, ctx, old, a, result):
        g = self._g
        hw = getattr(self, "_hw", None)
        if hw is None:
            return [("a writer was opened on the output path", z3.BoolVal(False))]
        fi = NS({"ctx": ctx, "heap_write": lambda o: None})
        mask = models.arr_new(fi, g.N.e, lambda k: self.sel_mask(ctx, k), "bool")
        mask = SArr(mask.n, mask.a, "bool")
        S = where_idx(fi, mask)
        for fa in self.__dict__.get("_filtarrs", []):
            ctx.assume(models.where_ext(fi, fa, mask))      # N-WHERE-EXT instances
        posts = [("the writer works on the requested path in append mode on a new file and is closed",
                  z3.BoolVal(str(hw.fields["path"]) == "/out/exported.rtdc" and hw.fields["mode"] == "append"
                             and hw.fields.get("_closed") is True))]
        ev = hw.fields["h5file"].fields["members"]["events"]
        j = z3.Int("j!p")
        for f, src in (("deform", g.deform), ("image", g.image)):
            dsf = ev.fields["members"].get(f)
            if dsf is None:
                posts.append((f"{f}: nothing is stored only if nothing is selected", S.n == 0))
                continue
            c = dsf.fields["content"]
            posts.append((f"{f}: exactly the selected events, in order, unchanged",
                          z3.And(c.n == S.n, z3.ForAll([j], z3.Implies(z3.And(j >= 0, j < S.n),
                                                                       c.sel(j) == src.sel(S.sel(j)))))))
        posts.append(("only the requested features are written",
                      z3.BoolVal(set(ev.fields["members"]) <= {"deform", "image"})))
        cnt = hw.fields.get("_count_after_exit")
        posts.append(("the stored event count equals the number of exported events",
                      z3.BoolVal(False) if cnt is None else to_z3(cnt) == S.n))
        meta = hw.fields["_meta"] or {}
        posts.append(("metadata sections and user entries are carried over",
                      z3.BoolVal(meta.get("imaging") == {"pixel size": 0.34} and meta.get("setup") == {"medium": "CellCarrier"}
                                 and meta.get("user") == {"my key": 5} and "filtering" not in meta
                                 and meta.get("online_filter") == {"area_um,deform soft limit": True,
                                                                   "target event count": 100}
                                 and meta.get("experiment", {}).get("sample") == "s")))
        rid = meta.get("experiment", {}).get("run identifier")
        posts.append(("a filtered export gets a new run identifier '<source id>-xxxx'; an unfiltered one none",
                      z3.BoolVal((isinstance(rid, str) and rid.startswith("run-0001-") and len(rid) == 13)
                                 if self.filtered else rid is None)))
        def _same(a, b):
            return a is b or (not isinstance(a, Sym) and not isinstance(b, Sym) and a == b)
        now = self._cfg.fields["_d"]
        posts.append(("the configuration of the source dataset is left as it was (the export works on copies)",
                      z3.BoolVal(set(now) == set(self._cfg0)
                                 and all(set(now[s_]) == set(self._cfg0[s_])
                                         and all(_same(now[s_][k_], self._cfg0[s_][k_]) for k_ in now[s_]) for s_ in now))))
        posts.append(("logs and tables of the source are carried over under the prefix",
                      z3.BoolVal(hw.fields["_logs"].get("src_acq") == "LOGLINES"
                                 and hw.fields["_tables"].get("src_tab") == "TABLE")))
        return posts


class _DsGet(Contract):
    name = "DS.__getitem__"
    trusted = True

    def __call__(self, interp, ds, feat):
        return ds.fields["_feats"][feat]


class _DsLen(Contract):
    name = "DS.__len__"
    trusted = True

    def __call__(self, interp, ds):
        return ds.fields["_N"]


class _DsMeasId(Contract):
    name = "DS.get_measurement_identifier"
    trusted = True

    def __call__(self, interp, ds):
        return ds.fields["_meas_id"]


UNITS += [ExportHdf5("hdf5", True), ExportHdf5("hdf5", False), ExportHdf5("dict", True),
          ExportHdf5("hdf5", True, unequal=True)]
TRUSTED += [WriterCtor(), WriterExit()]


# ---------------------------------------------------------------- replay on the real code
def _replay_stacks(unit_name):
    """the generator itself, on a sliceable array and on an object that can only be indexed event by event,
    for selection sizes around the chunk size"""
    import numpy as np
    from dclab.rtdc_dataset.export import yield_filtered_array_stacks
    from dclab.rtdc_dataset.writer import RTDCWriter

    class Lazy:
        def __init__(self, a):
            self._a, self.shape, self.dtype = a, a.shape, a.dtype

        def __getitem__(self, i):
            if not isinstance(i, (int, np.integer)):
                raise TypeError("event-by-event access only")
            return self._a[i]

        def __len__(self):
            return len(self._a)
    rng = np.random.RandomState(3)
    item = (40, 60)
    chunk = RTDCWriter.get_best_nd_chunks(item_shape=item, item_dtype=np.dtype("uint8"))[0]
    n = 2 * chunk + 5
    base = rng.randint(0, 255, size=(n,) + item).astype(np.uint8)
    for lazy in (("indexable" in unit_name), ):
        data = Lazy(base) if lazy else base
        for m in (0, 1, 2, chunk - 1, chunk, chunk + 1, chunk + 2, 2 * chunk, 2 * chunk + 1):
            idx = np.sort(rng.choice(n, size=m, replace=False)) if m else np.array([], dtype=int)
            got = [np.array(st, copy=True) for st in yield_filtered_array_stacks(data, idx)]
            cat = np.concatenate(got) if got else np.zeros((0,) + item, dtype=np.uint8)
            if cat.shape != base[idx].shape or not np.array_equal(cat, base[idx]):
                return {"failed": True, "detail": f"{'event-by-event' if lazy else 'sliceable'} data, chunk size {chunk}, "
                                                  f"{m} selected events: the stacks hold {len(cat)} events"
                                                  + ("" if len(cat) != m else " in the wrong order / with wrong content")}
    return {"failed": False, "detail": "stacks concatenate to the selection for sizes around the chunk size"}


def replay(unit_name, inp, obligation=""):
    import pathlib, tempfile, warnings
    import h5py, numpy as np
    import dclab
    if unit_name.startswith("yield_filtered_array_stacks"):
        return _replay_stacks(unit_name)
    import dclab.rtdc_dataset.writer as w
    import dclab.rtdc_dataset.export as e
    n = int(inp.get("N", 7))
    n = max(1, min(n, 40))
    filt = [bool(x) for x in (inp.get("filter_all") or inp.get("filtarr") or [])][:n]
    filt = np.array(filt + [True] * (n - len(filt)), dtype=bool)
    if inp.get("empty"):
        filt[:] = False
    filtered = "unfiltered" not in unit_name
    rng = np.random.RandomState(5)
    old_w, old_e = w.version, e.version
    w.version = e.version = "0.60.0"
    try:
        with tempfile.TemporaryDirectory(prefix="c02_") as td, warnings.catch_warnings():
            warnings.simplefilter("ignore")
            td = pathlib.Path(td)
            data = {"deform": rng.uniform(0.01, 0.2, n), "area_um": rng.uniform(50, 150, n),
                    "image": rng.randint(1, 200, size=(n, 5, 6)).astype(np.uint8),
                    "trace": {"fl1_raw": rng.randint(-50, 50, size=(n, 8)).astype(np.int16)}}
            src = dclab.new_dataset(data)
            src.config["experiment"]["sample"] = "s"
            src.config["experiment"]["run identifier"] = "run-0001"
            src.config["imaging"]["pixel size"] = 0.34
            if "source hdf5" in unit_name or inp.get("via_hdf5"):
                p0 = td / "src.rtdc"
                src.export.hdf5(p0, features=["deform", "area_um", "image", "trace"], filtered=False)
                src = dclab.new_dataset(p0)
            src.filter.manual[:] = filt
            src.apply_filter()
            out = td / "out.rtdc"
            src.export.hdf5(out, features=["image", "deform", "trace", "deform"], filtered=filtered)
            sel = np.where(filt)[0] if filtered else np.arange(n)
            with h5py.File(out) as h5:
                ev = h5["events"] if "events" in h5 else {}
                cnt = h5.attrs.get("experiment:event count")
                for f in ("deform", "image"):
                    if f not in ev:
                        if len(sel):
                            return {"failed": True, "detail": f"{f} missing in the export of {len(sel)} events"}
                        continue
                    got = ev[f][:]
                    want = data[f][sel]
                    if got.shape != want.shape or not np.allclose(got, want):
                        return {"failed": True, "detail": f"{f}: exported events differ from the selection "
                                                          f"{sel.tolist()} (got {len(got)} events)"}
                if "trace" in ev and not np.array_equal(ev["trace"]["fl1_raw"][:], data["trace"]["fl1_raw"][sel]):
                    return {"failed": True, "detail": "trace: exported events differ from the selection"}
                if cnt is None or int(cnt) != len(sel):
                    return {"failed": True, "detail": f"stored event count {cnt} but {len(sel)} events were "
                                                      f"exported (filter {filt.astype(int).tolist()})"}
        return {"failed": False, "detail": "export holds exactly the selection"}
    finally:
        w.version, e.version = old_w, old_e


def bounded_inputs(unit_name, rng):
    import itertools
    yield {"N": 5, "empty": True}
    for n in (1, 3, 12, 25):
        for pat in ([True], [False, True], [True, True, False], [False]):
            yield {"N": n, "filter_all": (pat * n)[:n]}
            yield {"N": n, "filter_all": (pat * n)[:n], "via_hdf5": True}


class ExportTsv(Contract):
    """Export.tsv(path, features, filtered): the table written has one column per
    requested scalar feature (lower-cased, sorted, without duplicates), each column
    holding the feature restricted to the filter (all events when not filtered),
    written with '%.10e' and tab as delimiter; non-scalar features are refused."""
    path = EXPORT
    module = EMOD
    qualname = "Export.tsv"
    classes = {"Export": (EXPORT, "Export")}
    class_modules = {"Export": EMOD}
    native = {"get_feature_label"}
    params = ("self", "path", "features", "meta_data", "filtered", "override")

    def __init__(self, filtered):
        self.filtered = filtered
        self.name = f"Export.tsv[{'filtered' if filtered else 'unfiltered'}]"
        super().__init__()

        class AsDict(Contract):
            name = "Config.as_dict"
            trusted = True

            def __call__(s, interp, cfg):
                return {"experiment": {"sample": "s"}}
        class Label(Contract):
            name = "get_feature_label"
            trusted = True

            def __call__(s, interp, feat, rtdc_ds=None):
                return "label of " + str(feat)
        self.callees = {"DS.__getitem__": _DsGet(), "Config.as_dict": AsDict(), "get_feature_label": Label()}

    def inputs(self, ctx):
        N = ctx.int("N", lo=0, inp=True)
        mk = lambda nm: ctx.arr(nm, "F", n=N.e, inp=True, dtype=np.dtype("float64"))   # noqa
        deform, area = mk("deform"), mk("area_um")
        for a_ in (deform, area):
            a_.item_shape = ()
        filt = ctx.arr("filter_all", "bool", n=N.e, inp=True)
        ds = ctx.obj("DS", {"_N": N, "_feats": {"deform": deform, "area_um": area},
                            "features_scalar": ["area_um", "deform"], "config": ctx.obj("Config", {}),
                            "filter": ctx.obj("Filter", {"all": filt})}, name="ds")
        self._g = NS(dict(N=N, deform=deform, area=area, filt=SArr(filt.n, filt.a, "bool")))
        return {"self": ctx.obj("Export", {"rtdc_ds": ds}, name="self"), "path": "/out/table.tsv",
                "features": ["Deform", "area_um", "deform"], "meta_data": None, "filtered": self.filtered,
                "override": True}

    def ensures(self, ctx, old, a, result):
        g = self._g
        log = ctx.__dict__.get("fs_log", [])
        sv = [x for x in log if x[0] == "savetxt"]
        if len(sv) != 1:
            return [("the table is written once with np.savetxt", z3.BoolVal(False))]
        _, fd, X, fmt, delim = sv[0]
        ok = isinstance(X, models.Arr2D) and X.transposed and len(X.rows) == 2
        posts = [("one column per requested scalar feature (sorted, no duplicates), events as rows",
                  z3.BoolVal(bool(ok))),
                 ("values are written with 11 significant digits ('%.10e') and tabs",
                  z3.BoolVal(fmt == "%.10e" and delim == "\t")),
                 ("only the requested output path is written",
                  z3.BoolVal(all(str(x[1]) == "/out/table.tsv" for x in log if x[0] in ("open", "write"))))]
        if ok:
            fi = NS({"ctx": ctx, "heap_write": lambda o: None})
            S = where_idx(fi, g.filt)
            j = z3.Int("j!p")
            for col, src, nm in ((X.rows[0], g.area, "area_um"), (X.rows[1], g.deform, "deform")):
                if self.filtered:
                    posts.append((f"column {nm} holds the feature restricted to the filter, in order",
                                  z3.And(col.n == S.n, z3.ForAll([j], z3.Implies(z3.And(j >= 0, j < S.n),
                                                                                 col.sel(j) == src.sel(S.sel(j)))))))
                else:
                    posts.append((f"column {nm} holds all events of the feature",
                                  z3.And(col.n == g.N.e, z3.ForAll([j], z3.Implies(z3.And(j >= 0, j < col.n),
                                                                                   col.sel(j) == src.sel(j))))))
        return posts


UNITS += [ExportTsv(True), ExportTsv(False)]
