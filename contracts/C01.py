"""C01 — data written through the writer API is read back exactly.

Representation invariant (file == model) per writer operation, over the
axiomatised HDF5 object model of pyvc/h5model.py:

  write_ndarray      dset.content' == dset.content ++ data   (any chunk size >= 1,
                     any number of events, scalar and n-D branch; chunk loop cut
                     by an inductive invariant)
  get_best_nd_chunks first chunk dimension is an integer >= 10, rest == item shape
  write_ragged / write_text / store_feature / rectify_metadata / readers: below
"""
import numpy as np
import z3

from pyvc import h5model, npmodel   # noqa: F401
from pyvc.contract import Contract
from pyvc.engine import LoopSpec, NS
from pyvc.h5model import new_attrs, new_dataset, new_group
from pyvc.sym import SArr, SF, SInt, SObj, F, And, Or, Implies, Not, Z, to_z3, forall_idx, wrap

WRITER = "dclab/rtdc_dataset/writer.py"
WMOD = "dclab.rtdc_dataset.writer"


class WBase(Contract):
    path = WRITER
    module = WMOD
    classes = {"RTDCWriter": (WRITER, "RTDCWriter")}
    class_modules = {"RTDCWriter": WMOD}


# ---------------------------------------------------------------- get_best_nd_chunks
class GetBestNdChunks(WBase):
    name = "RTDCWriter.get_best_nd_chunks"
    qualname = "RTDCWriter.get_best_nd_chunks"
    params = ("item_shape", "item_dtype")

    def inputs(self, ctx):
        h = ctx.int("h", lo=1, inp=True)
        w = ctx.int("w", lo=1, inp=True)
        self._shape = (h, w)
        return {"item_shape": (h, w), "item_dtype": np.uint8}

    def ensures(self, ctx, old, a, result):
        ok = isinstance(result, tuple) and len(result) == 3
        if not ok:
            return [("returns a 3-tuple for a 2-D item", z3.BoolVal(False))]
        return [("first chunk dimension is an integer >= 10",
                 z3.And(to_z3(result[0]) >= 10, z3.BoolVal(isinstance(result[0], (int, SInt))))),
                ("remaining dimensions are the item shape",
                 z3.And(to_z3(result[1]) == to_z3(self._shape[0]),
                        to_z3(result[2]) == to_z3(self._shape[1])))]

    # callee use
    def __call__(self, interp, *args, item_shape=(), item_dtype=None, **kw):
        c0 = interp.ctx.int("chunk0")
        interp.ctx.assume(c0.e >= 10)
        if args:
            item_shape = args[0]
        return (c0,) + tuple(item_shape)


# ---------------------------------------------------------------- write_ndarray (n-D)
class WriteNdarrayND(WBase):
    name = "RTDCWriter.write_ndarray[n-D]"
    qualname = "RTDCWriter.write_ndarray"
    params = ("self", "group", "name", "data", "dtype")

    def __init__(self, **kw):
        super().__init__(**kw)
        self.callees = {"RTDCWriter.get_best_nd_chunks": GetBestNdChunks()}
        self.loops = {"ii in range(num_chunks)": LoopSpec(inv=self.inv, havoc=self.loop_havoc,
                                                          modifies=lambda ctx, v: [v.dset])}

    def inputs(self, ctx):
        h = ctx.int("h", lo=1)
        w = ctx.int("w", lo=1)
        data = ctx.arr("data", "elem", inp=True, dtype=np.dtype("uint8"))
        data.item_shape = (h, w)
        exists = ctx.bool("exists", inp=True)
        old = ctx.arr("old", "elem", inp=True, dtype=np.dtype("uint8"))
        c0 = ctx.int("chunk0", lo=1, inp=True)
        dset0 = new_dataset(ctx, old, chunks=(c0, h, w), dtype=np.dtype("uint8"),
                            name="/events/image", item_shape=(h, w))
        group = new_group(ctx, maybe={"image": (exists, dset0)}, name="/events")
        self_ = ctx.obj("RTDCWriter", {"compression_kwargs": {}, "mode": "append",
                                       "_valid_counts": {}}, name="self")
        self._g = NS(dict(old=old, data=data, exists=exists, dset0=dset0))
        return {"self": self_, "group": group, "name": "image", "data": data, "dtype": None}

    def exceptional(self, ctx, old, a, exc):
        if exc.name == "ValueError":
            return self._g.data.n == 0
        return None

    def off(self):
        g = self._g
        return z3.If(to_z3(g.exists), g.old.n, Z(0))

    def loop_havoc(self, ctx, v):
        c = v.dset.fields["content"]
        nc = ctx.arr("content@L", c.kind, n=c.n, dtype=c.dtype)
        nc.item_shape = getattr(c, "item_shape", ())
        v.dset.fields["content"] = nc

    def inv(self, ctx, v):
        g = self._g
        c = v.dset.fields["content"]
        off = self.off()
        cs = to_z3(v.chunk_size)
        k = z3.Int("k!inv")
        return [("dataset has its final length", c.n == off + g.data.n),
                ("offset is the old length", to_z3(v.offset) == off),
                ("chunks written so far hold the data",
                 z3.ForAll([k], z3.Implies(z3.And(k >= 0, k < v.it * cs),
                                           c.sel(off + k) == g.data.sel(k)))),
                ("stored events are unchanged",
                 z3.ForAll([k], z3.Implies(z3.And(k >= 0, k < off), c.sel(k) == g.old.sel(k)))),
                ("chunk size positive", cs >= 1)]

    def ensures(self, ctx, old, a, result):
        g = self._g
        dset = result
        if not (isinstance(dset, SObj) and dset.clsname == "H5Dataset"):
            return [("returns the dataset", z3.BoolVal(False))]
        c = dset.fields["content"]
        off = self.off()
        k = z3.Int("k!p")
        return [("the dataset is the member `name` of the group",
                 z3.BoolVal(a.group.fields["members"].get("image") is dset
                            or a.group.fields["maybe"].get("image", (None, None))[1] is dset)),
                ("length grows by len(data)", c.n == off + g.data.n),
                ("new events are the data, in order",
                 z3.ForAll([k], z3.Implies(z3.And(k >= 0, k < g.data.n),
                                           c.sel(off + k) == g.data.sel(k)))),
                ("stored events are unchanged",
                 z3.ForAll([k], z3.Implies(z3.And(k >= 0, k < off), c.sel(k) == g.old.sel(k))))]


UNITS = [GetBestNdChunks(), WriteNdarrayND()]
TRUSTED = []
TRUSTED_BASE = [
    "h5py object model: H-CREATE, H-RESIZE, H-SLICE, H-ATTR (pyvc/h5model.py); HDF5 filters are lossless",
    "n-D events are opaque payloads (Elem): the writer code never looks inside one event",
    "induction over sequences of write calls from per-call preservation of 'file == model' (meta-rule)",
]
ASSUMPTIONS = []


# ---------------------------------------------------------------- image writers
from contracts.common_writer import WriteNdarrayCallee   # noqa: E402
from pyvc.npmodel import elem_fn   # noqa: E402


def stored_events(group, name):
    d = group.fields["members"].get(name)
    if d is None and name in group.fields["maybe"]:
        d = group.fields["maybe"][name][1]
    return d


class WriteImageGrayscale(WBase):
    """write_image_grayscale(group, name, data, is_boolean) for a stack of events:
    uint8 data are stored as they are, boolean masks as uint8 * 255, an
    H5MaskEvent source is stored as its raw uint8 dataset; the stored dataset is
    extended by exactly these events and carries the HDFView image attributes."""
    qualname = "RTDCWriter.write_image_grayscale"
    params = ("self", "group", "name", "data", "is_boolean")

    def __init__(self, variant):
        self.variant = variant
        self.name = f"RTDCWriter.write_image_grayscale[{variant}]"
        super().__init__()
        self.callees = {"RTDCWriter.write_ndarray": WriteNdarrayCallee()}

    def inputs(self, ctx):
        h, w = ctx.int("h", lo=1), ctx.int("w", lo=1)
        exists = ctx.bool("exists", inp=True)
        old = ctx.arr("old", "elem", inp=True, dtype=np.dtype("uint8"))
        dset0 = new_dataset(ctx, old, chunks=(ctx.int("c0", lo=1), h, w), dtype=np.dtype("uint8"),
                            name="/events/x", item_shape=(h, w))
        group = new_group(ctx, maybe={"x": (exists, dset0)}, name="/events")
        self_ = ctx.obj("RTDCWriter", {"compression_kwargs": {}, "mode": "append"}, name="self")
        raw = ctx.arr("data", "elem", inp=True)
        raw.item_shape = (h, w)
        if self.variant == "uint8":
            raw.dtype = np.dtype("uint8")
            data, is_bool = raw, False
            self._want = lambda e: e
        elif self.variant == "mask-bool":
            raw.dtype = np.dtype(bool)
            data, is_bool = raw, True
            self._want = lambda e: elem_fn("elem_Mult_255")(elem_fn("cast_bool_to_uint8")(e))
        else:   # H5MaskEvent source: the raw uint8 dataset is written back
            raw.dtype = np.dtype("uint8")
            src = new_dataset(ctx, raw, dtype=np.dtype("uint8"), name="/events/mask",
                              item_shape=(h, w))
            data = ctx.obj("H5MaskEvent", {"h5dataset": src, "shape": (wrap(raw.n), h, w),
                                           "dtype": np.dtype(bool)})
            is_bool = True
            self._want = lambda e: e
        self._g = NS(dict(old=old, raw=raw, exists=exists))
        return {"self": self_, "group": group, "name": "x", "data": data, "is_boolean": is_bool}

    def exceptional(self, ctx, old, a, exc):
        if exc.name == "ValueError":
            return self._g.raw.n == 0
        return None

    def ensures(self, ctx, old, a, result):
        g = self._g
        dset = stored_events(a.group, "x")
        if dset is None:
            return [("dataset exists", z3.BoolVal(False))]
        c = dset.fields["content"]
        off = z3.If(to_z3(g.exists), g.old.n, Z(0))
        k = z3.Int("k!p")
        at = dset.fields["attrs"].fields["d"]
        return [("length grows by the number of events", c.n == off + g.raw.n),
                ("new events are the (converted) data, in order",
                 z3.ForAll([k], z3.Implies(z3.And(k >= 0, k < g.raw.n),
                                           c.sel(off + k) == self._want(g.raw.sel(k))))),
                ("stored events are unchanged",
                 z3.ForAll([k], z3.Implies(z3.And(k >= 0, k < off), c.sel(k) == g.old.sel(k)))),
                ("image attributes for HDFView are set",
                 z3.BoolVal(all(x in at for x in ("CLASS", "IMAGE_VERSION", "IMAGE_SUBCLASS"))))]


UNITS += [WriteImageGrayscale(v) for v in ("uint8", "mask-bool", "mask-h5")]


# ---------------------------------------------------------------- store_feature
def same_dataset_state(ds_now, ds_old):
    """a dataset object is untouched: same content term, same attributes"""
    c1, c0 = ds_now.fields["content"], ds_old.fields["content"]
    return (c1.a.get_id() == c0.a.get_id() and z3.simplify(c1.n).get_id() == z3.simplify(c0.n).get_id()
            and ds_now.fields["attrs"].fields["d"] == ds_old.fields["attrs"].fields["d"])


class StoreFeature(WBase):
    """store_feature(feat, data): the dataset of `feat` grows by exactly the given
    events (replace mode: holds exactly the given events); `index` is enumerated
    by the writer (1..N continues the stored index); nothing else in the events
    group changes."""
    qualname = "RTDCWriter.store_feature"
    params = ("self", "feat", "data", "shape")
    native = {"feature_exists", "scalar_feature_exists"}

    def __init__(self, feat, mode="append"):
        self.feat, self.mode = feat, mode
        self.name = f"RTDCWriter.store_feature[{feat},{mode}]"
        super().__init__()
        wn = WriteNdarrayCallee()
        self.callees = {"RTDCWriter.write_ndarray": wn}
        self.inline = {"RTDCWriter.write_image_grayscale", "RTDCWriter.write_image_float32"}

    def inputs(self, ctx):
        feat = self.feat
        exists = ctx.bool("exists", inp=True)
        other = new_dataset(ctx, ctx.arr("other", "F"), name="/events/other_feature")
        members = {"area_um": other}
        h, w = ctx.int("h", lo=1), ctx.int("w", lo=1)
        if feat in ("deform", "frame", "index"):
            kind = "F" if feat == "deform" else "int"
            old = ctx.arr("old", kind, inp=True)
            data = ctx.arr("data", kind if feat != "index" else "F", inp=True)
            data.item_shape = ()
            data.dtype = np.dtype("float64") if kind == "F" else np.dtype("int64")
            ishape = ()
        else:
            old = ctx.arr("old", "elem", inp=True, dtype=np.dtype("uint8"))
            data = ctx.arr("data", "elem", inp=True, dtype=np.dtype("uint8"))
            ishape = (h, w)
            data.item_shape = ishape
            if feat == "mask":
                data.dtype = np.dtype(bool)
            if feat == "qpi_pha":
                data.dtype = np.dtype("float64")
                old.dtype = np.dtype("float32")
        dset0 = new_dataset(ctx, old, chunks=(ctx.int("c0", lo=1),) + ishape, name=f"/events/{feat}",
                            item_shape=ishape, dtype=old.dtype)
        events = new_group(ctx, members=members, maybe={feat: (exists, dset0)}, name="/events")
        h5 = new_group(ctx, members={"events": events}, name="/")
        self_ = ctx.obj("RTDCWriter", {"compression_kwargs": {}, "mode": self.mode, "h5file": h5},
                        name="self")
        self._g = NS(dict(old=old, data=data, exists=exists, other=other, events=events,
                          other_snapshot=None))
        return {"self": self_, "feat": feat, "data": data, "shape": None}

    def requires(self, ctx, a):
        g = self._g
        reqs = [("an existing dataset is not empty", g.old.n >= 1)]
        if self.feat == "index":
            k = z3.Int("k!ri")
            reqs.append(("stored index enumerates 1..len",
                         z3.ForAll([k], z3.Implies(z3.And(k >= 0, k < g.old.n), g.old.sel(k) == k + 1))))
        return reqs

    def exceptional(self, ctx, old, a, exc):
        if exc.name == "ValueError":
            return self._g.data.n == 0
        return None

    def want(self, k):
        g = self._g
        e = g.data.sel(k)
        if self.feat == "mask":
            return elem_fn("elem_Mult_255")(elem_fn("cast_bool_to_uint8")(e))
        return e

    def ensures(self, ctx, old, a, result):
        g = self._g
        ev = a.self.fields["h5file"].fields["members"]["events"]
        dset = stored_events(ev, self.feat)
        if dset is None:
            return [("dataset exists", z3.BoolVal(False))]
        c = dset.fields["content"]
        keep_old = self.mode == "append"
        off = z3.If(to_z3(g.exists), g.old.n, Z(0)) if keep_old else Z(0)
        k = z3.Int("k!p")
        posts = [("length is old length + number of given events" if keep_old else
                  "length is the number of given events", c.n == off + g.data.n)]
        if self.feat == "index":
            posts.append(("index enumerates 1..N",
                          z3.ForAll([k], z3.Implies(z3.And(k >= 0, k < c.n), c.sel(k) == k + 1))))
        else:
            posts.append(("new events are the given data, in order",
                          z3.ForAll([k], z3.Implies(z3.And(k >= 0, k < g.data.n),
                                                    c.sel(off + k) == self.want(k)))))
            if keep_old:
                posts.append(("stored events are unchanged",
                              z3.ForAll([k], z3.Implies(z3.And(k >= 0, k < off),
                                                        c.sel(k) == g.old.sel(k)))))
        posts.append(("no other feature is touched",
                      z3.BoolVal(set(ev.fields["members"]) | set(ev.fields["maybe"]) == {"area_um", self.feat}
                                 and ev.fields["members"].get("area_um") is g.other
                                 and same_dataset_state(g.other, old.self.fields["h5file"].fields["members"]["events"].fields["members"]["area_um"]))))
        return posts


for _feat in ("deform", "frame", "index", "image", "mask", "qpi_pha"):
    for _mode in ("append", "replace"):
        UNITS.append(StoreFeature(_feat, _mode))


class StoreFeatureTrace(WBase):
    """store_feature("trace", {name: stack}): each named trace grows by (replace
    mode: is replaced by) the given events; traces that are not named stay."""
    qualname = "RTDCWriter.store_feature"
    params = ("self", "feat", "data", "shape")
    native = {"feature_exists", "scalar_feature_exists"}

    def __init__(self, mode="append"):
        self.mode = mode
        self.name = f"RTDCWriter.store_feature[trace,{mode}]"
        super().__init__()
        self.callees = {"RTDCWriter.write_ndarray": WriteNdarrayCallee()}

    def inputs(self, ctx):
        S = ctx.int("samples", lo=1)
        mk = lambda nm: ctx.arr(nm, "elem", inp=True, dtype=np.dtype("int16"))   # noqa
        olds = {t: mk("old_" + t) for t in ("fl1_raw", "fl2_raw", "fl3_raw")}
        datas = {t: mk("data_" + t) for t in ("fl1_raw", "fl2_raw")}
        for x in list(olds.values()) + list(datas.values()):
            x.item_shape = (S,)
        has = {t: ctx.bool("has_" + t, inp=True) for t in olds}
        dsets = {t: new_dataset(ctx, olds[t], chunks=(ctx.int("c_" + t, lo=1), S),
                                name=f"/events/trace/{t}", item_shape=(S,), dtype=np.dtype("int16"))
                 for t in olds}
        trace = new_group(ctx, maybe={t: (has[t], dsets[t]) for t in olds}, name="/events/trace")
        has_trace = ctx.bool("has_trace", inp=True)
        events = new_group(ctx, maybe={"trace": (has_trace, trace)}, name="/events")
        h5 = new_group(ctx, members={"events": events}, name="/")
        self_ = ctx.obj("RTDCWriter", {"compression_kwargs": {}, "mode": self.mode, "h5file": h5},
                        name="self")
        self._g = NS(dict(olds=olds, datas=datas, has=has, has_trace=has_trace, dsets=dsets))
        return {"self": self_, "feat": "trace", "data": dict(datas), "shape": None}

    def requires(self, ctx, a):
        g = self._g
        return [("stored traces are not empty", z3.And(*[o.n >= 1 for o in g.olds.values()]))]

    def exceptional(self, ctx, old, a, exc):
        if exc.name == "ValueError":
            return z3.Or(*[d.n == 0 for d in self._g.datas.values()])
        return None

    def ensures(self, ctx, old, a, result):
        g = self._g
        ev = a.self.fields["h5file"].fields["members"]["events"]
        tr = stored_events(ev, "trace")
        if tr is None:
            return [("trace group exists", z3.BoolVal(False))]
        posts = []
        k = z3.Int("k!p")
        for t, data in g.datas.items():
            ds = stored_events(tr, t)
            if ds is None:
                posts.append((f"trace {t} exists", z3.BoolVal(False)))
                continue
            c = ds.fields["content"]
            existed = z3.And(to_z3(g.has_trace), to_z3(g.has[t]))
            off = z3.If(existed, g.olds[t].n, Z(0)) if self.mode == "append" else Z(0)
            posts.append((f"{t}: length", c.n == off + data.n))
            posts.append((f"{t}: new events are the given data, in order",
                          z3.ForAll([k], z3.Implies(z3.And(k >= 0, k < data.n),
                                                    c.sel(off + k) == data.sel(k)))))
            if self.mode == "append":
                posts.append((f"{t}: stored events are unchanged",
                              z3.ForAll([k], z3.Implies(z3.And(k >= 0, k < off),
                                                        c.sel(k) == g.olds[t].sel(k)))))
        # the trace that was not named is untouched (if it was there, it is still there)
        m = tr.fields["maybe"].get("fl3_raw")
        posts.append(("a trace that is not named stays in the file, unchanged",
                      z3.Or(z3.Not(to_z3(g.has_trace)),
                            z3.BoolVal(m is not None and m[1] is g.dsets["fl3_raw"]
                                       and m[0] is g.has["fl3_raw"]
                                       and g.dsets["fl3_raw"].fields["content"] is g.olds["fl3_raw"]))))
        return posts


UNITS += [StoreFeatureTrace("append"), StoreFeatureTrace("replace")]


# ---------------------------------------------------------------- write_text (logs)
from pyvc import models as _m   # noqa: E402


def seq_len(x):
    return Z(len(x)) if isinstance(x, list) else x.n


class WriteText(WBase):
    """write_text(group, name, lines): the log dataset grows by (replace mode:
    consists of) exactly the UTF-8 encodings of the given lines, unchanged and in
    order -- for every line length (fixed-length string storage must be wide
    enough for every line ever stored)."""
    qualname = "RTDCWriter.write_text"
    params = ("self", "group", "name", "lines")

    def __init__(self, mode="append"):
        self.mode = mode
        self.name = f"RTDCWriter.write_text[{mode}]"
        super().__init__()
        self.loops = {
            "line in lines": LoopSpec(inv=self.inv0, kinds={"lines_as_bytes": self.fresh_lab}),
            "(ii, lbytes) in enumerate(lines_as_bytes)":
                LoopSpec(inv=self.inv1, havoc=self.havoc1, modifies=lambda ctx, v: [v.txt_dset]),
        }

    def fresh_lab(self, ctx):
        lab = ctx.arr("lines_as_bytes", "elem")
        lab.is_list = True
        lab.elem_pytype = bytes
        return lab

    def inputs(self, ctx):
        lines = ctx.arr("lines", "elem", inp=True)
        lines.is_list = True
        lines.elem_pytype = str
        exists = ctx.bool("exists", inp=True)
        old = ctx.arr("old", "elem", inp=True)
        old.elem_pytype = bytes
        w0 = ctx.int("old_width", lo=1, inp=True)
        dset0 = new_dataset(ctx, old, chunks=True, name="/logs/log",
                            dtype=h5model.str_dtype(ctx, w0))
        dset0.fields["strwidth"] = w0
        group = new_group(ctx, maybe={"log": (exists, dset0)}, name="/logs")
        self_ = ctx.obj("RTDCWriter", {"compression_kwargs": {}, "mode": self.mode}, name="self")
        self._g = NS(dict(lines=lines, exists=exists, old=old, w0=w0, dset0=dset0))
        return {"self": self_, "group": group, "name": "log", "lines": lines}

    def requires(self, ctx, a):
        g = self._g
        k = z3.Int("k!rq")
        return [("stored lines fit the stored width",
                 z3.ForAll([k], z3.Implies(z3.And(k >= 0, k < g.old.n),
                                           _m.blen(g.old.sel(k)) <= g.w0.e)))]

    def off(self):
        g = self._g
        if self.mode == "replace":
            return Z(0)
        return z3.If(to_z3(g.exists), g.old.n, Z(0))

    def inv0(self, ctx, v):
        g = self._g
        lab = v.lines_as_bytes
        j = z3.Int("j!i0")
        ml = to_z3(v.max_length)
        if isinstance(lab, list):
            lab_ok = z3.BoolVal(len(lab) == 0)
        else:
            lab_ok = z3.And(lab.n == v.it,
                            z3.ForAll([j], z3.Implies(z3.And(j >= 0, j < v.it),
                                                      lab.sel(j) == _m.utf8(g.lines.sel(j)))))
        return [("lines_as_bytes holds the encodings of the lines visited", lab_ok),
                ("max_length bounds every encoded line so far (and is >= 100)",
                 z3.And(ml >= 100,
                        z3.ForAll([j], z3.Implies(z3.And(j >= 0, j < v.it),
                                                  _m.blen(_m.utf8(g.lines.sel(j))) <= ml)))),
                ("lines is not reassigned", z3.BoolVal(v.lines is g.lines))]

    def havoc1(self, ctx, v):
        d = v.txt_dset
        c = d.fields["content"]
        nc = ctx.arr("content@L1", "elem", n=c.n)
        nc.elem_pytype = bytes
        d.fields["content"] = nc

    def inv1(self, ctx, v):
        g = self._g
        d = v.txt_dset
        c = d.fields["content"]
        lab = v.lines_as_bytes
        j = z3.Int("j!i1")
        off = self.off()
        return [("dataset has its final length", c.n == off + g.lines.n),
                ("line_offset is the old length", to_z3(v.line_offset) == off),
                ("lines written so far are the encodings, untruncated",
                 z3.ForAll([j], z3.Implies(z3.And(j >= 0, j < v.it),
                                           c.sel(off + j) == _m.utf8(g.lines.sel(j))))),
                ("stored lines are unchanged",
                 z3.ForAll([j], z3.Implies(z3.And(j >= 0, j < off), c.sel(j) == g.old.sel(j))))]

    def ensures(self, ctx, old, a, result):
        g = self._g
        d = stored_events(a.group, "log")
        if d is None:
            return [("log dataset exists", z3.BoolVal(False))]
        c = d.fields["content"]
        off = self.off()
        j = z3.Int("j!p")
        return [("number of stored lines", c.n == off + g.lines.n),
                ("every given line is stored exactly (UTF-8), in order",
                 z3.ForAll([j], z3.Implies(z3.And(j >= 0, j < g.lines.n),
                                           c.sel(off + j) == _m.utf8(g.lines.sel(j))))),
                ("stored lines are unchanged",
                 z3.ForAll([j], z3.Implies(z3.And(j >= 0, j < off), c.sel(j) == g.old.sel(j))))]


UNITS += [WriteText("append"), WriteText("replace")]


# ---------------------------------------------------------------- replay on the real code
def _mk_line(chars, nbytes):
    """a str with `chars` characters whose UTF-8 encoding has `nbytes` bytes (if possible)"""
    chars, nbytes = max(int(chars), 0), max(int(nbytes), 0)
    if chars == 0:
        return ""
    extra = min(max(nbytes - chars, 0), 3 * chars)
    out = []
    for i in range(chars):
        add = min(extra, 3)
        extra -= add
        out.append(["a", "ä", "€", "\U0001F600"][add])
    return "".join(out)


def replay(unit_name, inp, obligation=""):
    import pathlib, tempfile, warnings
    import h5py
    import numpy as np
    from dclab.rtdc_dataset.writer import RTDCWriter
    with tempfile.TemporaryDirectory(prefix="c01_") as td, warnings.catch_warnings():
        warnings.simplefilter("ignore")
        path = pathlib.Path(td) / "t.rtdc"
        if unit_name.startswith("RTDCWriter.write_text"):
            mode = "replace" if "replace" in unit_name else "append"
            old = inp.get("old_lines", ["x" * 5])
            new = inp.get("new_lines")
            if new is None:
                new = [_mk_line(c, b) for c, b in inp.get("new_line_sizes", [(120, 240)])]
            if inp.get("exists", True):
                with RTDCWriter(path) as hw:
                    hw.store_log("log", old)
            with RTDCWriter(path, mode=mode) as hw:
                hw.store_log("log", new)
            with h5py.File(path) as h5:
                got = [x.decode("utf-8", errors="replace") for x in h5["logs/log"][:]]
            want = (old if (inp.get("exists", True) and mode == "append") else []) + list(new)
            if got != want:
                bad = [i for i, (x, y) in enumerate(zip(got, want)) if x != y]
                return {"failed": True, "detail": f"log read back differs at line(s) {bad[:3]}: stored "
                                                  f"{len(got[bad[0]].encode()) if bad else '?'} bytes of a "
                                                  f"{len(want[bad[0]].encode()) if bad else '?'}-byte line "
                                                  f"(old lines {[len(x.encode()) for x in old]} bytes, new "
                                                  f"{[len(x.encode()) for x in new]} bytes, mode {mode})"}
            return {"failed": False, "detail": "log lines read back exactly"}
        if unit_name.startswith("RTDCWriter.write_ndarray[n-D]") or unit_name.startswith("RTDCWriter.store_feature[image"):
            if "data" in inp:      # counterexample of the verifier: lengths of the symbolic arrays
                inp = dict(inp, n_new=len(inp["data"]),
                           n_old=len(inp.get("old", [])) if inp.get("exists") else 0)
            n_old, n_new, c0 = int(inp.get("n_old", 0)), int(inp.get("n_new", 1)), int(inp.get("chunk0", 3))
            if n_new < 1 or c0 < 1:
                return {"failed": False, "detail": "witness outside the precondition"}
            rng = np.random.RandomState(3)
            old = rng.randint(1, 255, size=(n_old, 4, 5)).astype(np.uint8)
            new = rng.randint(1, 255, size=(n_new, 4, 5)).astype(np.uint8)
            with h5py.File(path, "w") as h5:
                if n_old:
                    h5.require_group("events").create_dataset("image", data=old, maxshape=(None, 4, 5),
                                                              chunks=(c0, 4, 5))
            hw = RTDCWriter(path, mode="append")
            try:
                hw.write_ndarray(hw.h5file.require_group("events"), "image", new)
            finally:
                hw.h5file.close()
            with h5py.File(path) as h5:
                got = h5["events/image"][:]
            want = np.concatenate([old, new]) if n_old else new
            if got.shape != want.shape or not np.array_equal(got, want):
                nbad = int(np.sum(np.any(got.reshape(len(got), -1) != want.reshape(len(want), -1), axis=1))) \
                    if got.shape == want.shape else -1
                return {"failed": True, "detail": f"{nbad} of {len(want)} stored events differ after appending "
                                                  f"{n_new} events to {n_old} (chunk size {c0})"}
            return {"failed": False, "detail": "events read back exactly"}
    return {"failed": None, "detail": "no replay for " + unit_name}


def bounded_inputs(unit_name, rng):
    if unit_name.startswith("RTDCWriter.write_text"):
        for sizes in ([(120, 240)], [(10, 10), (101, 101)], [(60, 180)], [(100, 100)], [(50, 200), (1, 1)]):
            for old in (["x" * 5], ["y" * 100, "z"], ["ä" * 80]):
                yield {"exists": True, "old_lines": old, "new_line_sizes": sizes}
            yield {"exists": False, "new_line_sizes": sizes}
    elif "write_ndarray[n-D]" in unit_name or "store_feature[image" in unit_name:
        for c0 in (1, 2, 3, 5):
            for n_old in (0, 1, 2, 3, 4, 7):
                for n_new in (1, 2, 3, 4, 5, 11):
                    yield {"n_old": n_old, "n_new": n_new, "chunk0": c0}


# ---------------------------------------------------------------- write_ragged (contour)
from pyvc.h5model import new_numbered_group   # noqa: E402


def ginv(grp, size, tag=""):
    """members of a ragged group are named "0" .. str(size-1)"""
    k = z3.Int("k!gi" + tag)
    return z3.ForAll([k], z3.Select(grp.fields["num_dom"], k) == z3.And(k >= 0, k < size))


class WriteRagged(WBase):
    """write_ragged(group, name, data): the entries of `data` become the datasets
    named str(n), str(n+1), ... continuing the numbering of the group (also for a
    fresh writer on an existing file); existing entries are untouched; the
    writer's cached group size equals the real size."""
    qualname = "RTDCWriter.write_ragged"
    params = ("self", "group", "name", "data")

    def __init__(self, cached):
        self.cached = cached
        self.name = f"RTDCWriter.write_ragged[{'cached size' if cached else 'fresh writer'}]"
        super().__init__()
        self.loops = {"(ii, cc) in enumerate(data)":
                      LoopSpec(inv=self.inv, havoc=self.loop_havoc,
                               modifies=lambda ctx, v: [v.grp, v.self.fields["_group_sizes"]])}

    def inputs(self, ctx):
        data = ctx.arr("data", "elem", inp=True)
        data.is_list = True
        data.elem_pytype = np.ndarray
        data.item_shape = ("npoints", 2)
        size0 = ctx.int("size0", lo=0, inp=True)
        grp = new_numbered_group(ctx, name="/events/contour", size=size0)
        events = new_group(ctx, members={"contour": grp}, name="/events")
        sizes = {grp: size0} if self.cached else {}
        self_ = ctx.obj("RTDCWriter", {"compression_kwargs": {}, "mode": "append",
                                       "_group_sizes": sizes}, name="self")
        self._g = NS(dict(data=data, size0=size0, grp=grp, val0=grp.fields["num_val"]))
        return {"self": self_, "group": events, "name": "contour", "data": data}

    def requires(self, ctx, a):
        g = self._g
        return [("GInv: members are named 0..size-1", ginv(g.grp, g.size0.e, "r"))]

    def loop_havoc(self, ctx, v):
        grp = v.grp
        nm = ctx._name("numgrp@L")
        grp.fields["num_dom"] = z3.Array(nm + ".dom", z3.IntSort(), z3.BoolSort())
        grp.fields["num_val"] = z3.Array(nm + ".val", z3.IntSort(), _m._Elem)
        grp.fields["_len"] = ctx.int(nm + ".size")
        v.self.fields["_group_sizes"][grp] = ctx.int("cached_size@L")

    def state(self, grp, self_, n, tag):
        g = self._g
        k = z3.Int("k!st" + tag)
        s0 = g.size0.e
        cached = self_.fields["_group_sizes"].get(grp)
        return [("group size", to_z3(grp.fields["_len"]) == s0 + n),
                ("GInv: members are named 0..size-1", ginv(grp, s0 + n, tag)),
                ("existing entries are untouched",
                 z3.ForAll([k], z3.Implies(z3.And(k >= 0, k < s0),
                                           z3.Select(grp.fields["num_val"], k) == z3.Select(g.val0, k)))),
                ("new entries are the given data, in order",
                 z3.ForAll([k], z3.Implies(z3.And(k >= 0, k < n),
                                           z3.Select(grp.fields["num_val"], s0 + k) == g.data.sel(k)))),
                ("cached group size equals the real size",
                 z3.BoolVal(False) if cached is None else to_z3(cached) == s0 + n)]

    def inv(self, ctx, v):
        return self.state(v.grp, v.self, v.it, "i") + [("curid is the old size",
                                                        to_z3(v.curid) == self._g.size0.e)]

    def ensures(self, ctx, old, a, result):
        g = self._g
        return self.state(g.grp, a.self, g.data.n, "e")


UNITS += [WriteRagged(True), WriteRagged(False)]


# ---------------------------------------------------------------- readers
H5EV = "dclab/rtdc_dataset/fmt_hdf5/events.py"
H5EVMOD = "dclab.rtdc_dataset.fmt_hdf5.events"


class ContourGetitem(Contract):
    """H5ContourEvent[i] for an integer i (negative from the end) returns entry
    str(i) of the group, i.e. the i-th contour written."""
    path = H5EV
    module = H5EVMOD
    name = "H5ContourEvent.__getitem__[int]"
    qualname = "H5ContourEvent.__getitem__"
    classes = {"H5ContourEvent": (H5EV, "H5ContourEvent")}
    class_modules = {"H5ContourEvent": H5EVMOD}
    inline = {"H5ContourEvent.__len__", "H5ContourEvent.__getitem__"}
    params = ("self", "key")

    def inputs(self, ctx):
        size = ctx.int("size", lo=0, inp=True)
        grp = new_numbered_group(ctx, name="/events/contour", size=size)
        key = ctx.int("key", inp=True)
        self_ = ctx.obj("H5ContourEvent", {"h5group": grp, "_length": None}, name="self")
        self._g = NS(dict(grp=grp, size=size, key=key, val=grp.fields["num_val"]))
        return {"self": self_, "key": key}

    def requires(self, ctx, a):
        g = self._g
        return [("GInv", ginv(g.grp, g.size.e, "r")),
                ("key >= -len (indices further out are outside the contract)", g.key.e >= -g.size.e)]

    def exceptional(self, ctx, old, a, exc):
        g = self._g
        if exc.name == "KeyError":
            return g.key.e >= g.size.e
        return None

    def ensures(self, ctx, old, a, result):
        g = self._g
        from pyvc.sym import SOpaque
        if not isinstance(result, SOpaque):
            return [("returns one contour", z3.BoolVal(False))]
        idx = z3.If(g.key.e < 0, g.key.e + g.size.e, g.key.e)
        return [("returns the contour stored at position key",
                 result.e == z3.Select(g.val, idx)),
                ("key within range", z3.And(idx >= 0, idx < g.size.e))]


UNITS += [ContourGetitem()]


# ---------------------------------------------------------------- rectify_metadata
class RectifyMetadata(WBase):
    """rectify_metadata: the stored event count is the length of the stored
    features, roi size is the image (else mask) shape, samples per event the
    trace width, the channel count is completed (never overwritten)."""
    name = "RTDCWriter.rectify_metadata"
    qualname = "RTDCWriter.rectify_metadata"
    params = ("self",)

    def __init__(self, certain="deform"):
        # the feature that is certainly stored: "deform" sorts before every optional one, "volume" after "trace"
        # (the trace group is then the first entry of the events group)
        self.certain = certain
        super().__init__()
        self.name = f"RTDCWriter.rectify_metadata[{certain} stored]"

    def inputs(self, ctx):
        N = ctx.int("N", lo=1, inp=True)
        h, w, S = ctx.int("h", lo=1), ctx.int("w", lo=1), ctx.int("S", lo=1)
        mk = lambda kind, nm, ish=(): new_dataset(ctx, ctx.arr(nm, kind, n=N.e), name="/events/" + nm,   # noqa
                                                  item_shape=ish)
        flags = {k: ctx.bool("has_" + k, inp=True) for k in
                 ("image", "mask", "trace", "fl1_max", "fl2_max", "fl3_max")}
        tr = new_group(ctx, members={"fl1_raw": mk("elem", "fl1_raw", (S,))}, name="/events/trace")
        maybe = {"image": (flags["image"], mk("elem", "image", (h, w))),
                 "mask": (flags["mask"], mk("elem", "mask", (h, w))),
                 "trace": (flags["trace"], tr)}
        for c in ("fl1_max", "fl2_max", "fl3_max"):
            maybe[c] = (flags[c], mk("F", c))
        events = new_group(ctx, members={self.certain: mk("F", self.certain)}, maybe=maybe, name="/events")
        has_cc = ctx.bool("has_channel_count", inp=True)
        cc0 = ctx.int("channel_count0")
        attrs = new_attrs(ctx, d={"experiment:event count": ctx.int("stale_count")},
                          maybe={"fluorescence:channel count": (has_cc, cc0)})
        h5 = new_group(ctx, members={"events": events}, name="/", attrs=attrs)
        self_ = ctx.obj("RTDCWriter", {"h5file": h5, "path": "t.rtdc"}, name="self")
        self._g = NS(dict(N=N, h=h, w=w, S=S, flags=flags, has_cc=has_cc, cc0=cc0))
        return {"self": self_}

    def ensures(self, ctx, old, a, result):
        g = self._g
        d = a.self.fields["h5file"].fields["attrs"].fields["d"]
        fl = {k: to_z3(v) for k, v in g.flags.items()}
        posts = [("event count == number of stored events (all features have N events)",
                  z3.BoolVal("experiment:event count" in d) if "experiment:event count" not in d
                  else to_z3(d["experiment:event count"]) == g.N.e)]

        def attr_is(key, val, cond):
            if key in d:
                return z3.Implies(cond, to_z3(d[key]) == to_z3(val))
            return z3.Not(cond)
        img_or_mask = z3.Or(fl["image"], fl["mask"])
        posts += [("roi size x is the image width", attr_is("imaging:roi size x", g.w, img_or_mask)),
                  ("roi size y is the image height", attr_is("imaging:roi size y", g.h, img_or_mask)),
                  ("samples per event is the trace width",
                   attr_is("fluorescence:samples per event", g.S, fl["trace"]))]
        cnt = sum([z3.If(fl[c], 1, 0) for c in ("fl1_max", "fl2_max", "fl3_max")])
        key = "fluorescence:channel count"
        mb = a.self.fields["h5file"].fields["attrs"].fields["maybe"]
        if key in d:
            posts.append(("channel count completed from the fl*_max features, never overwritten",
                          z3.And(z3.Not(to_z3(g.has_cc)), to_z3(d[key]) == cnt, cnt > 0)))
        else:
            posts.append(("channel count left as it was",
                          z3.Or(to_z3(g.has_cc), cnt == 0) if key in mb else cnt == 0))
        return posts


UNITS += [RectifyMetadata(), RectifyMetadata("volume")]


class MaskGetitem(Contract):
    """H5MaskEvent[i] is the stored uint8 event i converted to bool."""
    path = H5EV
    module = H5EVMOD
    name = "H5MaskEvent.__getitem__"
    qualname = "H5MaskEvent.__getitem__"
    classes = {"H5MaskEvent": (H5EV, "H5MaskEvent")}
    class_modules = {"H5MaskEvent": H5EVMOD}
    params = ("self", "idx")

    def inputs(self, ctx):
        h, w = ctx.int("h", lo=1), ctx.int("w", lo=1)
        c = ctx.arr("stored", "elem", inp=True, dtype=np.dtype("uint8"))
        ds = new_dataset(ctx, c, dtype=np.dtype("uint8"), name="/events/mask", item_shape=(h, w))
        idx = ctx.int("idx", inp=True)
        self._g = NS(dict(c=c, idx=idx))
        return {"self": ctx.obj("H5MaskEvent", {"h5dataset": ds}, name="self"), "idx": idx}

    def requires(self, ctx, a):
        return [("0 <= idx < len", z3.And(self._g.idx.e >= 0, self._g.idx.e < self._g.c.n))]

    def ensures(self, ctx, old, a, result):
        from pyvc.sym import SOpaque
        g = self._g
        if not isinstance(result, SOpaque):
            return [("returns one event", z3.BoolVal(False))]
        return [("stored event idx, cast to bool",
                 result.e == elem_fn("cast_uint8_to_bool")(g.c.sel(g.idx.e)))]


class ScalarGetitem(Contract):
    """H5ScalarEvent[i] / [a:b] read the dataset's values at those positions
    (through the cached array, which equals the dataset's content)."""
    path = H5EV
    module = H5EVMOD
    qualname = "H5ScalarEvent.__getitem__"
    classes = {"H5ScalarEvent": (H5EV, "H5ScalarEvent")}
    class_modules = {"H5ScalarEvent": H5EVMOD}
    inline = {"H5ScalarEvent.__array__"}
    params = ("self", "idx")

    def __init__(self, variant):
        self.variant = variant
        self.name = f"H5ScalarEvent.__getitem__[{variant}]"
        super().__init__()

    def inputs(self, ctx):
        c = ctx.arr("stored", "F", inp=True, dtype=np.dtype("float64"))
        c.item_shape = ()
        ds = new_dataset(ctx, c, dtype=np.dtype("float64"), name="/events/deform")
        cached = None
        if ctx.decide(ctx.bool("array_cached", inp=True)):
            cached = SArr(c.n, c.a, "F", dtype=c.dtype)     # invariant: _array == content
            cached.item_shape = ()
        self_ = ctx.obj("H5ScalarEvent", {"h5ds": ds, "_array": cached, "_ufunc_attrs": {},
                                          "ndim": 1}, name="self")
        if self.variant == "int":
            idx = ctx.int("idx", inp=True)
            ctx.assume(z3.And(idx.e >= 0, idx.e < c.n))
        else:
            lo, hi = ctx.int("lo", inp=True), ctx.int("hi", inp=True)
            ctx.assume(z3.And(0 <= lo.e, lo.e <= hi.e, hi.e <= c.n))
            idx = slice(lo, hi)
        self._g = NS(dict(c=c, idx=idx))
        return {"self": self_, "idx": idx}

    def ensures(self, ctx, old, a, result):
        g = self._g
        if self.variant == "int":
            return [("value at idx", to_z3(result) == g.c.sel(g.idx.e))]
        if not isinstance(result, SArr):
            return [("returns an array", z3.BoolVal(False))]
        lo, hi = g.idx.start.e, g.idx.stop.e
        k = z3.Int("k!p")
        return [("length of the slice", result.n == hi - lo),
                ("values of the slice", z3.ForAll([k], z3.Implies(z3.And(k >= 0, k < hi - lo),
                                                                  result.sel(k) == g.c.sel(lo + k))))]


UNITS += [MaskGetitem(), ScalarGetitem("int"), ScalarGetitem("slice")]


def extra_checks(run):
    """round-trip lemma for masks: what store_feature("mask", bool stack) stores,
    read through H5MaskEvent, is the original event (N-MASK-ROUNDTRIP axiom:
    bool -> uint8 * 255 -> bool is the identity on boolean arrays)."""
    from pyvc.sym import Elem
    e = z3.Const("e", Elem)
    stored = elem_fn("elem_Mult_255")(elem_fn("cast_bool_to_uint8")(e))
    axiom = z3.ForAll([e], elem_fn("cast_uint8_to_bool")(
        elem_fn("elem_Mult_255")(elem_fn("cast_bool_to_uint8")(e))) == e)
    s = z3.Solver()
    s.add(axiom)
    s.add(z3.Not(elem_fn("cast_uint8_to_bool")(stored) == e))
    r = s.check()
    run.n_ob += 1
    run.n_dis += 1 if r == z3.unsat else 0
    if r != z3.unsat:
        run.undecided.append("mask round-trip lemma: " + str(r))
    run.extra.setdefault("lemmas", []).append(
        {"lemma": "mask round trip (store_feature post o H5MaskEvent.__getitem__ post == identity, "
                  "under axiom N-MASK-ROUNDTRIP)", "verdict": str(r)})
