"""C09 — split partitions, join concatenates."""
import numpy as np
import z3

from pyvc import h5model, npmodel, models   # noqa: F401
from pyvc.contract import Contract
from pyvc.engine import LoopSpec, NS
from pyvc.npmodel import elem_fn, np_all
from pyvc.sym import SArr, SObj, SOpaque, And, Or, Not, Implies, Z, to_z3, wrap

COMMON = "dclab/cli/common.py"
SPLIT = "dclab/cli/task_split.py"
JOIN = "dclab/cli/task_join.py"


# ---------------------------------------------------------------- dataset stand-in
class DsContains(Contract):
    name = "DS.__contains__"
    trusted = True

    def __call__(self, interp, ds, feat):
        return ds.fields["_has"].get(feat, False)


class DsGetitem(Contract):
    name = "DS.__getitem__"
    trusted = True

    def __call__(self, interp, ds, feat):
        return ds.fields["_feats"][feat]


class DsLen(Contract):
    name = "DS.__len__"
    trusted = True

    def __call__(self, interp, ds):
        return ds.fields["_N"]


class DsApplyFilter(Contract):
    """apply_filter recomputes filter.all from the settings (C03); it does not
    write filter.manual."""
    name = "DS.apply_filter"
    trusted = True

    def __call__(self, interp, ds, *a, **k):
        ds.fields["_applied"] = SArr(ds.fields["filter"].fields["manual"].n,
                                     ds.fields["filter"].fields["manual"].a, "bool")
        return None


def mk_ds(ctx, with_flags=True):
    N = ctx.int("N", lo=1, inp=True)
    h, w = ctx.int("h", lo=1), ctx.int("w", lo=1)
    image = ctx.arr("image", "elem", n=N.e, dtype=np.dtype("uint8"))
    image.item_shape = (h, w)
    contour = ctx.arr("contour", "elem", n=N.e)
    contour.item_shape = ("npoints", 2)
    manual = ctx.arr("manual", "bool", n=N.e, inp=True)
    has_image = ctx.bool("has_image", inp=True)
    has_contour = ctx.bool("has_contour", inp=True)
    flt = ctx.obj("Filter", {"manual": manual})
    ds = ctx.obj("DS", {"_N": N, "_has": {"image": has_image, "contour": has_contour},
                        "_feats": {"image": image, "contour": contour}, "format": "hdf5",
                        "filter": flt, "config": {"fmt_tdms": {"video frame offset": 0},
                                                  "experiment": {"sample": "s"}}}, name="ds")
    return ds, NS(dict(N=N, image=image, contour=contour, manual=manual, has_image=has_image,
                       has_contour=has_contour))


DS_CALLEES = {"DS.__contains__": DsContains(), "DS.__getitem__": DsGetitem(),
              "DS.__len__": DsLen(), "DS.apply_filter": DsApplyFilter()}


def is_empty(payload_term):
    """np.all(payload == 0): the event's image/contour is empty (all zero)"""
    return np_all(elem_fn("elem_Eq_0")(payload_term))


class SkipEmptyImageEvents(Contract):
    """skip_empty_image_events(ds, initial, final) on an HDF5/dict dataset only
    ever clears manual[0] (iff the first image or contour is empty and `initial`)
    and manual[N-1] (iff the last image is empty and `final`); every other entry
    of the manual filter is untouched."""
    path = COMMON
    module = "dclab.cli.common"
    name = "common.skip_empty_image_events"
    qualname = "skip_empty_image_events"
    params = ("ds", "initial", "final")

    def __init__(self):
        super().__init__()
        self.callees = dict(DS_CALLEES)

    def inputs(self, ctx):
        ds, g = mk_ds(ctx)
        g.m0 = SArr(g.manual.n, g.manual.a, "bool")
        g.initial = ctx.bool("initial", inp=True)
        g.final = ctx.bool("final", inp=True)
        self._g = g
        return {"ds": ds, "initial": g.initial, "final": g.final}

    def ensures(self, ctx, old, a, result):
        g = self._g
        m1 = a.ds.fields["filter"].fields["manual"]
        N = g.N.e
        k = z3.Int("k!p")
        empty0 = z3.Or(z3.And(to_z3(g.has_contour), is_empty(g.contour.sel(0))),
                       z3.And(to_z3(g.has_image), is_empty(g.image.sel(0))))
        emptyN = z3.And(to_z3(g.has_image), is_empty(g.image.sel(N - 1)))
        clear0 = z3.And(to_z3(g.initial), empty0)
        clearN = z3.And(to_z3(g.final), emptyN)
        return [("entries other than the first and the last are untouched",
                 z3.ForAll([k], z3.Implies(z3.And(k > 0, k < N - 1), m1.sel(k) == g.m0.sel(k)))),
                ("length unchanged", m1.n == N),
                ("first entry cleared iff requested and the first image/contour is empty",
                 z3.Implies(N > 1, m1.sel(0) == z3.And(g.m0.sel(0), z3.Not(clear0)))),
                ("last entry cleared iff requested and the last image is empty",
                 z3.Implies(N > 1, m1.sel(N - 1) == z3.And(g.m0.sel(N - 1), z3.Not(clearN)))),
                ("single event", z3.Implies(N == 1, m1.sel(0) == z3.And(g.m0.sel(0), z3.Not(clear0),
                                                                       z3.Not(clearN))))]


UNITS = [SkipEmptyImageEvents()]
TRUSTED = list(DS_CALLEES.values())
TRUSTED_BASE = ["event payloads are opaque; `payload == 0` and np.all(...) are uninterpreted functions of the payload (N-ELEMWISE, N-ALL/ANY)"]
ASSUMPTIONS = [".tdms sources are outside the contracts (their feature objects are the given oracle)"]


# ---------------------------------------------------------------- split
exported = z3.Function("exported", z3.IntSort(), z3.IntSort(), z3.BoolSort())   # ghost


class SkipCallee(Contract):
    """callee form of SkipEmptyImageEvents (same ensures)"""
    name = "skip_empty_image_events"

    def __call__(self, interp, ds=None, initial=True, final=True):
        ctx = interp.ctx
        m = ds.fields["filter"].fields["manual"]
        N = to_z3(ds.fields["_N"])
        interp.heap_write(m)
        new = ctx.arr("manual_p", "bool", n=m.n)
        k = z3.Int("k!sk")
        ctx.assume(z3.ForAll([k], z3.Implies(z3.And(k > 0, k < N - 1), new.sel(k) == m.sel(k))))
        ctx.assume(z3.Implies(new.sel(0), m.sel(0)))
        ctx.assume(z3.Implies(new.sel(N - 1), m.sel(N - 1)))
        ctx.assume(z3.Implies(z3.Not(to_z3(initial)), new.sel(0) == m.sel(0)))
        ctx.assume(z3.Implies(z3.Not(to_z3(final)), z3.Or(N == 1, new.sel(N - 1) == m.sel(N - 1))))
        m.set_a(new.a)
        return None


class ExportHdf5(Contract):
    """ds.export.hdf5(path, ..., filtered=True) writes exactly the events selected
    by the applied filter (C02); the ghost relation exported(part, k) records the
    selection of each call."""
    name = "Export.hdf5"
    trusted = True

    def __call__(self, interp, export, path=None, features=None, filtered=True, **kw):
        ctx = interp.ctx
        ds = export.fields["ds"]
        applied = ds.fields.get("_applied")
        part = export.fields["_part"]()
        k = z3.Int("k!ex")
        if applied is None:
            raise Exception("export before apply_filter")
        ctx.assume(z3.ForAll([k], exported(part, k) == z3.And(k >= 0, k < applied.n, applied.sel(k))))
        export.fields["_calls"].append((part, path, dict(kw, filtered=filtered, features=features)))
        return None


class NewDataset(Contract):
    name = "new_dataset"
    trusted = True

    def __call__(self, interp, path, *a, **k):
        return interp.cur_frame.unit._ds


class Opaque(Contract):
    trusted = True

    def __init__(self, name):
        self.name = name
        super().__init__()

    def __call__(self, interp, *a, **k):
        return interp.ctx.obj("Opaque_" + self.name.replace(".", "_"), {})


class WriterStub(Contract):
    """RTDCWriter(path, ...) used after the export loop to add logs/metadata to the
    temporary files (covered by C01/C11; it cannot change which events a part holds)"""
    name = "RTDCWriter"
    trusted = True

    def __call__(self, interp, path, **kw):
        return interp.ctx.obj("WriterStub", {"path": path})


class WriterStubMethod(Contract):
    trusted = True

    def __init__(self, name):
        self.name = name
        super().__init__()

    def __call__(self, interp, w, *a, **k):
        return None


class Split(Contract):
    """split(): with N events and split size s >= 1 the number of parts is
    ceil(N/s); part j is exported with the selection {k : j*s <= k < (j+1)*s},
    except that only the boundary events 0 and N-1 may be dropped (empty images);
    hence the parts are pairwise disjoint, ordered, each holds at most s events,
    and every other event is in exactly one part; the manual filter is reset
    before every part."""
    path = SPLIT
    module = "dclab.cli.task_split"
    name = "split"
    qualname = "split"
    params = ("path_in", "path_out", "split_events", "skip_initial_empty_image",
              "skip_final_empty_image", "ret_out_paths", "verbose")
    native = set()

    def __init__(self):
        super().__init__()
        self.callees = dict(DS_CALLEES)
        self.callees.update({
            "skip_empty_image_events": SkipCallee(), "Export.hdf5": ExportHdf5(),
            "new_dataset": NewDataset(), "get_command_log": Opaque("get_command_log"),
            "assemble_warnings": Opaque("assemble_warnings"),
            "RTDCWriter": WriterStub(),
            "WriterStub.store_log": WriterStubMethod("WriterStub.store_log"),
            "WriterStub.store_metadata": WriterStubMethod("WriterStub.store_metadata"),
        })
        self.loops = {
            "ii in range(num_files)": LoopSpec(inv=self.inv, havoc=self.havoc,
                                               kinds={"paths_gen": self.fresh_list, "paths_temp": self.fresh_list},
                                               hints=self.hints,
                                               modifies=lambda ctx, v: [v.ds, v.ds.fields["filter"].fields["manual"],
                                                                        v.ds.fields["export"]]),
            "(ii, pt) in enumerate(paths_temp)": LoopSpec(inv=lambda ctx, v: []),
            "(pt, pp) in zip(paths_temp, paths_gen)": LoopSpec(inv=lambda ctx, v: []),
        }

    def fresh_list(self, ctx):
        lst = ctx.arr("paths", "elem")
        lst.is_list = True
        lst.elem_pytype = "path"
        return lst

    def inputs(self, ctx):
        import pathlib
        ds, g = mk_ds(ctx)
        g.s = ctx.int("split_events", lo=1, inp=True)
        self._part = [None]
        ds.fields["export"] = ctx.obj("Export", {"ds": ds, "_calls": [], "_part": lambda: self._part[0]})
        ds.fields["features_innate"] = ["deform", "image"]
        self._ds = ds
        self._g = g
        return {"path_in": pathlib.Path("/data/in.rtdc"), "path_out": "SAME", "split_events": g.s,
                "skip_initial_empty_image": ctx.bool("skip_initial", inp=True),
                "skip_final_empty_image": ctx.bool("skip_final", inp=True),
                "ret_out_paths": False, "verbose": False}

    def havoc(self, ctx, v):
        m = v.ds.fields["filter"].fields["manual"]
        m.set_a(ctx.arr("manual@L", "bool", n=m.n).a)
        v.ds.fields.pop("_applied", None)
        self._part[0] = None

    def window(self, j, k):
        g = self._g
        return z3.And(j * g.s.e <= k, k < (j + 1) * g.s.e, k >= 0, k < g.N.e)

    def hints(self, ctx, v):
        # the part exported in this iteration is number `it`
        self._part[0] = v.it
        return []

    def inv(self, ctx, v):
        g = self._g
        j, k = z3.Int("j!inv"), z3.Int("k!inv")
        N, s = g.N.e, g.s.e
        nf = to_z3(v.num_files)
        return [("number of parts is ceil(N / s)", z3.And((nf - 1) * s < N, N <= nf * s, nf >= 1)),
                ("every part exported so far is its window minus possibly the boundary events",
                 z3.ForAll([j, k], z3.Implies(z3.And(j >= 0, j < v.it),
                                              z3.And(z3.Implies(exported(j, k), self.window(j, k)),
                                                     z3.Implies(z3.And(self.window(j, k), k != 0, k != N - 1),
                                                                exported(j, k))))))]

    def ensures(self, ctx, old, a, result):
        g = self._g
        j, k = z3.Int("j!p"), z3.Int("k!p")
        N, s = g.N.e, g.s.e
        nf = z3.Int("num_files_spec")
        return [("every exported part holds only events of its own window (<= s events, disjoint, ordered); "
                 "each event other than the two boundary events is in the part of its window",
                 z3.Exists([nf], z3.And(
                     (nf - 1) * s < N, N <= nf * s,
                     z3.ForAll([j, k], z3.Implies(z3.And(j >= 0, j < nf),
                                                  z3.And(z3.Implies(exported(j, k), self.window(j, k)),
                                                         z3.Implies(z3.And(self.window(j, k), k != 0, k != N - 1),
                                                                    exported(j, k))))))))]


UNITS += [Split()]


# ---------------------------------------------------------------- join
import pathlib   # noqa: E402
from contracts.common_writer import StoreFeatureCallee   # noqa: E402
from pyvc.h5model import new_group, new_dataset, new_attrs   # noqa: E402
from pyvc.models import epoch, str_frac, pyround   # noqa: E402
from pyvc.sym import SStr, F   # noqa: E402

# the names are deliberately not in alphabetical order: ties must keep the *given* order
PATHS = [pathlib.Path("/in/m.rtdc"), pathlib.Path("/in/d.rtdc"), pathlib.Path("/in/k.rtdc")]
INNATE = {
    "a": ["area_um", "deform", "fl1_max", "fl2_max", "frame", "image", "index", "index_online", "time"],
    "b": ["area_um", "deform", "frame", "image", "index", "index_online", "time"],
    "c": ["area_um", "deform", "fl1_max", "fl2_max", "frame", "image", "index", "index_online", "time",
          "userdef1"],
}
#: features each dataset can provide (innate + computable)
FEATURES = {"a": INNATE["a"] + ["volume"], "b": INNATE["b"] + ["volume"], "c": INNATE["c"]}
KIND = {"area_um": "F", "deform": "F", "fl1_max": "F", "fl2_max": "F", "userdef1": "F", "volume": "F",
        "time": "real", "frame": "int", "index": "int", "index_online": "int", "image": "elem"}


class SetupTaskPaths(Contract):
    """setup_task_paths: returns the input paths, the output path and the
    temporary path (C10 decides what it may delete)."""
    name = "setup_task_paths"
    trusted = True

    def __call__(self, interp, paths_in, paths_out, allowed_input_suffixes=None):
        return list(PATHS), pathlib.Path("/out/joined.rtdc"), pathlib.Path("/out/joined.rtdc~")


class JoinNewDataset(Contract):
    name = "new_dataset"
    trusted = True

    def __call__(self, interp, path, *a, **k):
        return interp.cur_frame.unit._ds[str(path)]


class ConfigGetitem(Contract):
    name = "Config.__getitem__"
    trusted = True

    def __call__(self, interp, cfg, key):
        return cfg.fields["_d"][key]


class ConfigTostring(Contract):
    name = "Config.tostring"
    trusted = True

    def __call__(self, interp, cfg, **kw):
        return "[experiment]\nsample = x"


class JoinExportHdf5(Contract):
    """Export.hdf5(path, features, filtered=False, logs=True, tables=True,
    meta_prefix=p): creates the file with every requested feature holding all
    events of the source in order, a fresh index 1..N, and the source's logs
    under the prefix (C02)."""
    name = "Export.hdf5"
    trusted = True

    def __call__(self, interp, export, path=None, features=None, filtered=True, override=False,
                 logs=False, tables=False, basins=False, meta_prefix="src_", compression_kwargs=None, **kw):
        from pyvc.engine import PyRaise
        ctx = interp.ctx
        unit = interp.cur_frame.unit
        ds = export.fields["ds"]
        out = unit._out
        out["created_by"] = (ds.fields["_tag"], str(path), filtered, basins)
        events = new_group(ctx, name="/events")
        for f in features:
            if f not in ds.fields["_feats"]:
                raise PyRaise(KeyError, (f,))
            src = ds.fields["_feats"][f]
            if f == "index":
                c = ctx.arr("exp_index", "int", n=src.n)
                k = z3.Int("k!ei")
                ctx.assume(z3.ForAll([k], z3.Implies(z3.And(k >= 0, k < src.n), c.sel(k) == k + 1)))
            else:
                c = SArr(src.n, src.a, src.kind, dtype=src.dtype)
                c.item_shape = getattr(src, "item_shape", ())
            events.fields["members"][f] = new_dataset(ctx, c, name="/events/" + f,
                                                      item_shape=getattr(c, "item_shape", ()))
        out["h5"] = new_group(ctx, members={"events": events}, name="/")
        if logs:
            for lg in ds.fields["logs"]:
                out["logs"][meta_prefix + lg] = ds.fields["logs"][lg]
        return None


class JoinWriter(Contract):
    name = "RTDCWriter"
    trusted = True

    def __call__(self, interp, path, **kw):
        unit = interp.cur_frame.unit
        return interp.ctx.obj("JoinWriter", {"h5file": unit._out["h5"], "mode": "append", "path": path})


class JoinStoreLog(Contract):
    name = "JoinWriter.store_log"
    trusted = True

    def __call__(self, interp, hw, name=None, lines=None):
        interp.cur_frame.unit._out["logs"][models.str_term(name) if not isinstance(name, str) else name] = lines
        return None


class JoinStoreOther(Contract):
    trusted = True

    def __init__(self, name):
        self.name = name
        super().__init__()

    def __call__(self, interp, hw, *a, **k):
        interp.cur_frame.unit._out.setdefault("other", []).append((self.name, a, k))
        return None


class StopHere(Contract):
    trusted = True

    def __init__(self, name):
        self.name = name
        super().__init__()

    def __call__(self, interp, *a, **k):
        from pyvc.engine import StopUnit
        raise StopUnit()


def mk_join_ds(ctx, unit, tags, strings):
    """datasets of the join scenario; `strings`: "z3" (real string theory) or
    "opaque" (uninterpreted strings with an axiomatised order)"""
    from pyvc.models import ostr
    from pyvc.sym import Elem
    g = {}
    unit._ds = {}
    for tag, p in zip(tags, PATHS):
        if strings == "z3":
            date = ctx.str("date_" + tag, inp=True)
            tm = ctx.str("time_" + tag, inp=True)
        else:
            date = ostr(ctx.const("date_" + tag, Elem))
            tm = ostr(ctx.const("time_" + tag, Elem))
        ri = ctx.int("runindex_" + tag, lo=0, hi=99, inp=True)
        fr = ctx.real("framerate_" + tag)
        ctx.assume(fr.e > 0)
        N = ctx.int("N_" + tag, lo=1, inp=True)
        feats = {}
        for f in FEATURES[tag]:
            arr = ctx.arr(f"{f}_{tag}", KIND[f], n=N.e)
            if KIND[f] == "elem":
                arr.item_shape = (ctx.int("h", lo=1), ctx.int("w", lo=1))
            feats[f] = arr
        cfg = ctx.obj("Config", {"_d": {"experiment": {"date": date, "time": tm, "run index": ri,
                                                       "sample": "s"},
                                        "imaging": {"frame rate": fr}}})
        ds = ctx.obj("DS", {"_tag": tag, "config": cfg, "features_innate": list(INNATE[tag]),
                            "features": list(FEATURES[tag]), "_feats": feats,
                            "_has": {f: True for f in FEATURES[tag]},
                            "logs": {"log": f"LOG-{tag}"}, "tables": {}, "_N": N}, name="ds_" + tag)
        ds.fields["export"] = ctx.obj("Export", {"ds": ds})
        unit._ds[str(p)] = ds
        g[tag] = NS(dict(date=date, tm=tm, ri=ri, fr=fr, N=N, feats=feats, ds=ds))
    return g


class JoinOrder(Contract):
    """Slice of join() up to the sorted list of inputs, for two inputs with real
    (z3) strings as date and time: the input with the earlier acquisition time
    (date, HH:MM:SS, fractional seconds) comes first; equal times keep the order
    of the run index, then the given order."""
    path = JOIN
    module = "dclab.cli.task_join"
    name = "join[order of inputs]"
    qualname = "join"
    params = ("paths_in", "path_out", "metadata", "ret_path")

    def __init__(self, findings=()):
        super().__init__()
        self.findings = set(findings)

        class Two(SetupTaskPaths):
            def __call__(s, interp, paths_in, paths_out, allowed_input_suffixes=None):
                return list(PATHS[:2]), pathlib.Path("/out/joined.rtdc"), pathlib.Path("/out/joined.rtdc~")
        self.callees = {"setup_task_paths": Two(), "new_dataset": JoinNewDataset(),
                        "Config.__getitem__": ConfigGetitem(),
                        "get_command_log": StopHere("get_command_log")}

    def inputs(self, ctx):
        self._g = mk_join_ds(ctx, self, "ab", "z3")
        return {"paths_in": [str(p) for p in PATHS[:2]], "path_out": "/out/joined.rtdc",
                "metadata": None, "ret_path": True}

    def hms(self, t):
        return z3.SubString(self._g[t].tm.e, 0, 8)

    def fracv(self, t):
        x = self._g[t]
        L = z3.Length(x.tm.e)
        return z3.If(L > 8, str_frac(z3.SubString(x.tm.e, 8, L - 8)), z3.RealVal(0))

    def requires(self, ctx, a):
        reqs = []
        digits = z3.Range("0", "9") if hasattr(z3, "Range") else None
        for t in "ab":
            x = self._g[t]
            L = z3.Length(x.tm.e)
            reqs.append((f"{t}: date has 10 characters, time is HH:MM:SS or HH:MM:SS.f...",
                         z3.And(z3.Length(x.date.e) == 10,
                                z3.Or(L == 8, z3.And(L >= 10, L <= 12,
                                                     z3.SubString(x.tm.e, 8, 1) == z3.StringVal("."))))))
            fr = str_frac(z3.SubString(x.tm.e, 8, L - 8))
            reqs.append((f"{t}: fractional seconds in [0, 1)", z3.And(fr >= 0, fr < 1)))
        return reqs

    def earlier(self, p, q):
        """p was acquired strictly before q: (date, HH:MM:SS) lexicographic (zero padded
        => chronological), then the fractional seconds"""
        g = self._g
        dp, dq = g[p].date.e, g[q].date.e
        hp, hq = self.hms(p), self.hms(q)
        return z3.Or(dp < dq, z3.And(dp == dq, hp < hq),
                     z3.And(dp == dq, hp == hq, self.fracv(p) < self.fracv(q)))

    def post(self, ctx, st):
        loc = st.frame.locals
        sp = loc.get("sorted_paths")
        if sp is None:
            return [("sorted_paths computed", z3.BoolVal(False))]
        tags = [{str(p): t for t, p in zip("ab", PATHS)}[str(p)] for p in sp]
        p, q = tags
        g = self._g
        tie = z3.And(z3.Not(self.earlier(p, q)), z3.Not(self.earlier(q, p)))
        posts = [("the input acquired earlier comes first", z3.Not(self.earlier(q, p)))]
        if "D21" in self.findings:
            # known finding D21: ties are ordered by run index first
            posts.append(("equal acquisition times and equal run index: the given order",
                          z3.Implies(z3.And(tie, g[p].ri.e == g[q].ri.e), z3.BoolVal(p < q))))
        else:
            posts.append(("equal acquisition times: the given order", z3.Implies(tie, z3.BoolVal(p < q))))
        return posts


class Join(Contract):
    """join() of three inputs with symbolic (opaque) dates/times and symbolic data
    (feature sets fixed by the scenario: the second input lacks two adjacent
    features of the first): sources are appended in chronological order, only
    features available in every input are written, time/frame are shifted by the
    acquisition offset, index is 1..N, each source's logs are kept under src-#i_."""
    path = JOIN
    module = "dclab.cli.task_join"
    name = "join"
    qualname = "join"
    params = ("paths_in", "path_out", "metadata", "ret_path")
    symbolic_arrays = True
    no_warnings_recorded = True     # scenario: the branches that only log recorded warnings are not explored

    def __init__(self, findings=()):
        super().__init__()
        self.findings = set(findings)
        self.callees = {
            "setup_task_paths": SetupTaskPaths(), "new_dataset": JoinNewDataset(),
            "Config.__getitem__": ConfigGetitem(), "Config.tostring": ConfigTostring(),
            "Export.hdf5": JoinExportHdf5(), "RTDCWriter": JoinWriter(),
            "JoinWriter.store_feature": StoreFeatureCallee(with_summaries=False),
            "JoinWriter.store_log": JoinStoreLog(),
            "JoinWriter.store_table": JoinStoreOther("store_table"),
            "JoinWriter.store_metadata": JoinStoreOther("store_metadata"),
            "DS.__getitem__": DsGetitem(), "DS.__contains__": DsContains(),
            "get_command_log": Opaque("get_command_log"),
            "assemble_warnings": Opaque("assemble_warnings"),
        }

    def inputs(self, ctx):
        self._out = {"logs": {}, "h5": None}
        self._g = mk_join_ds(ctx, self, "abc", "opaque")
        return {"paths_in": [str(p) for p in PATHS], "path_out": "/out/joined.rtdc",
                "metadata": None, "ret_path": True}

    # -- the acquisition time of a source (specification) -----------------------------
    def hms(self, tag):
        from pyvc.models import ostr_slice
        return ostr_slice(self._g[tag].tm.e, Z(0), Z(8))

    def T(self, tag):
        from pyvc.models import ostr_concat, ostr_slice, ostr_epoch, ostr_frac, clen
        x = self._g[tag]
        stamp = ostr_concat(x.date.e, self.hms(tag))
        return ostr_epoch(stamp) + z3.If(clen(x.tm.e) > 8, ostr_frac(ostr_slice(x.tm.e, Z(8), Z(-1))),
                                         z3.RealVal(0))

    def requires(self, ctx, a):
        from pyvc.models import ostr_concat, ostr_lt, ostr_epoch, ostr_frac, ostr_slice, clen
        reqs = []
        tags = "abc"
        for t in tags:
            x = self._g[t]
            fr = ostr_frac(ostr_slice(x.tm.e, Z(8), Z(-1)))
            reqs.append((f"{t}: fractional seconds in [0, 1)", z3.And(fr >= 0, fr < 1)))
        for t in tags:
            x = self._g[t]
            e_ = ostr_epoch(ostr_concat(x.date.e, self.hms(t)))
            reqs.append((f"{t}: machine ranges: 0 <= epoch seconds <= 10**11, frame rate <= 10**6 "
                         "(frame offsets fit uint64)", z3.And(e_ >= 0, e_ <= 10**11, x.fr.e <= 10**6)))
        # T-EPOCH: for zero-padded (date, HH:MM:SS) the lexicographic order is the
        # chronological order of the whole seconds; distinct seconds differ by >= 1
        for s_ in tags:
            for t in tags:
                if s_ != t:
                    ds_, dt_ = self._g[s_].date.e, self._g[t].date.e
                    hs, ht = self.hms(s_), self.hms(t)
                    es = ostr_epoch(ostr_concat(ds_, hs))
                    et = ostr_epoch(ostr_concat(dt_, ht))
                    lex_lt = z3.Or(ostr_lt(ds_, dt_), z3.And(ds_ == dt_, ostr_lt(hs, ht)))
                    reqs.append((f"T-EPOCH {s_}{t}", z3.And(lex_lt == (es < et),
                                                            z3.And(ds_ == dt_, hs == ht) == (es == et),
                                                            z3.Implies(es < et, et - es >= 1))))
        return reqs

    def exceptional(self, ctx, old, a, exc):
        return None

    def ensures(self, ctx, old, a, result):
        st_locals = self._last_locals
        posts = []
        sp = st_locals.get("sorted_paths")
        tags = [{str(p): t for t, p in zip("abc", PATHS)}[str(p)] for p in sp]
        given = {"a": 0, "b": 1, "c": 2}
        g = self._g
        # 1. order
        for p, q in zip(tags, tags[1:]):
            tie_cond = self.T(p) == self.T(q)
            if "D21" in self.findings:
                tie_cond = z3.And(tie_cond, g[p].ri.e == g[q].ri.e)
            posts.append((f"sources in chronological order ({p} before {q}); ties in the given order",
                          z3.And(self.T(p) <= self.T(q),
                                 z3.Implies(tie_cond, z3.BoolVal(given[p] < given[q])))))
        # 2. features
        feats = st_locals.get("features")
        want = [f for f in sorted(INNATE[tags[0]]) if all(f in FEATURES[t] for t in tags[1:])]
        posts.append(("written features == innate features of the first source available in every input",
                      z3.BoolVal(list(feats) == want)))
        # 3. content
        h5 = self._out["h5"]
        ev = h5.fields["members"]["events"]
        k = z3.Int("k!p")
        T0 = self.T(tags[0])
        for f in want:
            dsf = ev.fields["members"].get(f)
            if dsf is None:
                posts.append((f"{f} is in the output", z3.BoolVal(False)))
                continue
            c = dsf.fields["content"]
            off = Z(0)
            total = sum([g[t].N.e for t in tags])
            posts.append((f"{f}: event count is the sum of the inputs", c.n == total))
            for j, t in enumerate(tags):
                x = g[t]
                src = x.feats[f]
                dT = self.T(t) - T0
                rng = lambda kk, n=x.N.e: z3.And(kk >= 0, kk < n)   # noqa
                if f == "index":
                    posts.append((f"index enumerates 1..N (source #{j + 1})",
                                  z3.ForAll([k], z3.Implies(rng(k), c.sel(off + k) == off + k + 1))))
                elif f == "time":
                    posts.append((f"time of source #{j + 1} shifted by its acquisition offset",
                                  z3.ForAll([k], z3.Implies(rng(k), c.sel(off + k) == src.sel(k) + (dT if j else 0)))))
                elif f == "frame":
                    shift = pyround(dT * x.fr.e) if j else Z(0)
                    posts.append((f"frame of source #{j + 1} shifted by round(offset * frame rate)",
                                  z3.ForAll([k], z3.Implies(rng(k), c.sel(off + k) == src.sel(k) + shift))))
                elif f == "index_online":
                    if "D18" not in self.findings:
                        posts.append((f"index_online of source #{j + 1} unchanged when the acquisition "
                                      "offset is zero (parts of a split)",
                                      z3.Implies(dT == 0, z3.ForAll([k], z3.Implies(rng(k), c.sel(off + k) == src.sel(k))))))
                else:
                    posts.append((f"{f}: events of source #{j + 1} unchanged, in order",
                                  z3.ForAll([k], z3.Implies(rng(k), c.sel(off + k) == src.sel(k)))))
                off = off + x.N.e
        # 4. logs of every source
        for j, t in enumerate(tags):
            posts.append((f"log of source #{j + 1} retained under src-#{j + 1}_",
                          z3.BoolVal(self._out["logs"].get(f"src-#{j + 1}_log") == f"LOG-{t}")))
        posts.append(("the file is created from the first source, unfiltered, without basins",
                      z3.BoolVal(self._out.get("created_by") == (tags[0], "/out/joined.rtdc~", False, False))))
        return posts

    def post(self, ctx, st):
        self._last_locals = st.frame.locals
        return super().post(ctx, st)


def _active(pid="C09"):
    import json, pathlib as _p
    f = _p.Path(__file__).resolve().parent.parent / "known_findings.json"
    if not f.exists():
        return set()
    return {k["id"] for k in json.loads(f.read_text()) if k["property"] == pid and k["kind"] == "finding"}


UNITS += [JoinOrder(findings=_active()), Join(findings=_active())]
TRUSTED += [SetupTaskPaths(), JoinNewDataset(), JoinExportHdf5(), JoinWriter(), ConfigGetitem()]


# ---------------------------------------------------------------- replay on the real code
def _canon(values, fmt):
    """map arbitrary strings to well-formed ones preserving equalities and order"""
    uniq = sorted(set(values))
    return {v: fmt(i) for i, v in enumerate(uniq)}


def _write_input(path, tag, date, tm, ri, n, feats, seed):
    import h5py, numpy as np
    from dclab.rtdc_dataset.writer import RTDCWriter
    import dclab.rtdc_dataset.writer as w
    rng = np.random.RandomState(seed)
    with RTDCWriter(path, mode="reset") as hw:
        data = {}
        for f in feats:
            if f == "index":
                continue
            if f == "image":
                data[f] = rng.randint(1, 200, size=(n, 6, 8)).astype(np.uint8)
            elif f == "time":
                data[f] = np.linspace(0.1, 0.9, n)
            elif f == "frame":
                data[f] = np.arange(10, 10 + 3 * n, 3, dtype=np.uint64)
            elif f == "index_online":
                data[f] = np.arange(1, 1 + 2 * n, 2, dtype=np.uint64)
            else:
                data[f] = rng.uniform(0.01 + seed, 0.5 + seed, size=n)
        for f, v in data.items():
            hw.store_feature(f, v)
        hw.store_feature("index", np.arange(1, n + 1))
        hw.store_metadata({"experiment": {"date": date, "time": tm, "run index": int(ri), "sample": tag,
                                          "event count": n},
                           "imaging": {"frame rate": 100.0, "pixel size": 0.34, "roi size x": 8,
                                       "roi size y": 6},
                           "setup": {"channel width": 20.0, "chip region": "channel", "flow rate": 0.04,
                                     "medium": "CellCarrier"}})
        hw.store_log("log", [f"LOG-{tag}"])
    return data


def replay(unit_name, inp, obligation=""):
    import pathlib, tempfile, warnings
    import numpy as np
    if unit_name.startswith("join"):
        return _replay_join(unit_name, inp)
    if unit_name == "split":
        return _replay_split(inp)
    return {"failed": None, "detail": "no replay for " + unit_name}


def in_carve_out(unit_name, inp):
    """id of the known finding whose carve-out contains these inputs (bounded
    stand-in and candidate search skip them)"""
    if unit_name.startswith("join"):
        tags = "ab" if "order" in unit_name else "abc"
        for i, s_ in enumerate(tags):
            for t in tags[i + 1:]:
                if (inp.get("date_" + s_), inp.get("time_" + s_)) == (inp.get("date_" + t), inp.get("time_" + t)) \
                        and inp.get("runindex_" + s_) != inp.get("runindex_" + t):
                    return "D21"
    return None


def _replay_split_join_roundtrip():
    """D18 witness: join(split(x)) compared with x for index_online"""
    import pathlib, tempfile, warnings
    import h5py, numpy as np
    import dclab.rtdc_dataset.writer as w
    import dclab.rtdc_dataset.export as e
    from dclab.cli import task_join, task_split
    old_w, old_e = w.version, e.version
    w.version = e.version = "0.60.0"
    try:
        with tempfile.TemporaryDirectory(prefix="c09_") as td, warnings.catch_warnings():
            warnings.simplefilter("ignore")
            td = pathlib.Path(td)
            p = td / "x.rtdc"
            _write_input(p, "x", "2020-01-01", "12:00:00", 1, 7, INNATE["b"], seed=1)
            parts = task_split.split(path_in=p, path_out=td / "parts", split_events=3, ret_out_paths=True) \
                if (td / "parts").mkdir() is None else None
            out = td / "joined.rtdc"
            task_join.join(paths_in=parts, path_out=out)
            with h5py.File(p) as a, h5py.File(out) as b:
                bad = [f for f in a["events"] if f in b["events"] and a["events"][f].shape == b["events"][f].shape
                       and not np.array_equal(a["events"][f][:], b["events"][f][:])]
                if bad:
                    f = bad[0]
                    return {"failed": True, "detail": f"join(split(x)) differs from x in {bad}: "
                                                      f"{a['events'][f][:].tolist()} -> {b['events'][f][:].tolist()}"}
        return {"failed": False, "detail": "join(split(x)) reproduces x"}
    finally:
        w.version, e.version = old_w, old_e


def _replay_join(unit_name, inp):
    if inp.get("split_roundtrip"):
        return _replay_split_join_roundtrip()
    import pathlib, tempfile, warnings
    import h5py, numpy as np
    import dclab.rtdc_dataset.writer as w
    import dclab.rtdc_dataset.export as e
    from dclab.cli import task_join
    tags = "ab" if "order" in unit_name else "abc"
    dates = [str(inp.get("date_" + t, "d")) for t in tags]
    times = [str(inp.get("time_" + t, "t")) for t in tags]
    dmap = _canon(dates, lambda i: f"2020-01-{i + 1:02d}")
    hmap = _canon([t[:8] for t in times], lambda i: f"12:00:{i + 1:02d}")
    fmap = _canon([t[8:] for t in times if len(t) > 8], lambda i: f".{(i + 1) * 2}")
    old_w, old_e = w.version, e.version
    w.version = e.version = "0.60.0"
    try:
        with tempfile.TemporaryDirectory(prefix="c09_") as td, warnings.catch_warnings():
            warnings.simplefilter("ignore")
            td = pathlib.Path(td)
            paths, meta, datas = [], {}, {}
            for i, t in enumerate(tags):
                tm = hmap[times[i][:8]] + (fmap[times[i][8:]] if len(times[i]) > 8 else "")
                ri = int(inp.get("runindex_" + t, 1))
                n = max(1, min(int(inp.get("N_" + t, 3)), 4))
                # file names deliberately not in alphabetical order (ties keep the *given* order)
                p = td / f"{ {'a': 'm', 'b': 'd', 'c': 'k'}[t] }_{t}.rtdc"
                feats = INNATE[t] if len(tags) == 3 else INNATE["b"]
                datas[t] = _write_input(p, t, dmap[dates[i]], tm, ri, n, feats, seed=i + 1)
                meta[t] = (dmap[dates[i]], tm, ri, n)
                paths.append(p)
            out = td / "out.rtdc"
            try:
                task_join.join(paths_in=paths, path_out=out)
            except Exception as ex:
                return {"failed": True, "detail": f"join raised {type(ex).__name__}: {ex} for inputs "
                                                  f"{ {t: meta[t] for t in tags} }"}

            def T(t):
                d, tm, ri, n = meta[t]
                return (d, tm[:8], float(tm[8:]) if len(tm) > 8 else 0.0)
            # the statement: chronological order, ties in the given order
            want = sorted(tags, key=lambda t: (T(t), tags.index(t)))
            with h5py.File(out) as h5:
                deform = h5["events/deform"][:]
                got_time = h5["events/time"][:]
                feats_out = sorted(h5["events"].keys())
            exp = np.concatenate([datas[t]["deform"] for t in want])
            if len(deform) != len(exp) or not np.allclose(deform, exp):
                got = []
                for t in tags:
                    d = datas[t]["deform"]
                    pos = [i for i in range(len(deform) - len(d) + 1) if np.allclose(deform[i:i + len(d)], d)]
                    got.append((pos[0] if pos else -1, t))
                return {"failed": True, "detail": f"events are not in chronological order: expected sources "
                                                  f"{want} (by date, time, run index, given order), found "
                                                  f"{[t for _, t in sorted(got)]}; inputs {meta}"}
            # time / frame continuity and index
            import datetime

            def secs(t):
                d, tm, ri, n = meta[t]
                dt = datetime.datetime.strptime(d + tm[:8], "%Y-%m-%d%H:%M:%S")
                return dt.timestamp() + (float(tm[8:]) if len(tm) > 8 else 0.0)
            t0 = secs(want[0])
            exp_time = np.concatenate([datas[t]["time"] + (secs(t) - t0) for t in want])
            exp_frame = np.concatenate([datas[t]["frame"].astype(np.int64) + int(round((secs(t) - t0) * 100.0))
                                        for t in want])
            with h5py.File(out) as h5:
                got_frame = h5["events/frame"][:].astype(np.int64)
                got_index = h5["events/index"][:]
            if not np.allclose(got_time, exp_time):
                return {"failed": True, "detail": f"time is not continued by the acquisition offsets w.r.t. the "
                                                  f"first input: got {got_time.tolist()}, expected "
                                                  f"{exp_time.tolist()}; inputs {meta}"}
            if not np.array_equal(got_frame, exp_frame):
                return {"failed": True, "detail": f"frame offsets wrong: got {got_frame.tolist()}, expected "
                                                  f"{exp_frame.tolist()}; inputs {meta}"}
            if not np.array_equal(got_index, np.arange(1, len(got_index) + 1)):
                return {"failed": True, "detail": f"index is not 1..N: {got_index.tolist()}"}
            return {"failed": False, "detail": f"join order {want} as specified; features {feats_out}"}
    finally:
        w.version, e.version = old_w, old_e


def _replay_split(inp):
    return {"failed": None, "detail": "no replay for split"}


def bounded_inputs(unit_name, rng):
    if unit_name.startswith("join"):
        yield {"date_a": "2020-01-01", "date_b": "2020-01-01", "date_c": "2020-01-01",
               "time_a": "12:00:00", "time_b": "12:00:07", "time_c": "12:00:19", "runindex_a": 1,
               "runindex_b": 2, "runindex_c": 3, "N_a": 2, "N_b": 3, "N_c": 2}
        for ta, tb in (("12:00:00", "12:00:00.5"), ("12:00:00.5", "12:00:00"), ("12:00:01", "12:00:00"),
                       ("12:00:00", "12:00:00")):
            for ra, rb in ((1, 1), (2, 1), (10, 2)):
                yield {"date_a": "2020-01-01", "date_b": "2020-01-01", "date_c": "2020-01-02",
                       "time_a": ta, "time_b": tb, "time_c": "09:00:00", "runindex_a": ra,
                       "runindex_b": rb, "runindex_c": 1, "N_a": 2, "N_b": 3, "N_c": 2}
