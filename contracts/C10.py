"""C10 — command-line tasks never leave a partial file at the output path; the
inputs are never modified.

The property is a typestate property of the sequence of file-system operations a
task performs.  The real task functions (dclab/cli/task_*.py and
common.setup_task_paths) are executed symbolically; every modelled file-system
operation goes through the ghost file system of pyvc.fsghost, which

 * generates the obligations of the rules W / U / R (see pyvc/fsghost.py) for
   the operation, evaluated in the state *before* it -- the state a process killed
   immediately before the operation leaves behind, and
 * lets the operation fail (fresh boolean per operation; the code under
   verification then runs its own exception handling).

Why the rules imply the property: a requested output path only comes into
existence through rename(temp -> out) (rule W: it is never opened write-capable);
at that moment no handle on temp is open and no write has failed (rule R), so the
file is closed and holds everything the task wrote; nothing writes to it
afterwards (rule W again).  Inputs are never opened write-capable (W), unlinked
or renamed (U).  Data-dependent control flow (which logs exist, whether warnings
were recorded, which features are stored) is symbolic.

What is assumed about callees is listed in TRUSTED: each is an *effect contract*
("writes only through the handle / to the path it is given").
"""
import os
import pathlib

import z3

from pyvc import h5model, models, npmodel, fsghost   # noqa: F401
from pyvc.contract import Contract
from pyvc.engine import LoopSpec, NS, PyRaise
from pyvc.sym import SObj, SOpaque, Elem, wrap, to_z3

CLI = "dclab/cli/"
COMMON = CLI + "common.py"
WRITER = "dclab/rtdc_dataset/writer.py"
WMOD = "dclab.rtdc_dataset.writer"


# --------------------------------------------------------------------------
# roles of paths (the specification side)
# --------------------------------------------------------------------------
def norm_out(p):
    """the output path a task is asked for: '.rtdc' is appended to a name that
    does not end in it (documented behaviour of every task)"""
    p = pathlib.Path(p)
    return p if p.suffix == ".rtdc" else p.with_name(p.name + ".rtdc")


class Spec:
    max_faults = 1
    inject = True

    def __init__(self, ins, outs):
        # a file has one identity however its name is spelled ('.', '..')
        self.ins = {os.path.normpath(os.fspath(p)) for p in ins}
        self.outs = {os.path.normpath(os.fspath(norm_out(p))) for p in outs} | {os.path.normpath(os.fspath(p)) for p in outs}

    def role(self, ctx, path):
        if isinstance(path, SObj):
            return self.role_sym(ctx, path)
        s = os.path.normpath(os.fspath(path))
        return (z3.BoolVal(s in self.ins), z3.BoolVal(s in self.outs), z3.BoolVal(s.endswith("~")))

    def role_sym(self, ctx, path):
        raise NotImplementedError

    def show(self, path):
        if isinstance(path, SObj):
            return getattr(path, "name", "path")
        return os.fspath(path)


def opaque(ctx, name, pytype=None):
    return SOpaque(ctx.const(name, Elem), pytype)


# --------------------------------------------------------------------------
# effect contracts of callees
# --------------------------------------------------------------------------
class Fx(Contract):
    """effect contract: the callee writes only through the HDF5 objects named by
    `writes` (each such write may fail) and returns an opaque value"""
    trusted = True

    def __init__(self, name, writes=lambda a, k: [], result="opaque", doc=None, after=None, pytype=None):
        self.name = name
        self._writes, self._result, self._after = writes, result, after
        self._pytype = pytype
        self.__doc__ = doc or f"{name}: effect contract"
        super().__init__()

    def __call__(self, interp, *args, **kw):
        for tgt in self._writes(args, kw):
            h5model.note_h5_write(interp, tgt, self.name)
        if self._after is not None:
            self._after(interp, args, kw)
        if self._result == "opaque":
            return opaque(interp.ctx, self.name.split(".")[-1] + "_result", self._pytype)
        if self._result == "list":
            lst = interp.ctx.arr(self.name.split(".")[-1] + "_lines", "elem")
            lst.is_list = True
            return lst
        if callable(self._result):
            return self._result(interp, args, kw)
        return self._result


def _kw(args, kw, pos, name):
    return kw[name] if name in kw else args[pos]


def _rtdc_copy_after(interp, args, kw):
    """after rtdc_copy the destination holds whatever the source held: nothing is
    known about which groups / logs exist"""
    dst = _kw(args, kw, 1, "dst_h5file")
    dst.fields["open_world"] = True


RTDC_COPY = Fx("rtdc_copy", writes=lambda a, k: [_kw(a, k, 1, "dst_h5file")], result=None,
               after=_rtdc_copy_after,
               doc="rtdc_copy(src_h5file, dst_h5file, ...): reads src, writes only through dst "
                   "(copier.py calls create_dataset / h5o.copy / attrs on dst_h5file only)")
GET_COMMAND_LOG = Fx("get_command_log", result="list",
                     doc="common.get_command_log(paths): reads (hashes) the given files, writes nothing")
ASSEMBLE_WARNINGS = Fx("assemble_warnings", result="list", doc="pure")
HASHFILE = Fx("hashfile", doc="util.hashfile(path): reads the file", pytype=str)
HASHOBJ = Fx("hashobj", doc="util.hashobj(obj): pure", pytype=str)
ZSTD = Fx("Zstd", doc="hdf5plugin.Zstd(...): compression options, pure")


def _writer_target(a, k):
    return [a[0].fields["h5file"]]


WRITER_METHODS = {
    f"RTDCWriter.{m}": Fx(f"RTDCWriter.{m}", writes=_writer_target, result=None,
                          doc=f"RTDCWriter.{m}: writes only through self.h5file (verified under C01 for the data it stores)")
    for m in ("store_log", "store_feature", "store_metadata", "store_table", "store_basin",
              "rectify_metadata", "version_brand")
}

WRITER_CLASS = dict(
    classes={"RTDCWriter": (WRITER, "RTDCWriter")},
    class_modules={"RTDCWriter": WMOD},
    inline={"RTDCWriter.__init__", "RTDCWriter.__enter__", "RTDCWriter.__exit__", "RTDCWriter.close"},
)


# -- datasets (read side) -------------------------------------------------------
class NewDataset(Contract):
    """new_dataset(path, ...): opens the file read-only (fmt_hdf5 opens with mode
    'r'; tdms files are read with nptdms); returns a context manager whose exit
    closes it.  Feature data, configuration, logs and tables are opaque."""
    trusted = True
    name = "new_dataset"

    def __init__(self, hdf5=None):
        self.hdf5 = hdf5
        super().__init__()

    def __call__(self, interp, path, *a, **kw):
        ctx = interp.ctx
        hdf5 = self.hdf5
        if hdf5 is None:
            hdf5 = ctx.decide(ctx.bool("input_is_hdf5", inp=True))
        import dclab
        fields = {"path": path, "format": "hdf5" if hdf5 else "tdms", "_exports": []}
        ds = ctx.obj("DS", fields, name="ds")
        fields = ds.fields
        ds.realcls = dclab.rtdc_dataset.fmt_hdf5.RTDC_HDF5 if hdf5 else dclab.rtdc_dataset.RTDCBase
        if hdf5:
            fields["h5file"] = h5model._h5file_model(interp, path, "r")
        for nm in ("features_scalar", "features_loaded", "features_innate", "features_basin",
                   "features_ancillary", "features"):
            lst = ctx.arr(nm, "elem")
            lst.is_list = True
            lst.elem_pytype = str
            fields[nm] = lst
        fields["config"] = opaque(ctx, "config")
        fields["logs"] = opaque(ctx, "logs")
        fields["tables"] = opaque(ctx, "tables")
        fields["export"] = ctx.obj("ExportFx", {"ds": ds}, name="export")
        fields["filter"] = opaque(ctx, "filter")
        return ds


def _ds_enter(interp, ds):
    return ds


def _ds_exit(interp, ds, *a):
    h5 = ds.fields.get("h5file")
    if h5 is not None and not h5.fields.get("_closed"):
        h5model._grp_exit(interp, h5)
    return None


def _ds_getitem(interp, ds, key):
    return opaque(interp.ctx, "feature_data")


def _ds_len(interp, ds):
    if "_len" not in ds.fields:
        ds.fields["_len"] = interp.ctx.int("len_ds", lo=0, inp=True)
    return ds.fields["_len"]


h5model.OBJ_METHODS[("DS", "__enter__")] = _ds_enter
h5model.OBJ_METHODS[("DS", "__exit__")] = _ds_exit
h5model.OBJ_METHODS[("DS", "__getitem__")] = _ds_getitem
h5model.OBJ_METHODS[("DS", "__len__")] = _ds_len
h5model.OBJ_METHODS[("DS", "__contains__")] = lambda interp, ds, key: interp.ctx.bool("feature_available")
h5model.OBJ_METHODS[("DS", "apply_filter")] = lambda interp, ds, *a, **k: None


def _export_hdf5(interp, ex, path=None, features=None, filtered=True, override=False, **kw):
    """Export.hdf5(path, ...): EX-FX -- removes an existing file when override is
    set (raises OSError otherwise), creates `path`, writes through its own
    RTDCWriter and closes it before returning (export.py: `with RTDCWriter(path,
    mode='append') as hw`)"""
    ctx = interp.ctx
    exists = models._path_exists(interp, path) if not isinstance(path, SObj) else ctx.bool("exists_tmp")
    if ctx.decide(exists):
        if override:
            fsghost.event(interp, "unlink", path)
        else:
            raise PyRaise(OSError, ("file already exists",))
    f = h5model._h5file_model(interp, path, "w")
    h5model.note_h5_write(interp, f, "Export.hdf5")
    h5model._grp_exit(interp, f)
    return None


h5model.OBJ_METHODS[("ExportFx", "hdf5")] = _export_hdf5


# --------------------------------------------------------------------------
# units
# --------------------------------------------------------------------------
CONFIGS = {
    # name: (path_in, path_out, extra kwargs, aliasing?)
    "plain": ("/data/in.rtdc", "/data/out.rtdc", {}, False),
    "suffix appended": ("/data/in.rtdc", "/data/out", {}, False),
    "suffix appended to a dotted name": ("/data/in.rtdc", "/data/out.v2", {}, False),
    "output is the input": ("/data/in.rtdc", "/data/in.rtdc", {}, True),
    "output becomes the input once the suffix is appended": ("/data/in.rtdc", "/data/in", {}, True),
    "temporary name is the input": ("/data/x.rtdc~", "/data/x.rtdc", {"check_suffix": False}, True),
    "output is the input spelled with '..'": ("/data/in.rtdc", "/data/sub/../in.rtdc", {}, True),
}


class Task(Contract):
    """base of the task units: concrete path names, symbolic file-system state
    (what exists) and symbolic data"""
    inline_common = {"setup_task_paths"}
    params = ()
    task_kwargs = {}

    def __init__(self, cfg):
        self.cfg = cfg
        pin, pout, kw, alias = CONFIGS[cfg]
        self.pin, self.pout, self.kw, self.alias = pathlib.Path(pin), pathlib.Path(pout), kw, alias
        self.name = f"{self.qualname}[{cfg}]"
        self.fs_spec = Spec([self.pin], [self.pout])
        super().__init__()
        self.inline = set(self.inline) | {"setup_task_paths"} | WRITER_CLASS["inline"]
        self.classes = dict(WRITER_CLASS["classes"])
        self.class_modules = dict(WRITER_CLASS["class_modules"])
        self.callees = dict(self.callees)
        self.callees.update(WRITER_METHODS)
        self.callees.update({"rtdc_copy": RTDC_COPY, "get_command_log": GET_COMMAND_LOG,
                             "assemble_warnings": ASSEMBLE_WARNINGS, "hashfile": HASHFILE, "hashobj": HASHOBJ,
                             "new_dataset": NewDataset()})

    def inputs(self, ctx):
        d = {"path_in": self.pin, "path_out": self.pout, "ret_path": True}
        d.update(self.kw)
        d.update(self.task_kwargs_sym(ctx))
        return d

    def task_kwargs_sym(self, ctx):
        return {}

    # the postcondition of a normal return: the output was published exactly once
    def ensures(self, ctx, old, a, result):
        g = fsghost.ghost_of(ctx)
        outs = [t for (s, t) in g.renamed if os.fspath(t) == os.fspath(norm_out(self.pout))]
        return [("a normal return has published the output exactly once, with no handle left open "
                 "and no failed operation swallowed",
                 z3.BoolVal(len(outs) == 1 and not g.handles and not g.faults and not self.alias)),
                ("the returned path is the requested output path",
                 z3.BoolVal(result is not None and os.fspath(result) == os.fspath(norm_out(self.pout))))]

    def exceptional(self, ctx, old, a, exc):
        # The property does not forbid a task to fail (bad suffix, refused paths,
        # unreadable input, failed operation ...): the rules W/U/R were checked at
        # every operation performed before the exception.
        return z3.BoolVal(True)


class Compress(Task):
    """compress(path_in, path_out): rtdc_copy into '<out>.rtdc~', rename old
    dclab-compress logs, close, append the command log with an RTDCWriter, close,
    rename"""
    path = CLI + "task_compress.py"
    module = "dclab.cli.task_compress"
    qualname = "compress"

    def task_kwargs_sym(self, ctx):
        return {"force": False}


class Repack(Task):
    """repack(path_in, path_out): rtdc_copy into the temporary file, close, rename"""
    path = CLI + "task_repack.py"
    module = "dclab.cli.task_repack"
    qualname = "repack"

    def task_kwargs_sym(self, ctx):
        return {"strip_basins": ctx.bool("strip_basins", inp=True), "strip_logs": ctx.bool("strip_logs", inp=True)}


class CondenseDatasetFx(Contract):
    """condense_dataset(ds, h5_cond, ...) as seen by condense(): writes only through h5_cond"""
    trusted = False      # verified as the unit CondenseDataset below
    name = "condense_dataset"

    def __call__(self, interp, *args, **kw):
        h5 = _kw(args, kw, 1, "h5_cond")
        h5model.note_h5_write(interp, h5, "condense_dataset")
        return None


class Condense(Task):
    """condense(path_in, path_out): condense_dataset into the temporary file, close, rename"""
    path = CLI + "task_condense.py"
    module = "dclab.cli.task_condense"
    qualname = "condense"

    def __init__(self, cfg):
        super().__init__(cfg)
        self.callees["condense_dataset"] = CondenseDatasetFx()

    def task_kwargs_sym(self, ctx):
        return {"store_ancillary_features": ctx.bool("store_ancillary_features", inp=True),
                "store_basin_features": ctx.bool("store_basin_features", inp=True)}


class CondenseDataset(Contract):
    """condense_dataset(ds, h5_cond): every write goes through h5_cond (a handle on
    the temporary file, owned by the caller and left open), and a failed write
    propagates: the function never returns normally after an operation failed --
    otherwise condense() would publish an incomplete file."""
    path = CLI + "task_condense.py"
    module = "dclab.cli.task_condense"
    qualname = "condense_dataset"
    name = "condense_dataset"
    params = ("ds", "h5_cond", "ancillaries", "store_ancillary_features", "store_basin_features", "warnings_list")

    def __init__(self):
        super().__init__()
        self.fs_spec = Spec(["/data/in.rtdc"], ["/data/out.rtdc"])
        self.inline = set(WRITER_CLASS["inline"])
        self.classes = dict(WRITER_CLASS["classes"])
        self.class_modules = dict(WRITER_CLASS["class_modules"])
        self.callees = dict(WRITER_METHODS)
        self.callees.update({"rtdc_copy": RTDC_COPY, "get_command_log": GET_COMMAND_LOG,
                             "assemble_warnings": ASSEMBLE_WARNINGS, "hashobj": HASHOBJ})
        self.loops = {"feat in features": LoopSpec(inv=lambda ctx, v: fsghost.stable_inv(ctx, "features"))}
        self._pending = []
        # over-approximation: the set of features to store is arbitrary
        self.asserts = {
            "logs = {'dclab-condense': common.get_command_log(paths=[ds.path], custom_dict=cmd_dict)}": self.cut_features,
        }

    def cut_features(self, ctx, v):
        lst = ctx.arr("features_to_store", "elem")
        lst.is_list = True
        lst.elem_pytype = str
        self._pending.append((v, "features", lst, z3.BoolVal(True)))
        return []

    def inputs(self, ctx):
        fake = NS({"ctx": ctx})       # the models only use interp.ctx here
        self.fs_spec.inject = False   # the caller opened the files; failures start with the call
        try:
            ds = NewDataset()(fake, pathlib.Path("/data/in.rtdc"))
            h5 = h5model._h5file_model(fake, pathlib.Path("/data/out.rtdc~"), "w")
        finally:
            self.fs_spec.inject = True
        # The feature lists only feed `features` (replaced by an arbitrary list at the
        # cut below) and the command log (opaque): representative concrete lists
        ds.fields.update({"features_scalar": ["deform", "area_um", "volume", "bright_avg", "userdef1"],
                          "features_loaded": ["deform", "area_um", "image"],
                          "features_innate": ["deform", "area_um", "image"],
                          "features_basin": ["userdef1", "mask"], "features_ancillary": ["volume", "bright_avg"]})
        return {"ds": ds, "h5_cond": h5, "ancillaries": None,
                "store_ancillary_features": ctx.bool("store_ancillary_features", inp=True),
                "store_basin_features": ctx.bool("store_basin_features", inp=True),
                "warnings_list": self._wlist(ctx)}

    def _wlist(self, ctx):
        w = ctx.arr("warnings_list", "elem")
        w.is_list = True
        return w

    def ensures(self, ctx, old, a, result):
        g = fsghost.ghost_of(ctx)
        h5 = a.h5_cond
        return [("a normal return means that no operation failed (failures propagate to condense())",
                 z3.BoolVal(not g.faults)),
                ("the caller's handle is left open and no other handle is open",
                 z3.BoolVal([h["obj"] for h in g.handles if h["mode"] != "r"] == [h5]))]

    def exceptional(self, ctx, old, a, exc):
        return z3.BoolVal(True)


# --------------------------------------------------------------------------
# EX-FX, the effect contract of Export.hdf5 used by join / split / tdms2rtdc, checked
# against the real Export.hdf5
# --------------------------------------------------------------------------
import contracts.C02 as _C02   # noqa: E402


class ExportEffects(_C02.ExportHdf5):
    """Export.hdf5(path, ..., override) touches the file system only through `path`: an
    existing file is removed only with override=True (OSError and no effect otherwise),
    every write-capable handle is opened on `path`, and none is open when the call
    returns or raises -- the effect contract EX-FX that the units of join, split and
    tdms2rtdc assume at their call sites."""

    def __init__(self, override):
        super().__init__("hdf5", True)
        self.override = override
        self.name = f"Export.hdf5[effects on the file system, override={override}]"
        for k in ("RTDCWriter", "Writer.__exit__", "Writer.store_metadata", "Writer.store_log", "Writer.store_table",
                  "Writer.store_basin", "Writer.store_feature"):
            self.callees.pop(k, None)
        self.callees.update(WRITER_METHODS)
        self.callees["store_filtered_feature"] = Fx("store_filtered_feature",
                                                    writes=lambda a, k: [_kw(a, k, 0, "rtdc_writer").fields["h5file"]],
                                                    result=None)
        self.classes = dict(self.classes, **WRITER_CLASS["classes"])
        self.class_modules = dict(self.class_modules, **WRITER_CLASS["class_modules"])
        self.inline = set(getattr(self, "inline", ())) | set(WRITER_CLASS["inline"])
        self.fs_spec = Spec(["/data/src.rtdc"], [])
        self.OUT = "/data/out.rtdc~"

    def inputs(self, ctx):
        d = super().inputs(ctx)
        d["path"] = self.OUT
        d["override"] = self.override
        return d

    def _only_out(self, g):
        # (creating the parent directory of `path` is part of the documented behaviour)
        other = [e for e in g.events if e[0] != "FAULT" and os.fspath(e[1]) != self.OUT
                 and not (e[0] == "mkdir" and os.fspath(e[1]) == os.path.dirname(self.OUT))]
        return not other

    def ensures(self, ctx, old, a, result):
        g = fsghost.ghost_of(ctx)
        unl = [e for e in g.events if e[0] == "unlink"]
        return [("a normal return leaves no handle open and no failed operation swallowed",
                 z3.BoolVal(not g.handles and not g.faults)),
                ("every file-system operation targets the given path", z3.BoolVal(self._only_out(g))),
                ("an existing file is removed only on request, at most once and before the file is created",
                 z3.BoolVal(len(unl) <= (1 if self.override else 0)
                            and all(not [x for x in g.events[:g.events.index(e)] if x[0] != "mkdir"] for e in unl))),
                ("the file is created (opened write-capable) exactly once",
                 z3.BoolVal(len([e for e in g.events if e[0] == "open" and e[3] not in ("r", "rb")]) == 1))]

    def exceptional(self, ctx, old, a, exc):
        g = fsghost.ghost_of(ctx)
        refused = exc.name == "OSError" and not g.events and not self.override
        return z3.BoolVal((refused or bool(g.faults)) and not g.handles and self._only_out(g))


UNITS = []
for _cfg in CONFIGS:
    UNITS += [Compress(_cfg), Repack(_cfg), Condense(_cfg)]
UNITS += [CondenseDataset(), ExportEffects(True), ExportEffects(False)]

TRUSTED = [RTDC_COPY, GET_COMMAND_LOG, ASSEMBLE_WARNINGS, HASHFILE, HASHOBJ, NewDataset()] + list(WRITER_METHODS.values())
TRUSTED_BASE = ["EX-FX: Export.hdf5(path, override) removes an existing file only with override=True, creates `path`, writes "
                "through its own RTDCWriter and closes it before returning (effect contract at the call sites; checked against the real "
                "Export.hdf5 by the units Export.hdf5[effects on the file system, ...])",
                "P-RENAME (rename is atomic)", "H-OPEN (an HDF5 file is modified only through handles opened on its path)",
                "a failing operation has no effect on files other than the one it targets"]
ASSUMPTIONS = [
    "path names are concrete representatives (plain, suffix appended, four aliasing cases); "
    "which files exist is symbolic",
    "at most one injected failure per run; after it the code's own exception handling is executed",
    "durability (fsync) and partial effects of a failing write inside the temporary file are not modelled: "
    "the temporary file may hold anything",
]


# --------------------------------------------------------------------------
# join / split / tdms2rtdc: the number of files is fixed per unit (loops over
# files are unrolled), everything else is symbolic
# --------------------------------------------------------------------------
from pyvc.models import ostr   # noqa: E402

FEATS = {"a": ["frame", "index_online", "time", "userdef1"],
         "b": ["frame", "index_online", "time"],
         "c": ["frame", "index_online", "time", "userdef1"]}


class ConfigGetitem(Contract):
    name = "Config.__getitem__"
    trusted = True

    def __call__(self, interp, cfg, key):
        return cfg.fields["_d"][key]


class ConfigTostring(Contract):
    name = "Config.tostring"
    trusted = True

    def __call__(self, interp, cfg, **kw):
        return "[experiment]\nsample = x"


class DataSets(Contract):
    """new_dataset(path) for join/split/tdms2rtdc: a read-only dataset whose
    configuration strings, run index, frame rate and feature data are symbolic;
    the feature *names* are fixed per input (they only select which store calls
    happen)"""
    trusted = True
    name = "new_dataset"

    def __init__(self, n_events=None):
        self.n_events = n_events
        super().__init__()

    def __call__(self, interp, path, *a, **kw):
        ctx = interp.ctx
        unit = interp.cur_frame.unit
        cache = ctx.__dict__.setdefault("_ds_cache", {})
        key = os.fspath(path)
        tag = unit.tags.get(key, "a")
        if key not in cache:
            # acquisition date / time / run index only determine the order in which
            # join() processes its inputs (the effects are the same for every order):
            # fixed, distinct values; sample name and frame rate are symbolic
            ri = {"a": 1, "b": 2, "c": 3}[tag]
            fr = ctx.real("framerate_" + tag)
            ctx.assume(fr.e > 0)
            cfg = {"_d": {"experiment": {"date": "2020-01-01", "time": f"12:00:0{ri}", "run index": ri,
                                         "sample": ostr(ctx.const("sample_" + tag, Elem))},
                          "imaging": {"frame rate": fr}}}
            cache[key] = cfg
        cfg = ctx.obj("Config", dict(cache[key]))
        N = self.n_events if self.n_events is not None else ctx.int("N_" + tag, lo=1)
        ds = ctx.obj("DS", {"path": path, "format": "hdf5", "config": cfg, "_len": N,
                            "features_innate": list(FEATS[tag]), "features": list(FEATS[tag]) + ["volume"],
                            "logs": {"log": opaque(ctx, "log_" + tag)}, "tables": {"tab": opaque(ctx, "tab_" + tag)},
                            "_tag": tag}, name="ds_" + tag)
        ds.fields["export"] = ctx.obj("ExportFx", {"ds": ds}, name="export")
        ds.fields["filter"] = ctx.obj("FilterFx", {"manual": ctx.obj("ManualFx", {})})
        return ds


def _ds_getitem_typed(interp, ds, key):
    ctx = interp.ctx
    if isinstance(key, str) and key in ("time",):
        return ctx.arr("time_data", "real", n=ds.fields["_len"] if not isinstance(ds.fields["_len"], int) else ds.fields["_len"])
    if isinstance(key, str) and key in ("frame", "index_online"):
        return ctx.arr(key + "_data", "int")
    return opaque(ctx, "feature_data")


h5model.OBJ_METHODS[("DS", "__getitem__")] = _ds_getitem_typed
h5model.OBJ_METHODS[("DS", "__contains__")] = lambda interp, ds, key: (
    key in ds.fields["features"] if isinstance(key, str) and isinstance(ds.fields.get("features"), list)
    else interp.ctx.bool("feature_available"))
h5model.OBJ_METHODS[("ManualFx", "__setitem__")] = lambda interp, m, key, val: None

SKIP_EMPTY = Fx("skip_empty_image_events", result=None,
                doc="common.skip_empty_image_events(ds): reads image data, modifies the manual filter in memory only")
PRINT_INFO = Fx("print_info", result=None, doc="prints")


class Join(Contract):
    """join(paths_in, path_out) for 2 and for 3 input files: every input is only
    read; the first input is exported to the temporary file, the others are
    appended through one RTDCWriter, which is closed before the rename."""
    path = CLI + "task_join.py"
    module = "dclab.cli.task_join"
    qualname = "join"
    params = ("paths_in", "path_out", "metadata", "ret_path")
    symbolic_arrays = True

    def __init__(self, n, alias=False):
        self.n, self.alias = n, alias
        self.name = f"join[{n} inputs{', output is the last input' if alias else ''}]"
        self.pins = [pathlib.Path(f"/data/{t}.rtdc") for t in "abc"[:n]]
        self.pout = self.pins[-1] if alias else pathlib.Path("/data/joined.rtdc")
        self.tags = {os.fspath(p): t for p, t in zip(self.pins, "abc")}
        self.fs_spec = Spec(self.pins, [self.pout])
        super().__init__()
        self.inline = {"setup_task_paths"} | WRITER_CLASS["inline"]
        self.classes = dict(WRITER_CLASS["classes"])
        self.class_modules = dict(WRITER_CLASS["class_modules"])
        self.callees = dict(WRITER_METHODS)
        self.callees.update({"get_command_log": GET_COMMAND_LOG, "assemble_warnings": ASSEMBLE_WARNINGS,
                             "new_dataset": DataSets(), "Config.__getitem__": ConfigGetitem(),
                             "Config.tostring": ConfigTostring()})

    def inputs(self, ctx):
        return {"paths_in": [os.fspath(p) for p in self.pins], "path_out": self.pout, "metadata": None,
                "ret_path": True}

    ensures = Task.ensures
    exceptional = Task.exceptional


class Split(Contract):
    """split(path_in, path_out, split_events) for 1 and for 3 parts: every part is
    exported to '<stem>_000i.rtdc~', logs and sample name are added through an
    RTDCWriter that is closed again, and only then are the parts renamed."""
    path = CLI + "task_split.py"
    module = "dclab.cli.task_split"
    qualname = "split"
    params = ("path_in", "path_out", "split_events", "skip_initial_empty_image", "skip_final_empty_image",
              "ret_out_paths", "verbose")

    def __init__(self, n_events, split_events, same_dir):
        self.n_events, self.split_events, self.same_dir = n_events, split_events, same_dir
        self.nparts = -(-n_events // split_events)
        self.name = f"split[{self.nparts} part{'s' if self.nparts != 1 else ''}, " \
                    f"{'next to the input' if same_dir else 'other directory'}]"
        self.pin = pathlib.Path("/data/in.rtdc")
        self.dout = self.pin.parent if same_dir else pathlib.Path("/parts")
        self.outs = [self.dout / f"in_{i + 1:04d}.rtdc" for i in range(self.nparts)]
        self.tags = {os.fspath(self.pin): "a"}
        self.fs_spec = Spec([self.pin], self.outs)
        super().__init__()
        self.inline = set(WRITER_CLASS["inline"])
        self.classes = dict(WRITER_CLASS["classes"])
        self.class_modules = dict(WRITER_CLASS["class_modules"])
        self.callees = dict(WRITER_METHODS)
        self.callees.update({"get_command_log": GET_COMMAND_LOG, "assemble_warnings": ASSEMBLE_WARNINGS,
                             "new_dataset": DataSets(n_events=n_events), "Config.__getitem__": ConfigGetitem(),
                             "skip_empty_image_events": SKIP_EMPTY})

    def inputs(self, ctx):
        return {"path_in": self.pin, "path_out": "SAME" if self.same_dir else self.dout,
                "split_events": self.split_events,
                "skip_initial_empty_image": ctx.bool("skip_initial", inp=True),
                "skip_final_empty_image": ctx.bool("skip_final", inp=True),
                "ret_out_paths": True, "verbose": False}

    def ensures(self, ctx, old, a, result):
        g = fsghost.ghost_of(ctx)
        published = sorted(os.fspath(t) for (s, t) in g.renamed)
        return [("a normal return has published every part exactly once, with no handle left open and no "
                 "failed operation swallowed",
                 z3.BoolVal(published == sorted(os.fspath(p) for p in self.outs) and not g.handles
                            and not g.faults)),
                ("the returned paths are the parts", z3.BoolVal([os.fspath(p) for p in result]
                                                                == [os.fspath(p) for p in self.outs]))]

    exceptional = Task.exceptional


GET_TDMS_FILES = Fx("get_tdms_files", doc="fmt_tdms.get_tdms_files(dir): lists the measurement files (reads the directory)",
                    result=lambda interp, a, k: [pathlib.Path("/data/exp/M1_data.tdms"),
                                                 pathlib.Path("/data/exp/sub/M2_data.tdms")])


class Tdms2rtdc(Contract):
    """tdms2rtdc(path_tdms, path_rtdc) for one file and for a directory with two
    measurements: each measurement is exported to its own temporary file, logs
    are appended through an RTDCWriter that is closed again, then it is renamed."""
    path = CLI + "task_tdms2rtdc.py"
    module = "dclab.cli.task_tdms2rtdc"
    qualname = "tdms2rtdc"
    params = ("path_tdms", "path_rtdc", "compute_features", "skip_initial_empty_image",
              "skip_final_empty_image", "verbose")

    def __init__(self, is_dir):
        self._dir = is_dir
        self.name = f"tdms2rtdc[{'a directory with two measurements' if is_dir else 'one file'}]"
        self.ptdms_file = pathlib.Path("/data/exp/M1_data.tdms")
        self.ptdms_dir = pathlib.Path("/data/exp")
        files = [pathlib.Path("/data/exp/M1_data.tdms"), pathlib.Path("/data/exp/sub/M2_data.tdms")]
        self.prtdc = pathlib.Path("/out/conv")
        self.tags = {os.fspath(files[0]): "a", os.fspath(files[1]): "b"}
        self.outs = [self.prtdc / "M1_data.rtdc", self.prtdc / "sub" / "M2_data.rtdc"] if is_dir \
            else [norm_out(self.prtdc)]
        self.fs_spec = Spec(files + [self.ptdms_dir], self.outs)
        super().__init__()
        self.inline = {"setup_task_paths"} | WRITER_CLASS["inline"]
        self.classes = dict(WRITER_CLASS["classes"])
        self.class_modules = dict(WRITER_CLASS["class_modules"])
        self.callees = dict(WRITER_METHODS)
        self.callees.update({"get_command_log": GET_COMMAND_LOG, "assemble_warnings": ASSEMBLE_WARNINGS,
                             "new_dataset": DataSets(), "skip_empty_image_events": SKIP_EMPTY,
                             "get_tdms_files": GET_TDMS_FILES, "print_info": PRINT_INFO})

    def inputs(self, ctx):
        ex = ctx.__dict__.setdefault("_exists", {})
        ex[os.fspath(self.ptdms_dir)] = True
        ex[os.fspath(self.ptdms_file)] = False     # is_dir() of a file
        ex[os.fspath(self.prtdc)] = False           # the output folder is not a file
        if self._dir:
            # environment: stale outputs / stale temporary files exist for all measurements or for none
            so, st = ctx.bool("stale_outputs_exist", inp=True), ctx.bool("stale_temporaries_exist", inp=True)
            for o in self.outs:
                ex[os.fspath(o)] = so
                ex[os.fspath(o) + "~"] = st
        return {"path_tdms": self.ptdms_dir if self._dir else self.ptdms_file, "path_rtdc": self.prtdc,
                "compute_features": ctx.bool("compute_features", inp=True),
                "skip_initial_empty_image": ctx.bool("skip_initial", inp=True),
                "skip_final_empty_image": ctx.bool("skip_final", inp=True), "verbose": False}

    def ensures(self, ctx, old, a, result):
        g = fsghost.ghost_of(ctx)
        published = sorted(os.fspath(t) for (s, t) in g.renamed)
        want = self.outs
        return [("a normal return has published every converted measurement exactly once, with no handle "
                 "left open and no failed operation swallowed",
                 z3.BoolVal(published == sorted(os.fspath(p) for p in want) and not g.handles and not g.faults))]

    exceptional = Task.exceptional


UNITS += [Join(2), Join(3), Join(2, alias=True),
          Split(2, 3, False), Split(7, 3, False), Split(7, 3, True), Tdms2rtdc(False), Tdms2rtdc(True)]
TRUSTED += [DataSets(), SKIP_EMPTY, GET_TDMS_FILES, ConfigGetitem(), ConfigTostring()]
PARALLEL_UNITS = True
ASSUMPTIONS += ["join: 2 and 3 input files; split: 1 and 3 parts; tdms2rtdc: one file and a directory with two "
                "measurements (the loops over files are unrolled; all data, flags, existing files and failures are "
                "symbolic)"]


# --------------------------------------------------------------------------
# replay on the real code / bounded stand-in: native fault injection
# --------------------------------------------------------------------------
def _scenarios_for(unit_name):
    base = unit_name.split("[")[0]
    if base == "condense_dataset":
        return ["condense"]
    if base in ("compress", "repack", "condense"):
        cfg = unit_name[unit_name.index("[") + 1:-1]
        return {"plain": [base, base + ":stale", base + ":dangling-temp-link"], "suffix appended": [base + ":nosuffix"],
                "suffix appended to a dotted name": [base + ":nosuffix"],
                "output is the input": [base + ":alias"],
                "output becomes the input once the suffix is appended": [base + ":alias-nosuffix"],
                "temporary name is the input": [base + ":alias-temp"],
                "output is the input spelled with '..'": [base + ":alias-dotdot", base + ":alias-symlink"]}[cfg]
    if base == "join":
        return ["join:alias"] if "output is the last input" in unit_name else ["join"]
    if base == "split":
        return ["split", "split:stale-temp"]
    if base == "tdms2rtdc":
        return ["tdms2rtdc"]
    return []


def replay(unit_name, inp, obligation=""):
    """run the real task of this unit natively: observe the file system before
    every write-capable operation (kill points) and let every operation fail in
    turn (for tdms2rtdc: 60 operations spread over the run)"""
    from contracts import c10_native
    names = inp.get("scenarios") if isinstance(inp, dict) and inp.get("scenarios") else _scenarios_for(unit_name)
    details = []
    for nm in names:
        viol, st = c10_native.explore(nm, max_points=60 if nm == "tdms2rtdc" else None)
        if viol:
            return {"failed": True, "detail": "; ".join(viol[:3]), "scenario": nm, "stats": st}
        details.append(st)
    return {"failed": False, "detail": f"no violation at any crash point of {names}", "stats": details}


def bounded_inputs(unit_name, rng):
    yield {"scenarios": _scenarios_for(unit_name)}


def extra_checks(run):
    """bounded layer (never counted as proved): the real tasks are run on small
    files with a failure injected at, and the file system observed before, the
    operations of the run -- quick tier: up to 24 operations per scenario,
    thorough tier: every operation (tdms2rtdc: 400)"""
    import concurrent.futures as cf
    import multiprocessing as mp
    from contracts import c10_native
    quick = run.tier == "quick"
    names = ["compress", "repack", "condense", "join", "split", "tdms2rtdc", "repack:dangling-temp-link", "split:stale-temp"]
    if not quick:
        names = c10_native.scenario_names() + ["tdms2rtdc"]
    jobs = []
    for nm in names:
        ref = c10_native.run(nm)
        if ref.get("skipped"):
            run.extra.setdefault("bounded_standins", []).append(
                {"function": nm, "tool": "native fault injection", "cases": 0, "bound": "skipped: " + ref["skipped"]})
            continue
        n = ref["nops"]
        limit = 24 if quick else (400 if nm == "tdms2rtdc" else n)
        ks = list(range(1, n + 1))
        if len(ks) > limit:
            edge = limit // 4
            mid = [ks[int(i * (len(ks) - 1) / (limit - 2 * edge))] for i in range(limit - 2 * edge)]
            ks = sorted(set(ks[:edge] + mid + ks[-edge:]))
        if ref["violations"]:
            jobs.append((nm, None, ref))
        jobs.append((nm, "observe", ref))
        for k in ks:
            jobs.append((nm, k, ref))
    viol = []
    stats = {}
    with cf.ProcessPoolExecutor(max_workers=min(16, os.cpu_count() or 4), mp_context=mp.get_context("fork")) as ex:
        futs = []
        for nm, k, ref in jobs:
            if k is None:
                viol += [f"{nm}: {v}" for v in ref["violations"]]
                continue
            if k == "observe":
                futs.append((nm, k, ex.submit(c10_native.run, nm, None, True, ref["digests"])))
            else:
                futs.append((nm, k, ex.submit(c10_native.run, nm, k, False, ref["digests"])))
        for nm, k, fu in futs:
            r = fu.result()
            st = stats.setdefault(nm, {"operations": 0, "kill_points_observed": 0, "failures_injected": 0})
            if k == "observe":
                st["operations"] = st["kill_points_observed"] = r["nops"]
            else:
                st["failures_injected"] += 1
            viol += [f"{nm}: {v}" for v in r["violations"]]
    for nm, st in stats.items():
        run.extra.setdefault("bounded_standins", []).append(
            {"function": f"cli task scenario {nm}", "tool": "native fault injection on the real code "
             "(contracts/c10_native.py)", "cases": st["failures_injected"] + st["kill_points_observed"],
             "bound": f"{st['failures_injected']} of {st['operations']} operations failed in turn, "
                      f"file system observed before each of the {st['kill_points_observed']} operations; "
                      "one small input per scenario"})
    if viol:
        import json as _json
        from pyvc.run import HERE
        d = HERE / "replays"
        d.mkdir(exist_ok=True)
        fn = d / "C10-native-fault-injection.json"
        fn.write_text(_json.dumps({"property": "C10", "obligation": "every requested output is absent or complete "
                                   "and every input unchanged at every crash point (bounded layer)",
                                   "violations": viol[:40]}, indent=1))
        print("  native fault injection: " + viol[0][:300])
        run.violations.append(f"VIOLATION property=C10 replay={fn.relative_to(HERE)}")


# --------------------------------------------------------------------------
# split with an arbitrary number of parts (loop invariants instead of unrolling)
# --------------------------------------------------------------------------
IS_TMP = z3.Function("is_temporary_name", Elem, z3.BoolSort())
IS_OUT = z3.Function("is_requested_output", Elem, z3.BoolSort())
IS_IN = z3.Function("is_input", Elem, z3.BoolSort())


def _tok(o):
    return z3.Const(f"obj!{o.uid}", Elem)


class SplitSpec(Spec):
    """roles of the paths split() builds: '<out>/<stem>_%04d.rtdc' is a requested output,
    the same with suffix '.rtdc~' its temporary name; neither can be the input
    '<stem>.rtdc' (the stem is followed by '_NNNN').  Paths held in lists are opaque
    values whose roles are the predicates IS_TMP / IS_OUT / IS_IN."""

    def structural(self, p):
        suf = p.fields.get("suffix")
        name = p.fields.get("name")
        named = isinstance(name, models.SFmt) and len(name.parts) >= 3 and name.parts[0].endswith("_") \
            and isinstance(name.parts[-1], str) and name.parts[-1] == ".rtdc"
        is_tmp = suf == ".rtdc~" and named
        is_out = suf is None and named
        return is_tmp, is_out

    def role_sym(self, ctx, path):
        is_tmp, is_out = self.structural(path)
        return z3.BoolVal(False), z3.BoolVal(bool(is_out)), z3.BoolVal(bool(is_tmp))

    def role(self, ctx, path):
        if isinstance(path, SOpaque):
            return IS_IN(path.e), IS_OUT(path.e), IS_TMP(path.e)
        return super().role(ctx, path)

    def show(self, path):
        if isinstance(path, SOpaque):
            return f"<{path.e}>"
        if isinstance(path, SObj):
            return f"<part{'~' if path.fields.get('suffix') == '.rtdc~' else ''}>"
        return super().show(path)


def _pathlib_path(interp, p=".", *more):
    """pathlib.Path(x) of a path value that is already a (symbolic) path"""
    import pathlib as _pl
    if isinstance(p, (SObj, SOpaque)) and not more:
        return p
    return _pl.Path(p, *more)


models._MODELS[pathlib.Path] = _pathlib_path


class SplitAnyCount(Contract):
    """split(path_in, path_out, split_events) for any number of events and any split size:
    every write-capable operation targets a temporary name, every rename publishes a
    closed, completely written part and happens after all writing, the input is only read --
    by loop invariants over the lists of part names (their entries are temporary names /
    requested outputs, never the input) and over the ghost file-system state."""
    path = CLI + "task_split.py"
    module = "dclab.cli.task_split"
    qualname = "split"
    name = "split[any number of parts]"
    params = Split.params

    def __init__(self):
        self.pin = pathlib.Path("/data/in.rtdc")
        self.tags = {os.fspath(self.pin): "a"}
        self.fs_spec = SplitSpec([self.pin], [])
        super().__init__()
        self.inline = set(WRITER_CLASS["inline"])
        self.classes = dict(WRITER_CLASS["classes"])
        self.class_modules = dict(WRITER_CLASS["class_modules"])
        self.callees = dict(WRITER_METHODS)
        self.callees.update({"get_command_log": GET_COMMAND_LOG, "assemble_warnings": ASSEMBLE_WARNINGS,
                             "new_dataset": DataSets(), "Config.__getitem__": ConfigGetitem(),
                             "skip_empty_image_events": SKIP_EMPTY})
        fresh = self.fresh_list
        self.loops = {
            "ii in range(num_files)": LoopSpec(inv=self.inv1, kinds={"paths_gen": fresh, "paths_temp": fresh}),
            "(ii, pt) in enumerate(paths_temp)": LoopSpec(inv=lambda ctx, v: fsghost.stable_inv(ctx, "log loop")),
            "(pt, pp) in zip(paths_temp, paths_gen)": LoopSpec(inv=lambda ctx, v: fsghost.stable_inv(ctx, "rename loop")),
        }

    @staticmethod
    def fresh_list(ctx):
        lst = ctx.arr("paths", "elem")
        lst.is_list = True
        lst.elem_pytype = "path"
        return lst

    def on_sympath(self, ctx, o):
        is_tmp, is_out = self.fs_spec.structural(o)
        t = _tok(o)
        ctx.assume(z3.And(IS_TMP(t) == z3.BoolVal(bool(is_tmp)), IS_OUT(t) == z3.BoolVal(bool(is_out)), z3.Not(IS_IN(t))))

    def inputs(self, ctx):
        return {"path_in": self.pin, "path_out": pathlib.Path("/parts"), "split_events": ctx.int("split_events", lo=1, inp=True),
                "skip_initial_empty_image": ctx.bool("skip_initial", inp=True),
                "skip_final_empty_image": ctx.bool("skip_final", inp=True), "ret_out_paths": False, "verbose": False}

    def roles(self, lst, n, tmp):
        j = z3.Int("j!sp")
        if isinstance(lst, list):
            return z3.BoolVal(len(lst) == 0)
        e = lst.sel(j)
        body = z3.And(IS_TMP(e), z3.Not(IS_IN(e)), z3.Not(IS_OUT(e))) if tmp else z3.And(IS_OUT(e), z3.Not(IS_IN(e)), z3.Not(IS_TMP(e)))
        return z3.And(lst.n == n, z3.ForAll([j], z3.Implies(z3.And(j >= 0, j < n), body)))

    def inv1(self, ctx, v):
        it = to_z3(v.it)
        return [("every name collected so far is a temporary name (paths_temp) / a requested output (paths_gen), none is the input",
                 z3.And(self.roles(v.paths_temp, it, True), self.roles(v.paths_gen, it, False)))] \
            + fsghost.stable_inv(ctx, "export loop")

    def ensures(self, ctx, old, a, result):
        g = fsghost.ghost_of(ctx)
        return [("a normal return leaves no handle open and has swallowed no failed operation",
                 z3.BoolVal(not g.handles and not g.faults))]

    exceptional = Task.exceptional


UNITS += [SplitAnyCount()]
