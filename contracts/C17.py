"""C17 — cached computations are indistinguishable from fresh ones."""
import numpy as np
import z3

from pyvc import h5model, npmodel, models   # noqa: F401
from pyvc.contract import Contract
from pyvc.engine import LoopSpec, NS, Closure
from pyvc.h5model import new_dataset
from pyvc.models import SFmt, BytesOf, EncodedStr
from pyvc.sym import seq_eq, SArr, SObj, SInt, SBool, SOpaque, Elem, And, Or, Not, Implies, Z, to_z3, wrap

CACHED = "dclab/cached.py"
CMOD = "dclab.cached"


# ---------------------------------------------------------------- the specified key
def spec_stream(func, args, kwargs):
    """The framed update sequence the cache key must be the digest of: for every
    positional argument, then for every keyword (sorted by name) its name and its
    value, then the function's name, doc string and file name; every payload is
    preceded by a header "<kind> <length>:" where <kind> is the type name (for
    arrays: dtype and shape), so that the concatenated byte stream determines the
    sequence (length-prefixed framing, A-FRAME) and arrays with equal bytes but
    different dtype or shape get different keys."""
    out = []

    def one(x):
        if isinstance(x, SArr) and not getattr(x, "is_list", False):
            out.append(("header", "ndarray", x))
            out.append(("bytes", x))
        elif isinstance(x, list):
            out.append(("header", "list", len(x)))
            out.append(("str", str(len(x))))
            for y in x:
                one(y)
        else:
            out.append(("header", type_name(x), x))
            out.append(("str", x))
    for a in args:
        one(a)
    for k in sorted(kwargs):
        one(k)
        one(kwargs[k])
    one(func.fields["__name__"])
    one(func.fields["__doc__"])
    one(func.fields["__code__"].fields["co_filename"])
    return out


def type_name(x):
    if isinstance(x, (bool, SBool)):
        return "bool"
    if isinstance(x, (int, SInt)):
        return "int"
    if isinstance(x, str):
        return "str"
    if x is None:
        return "NoneType"
    return type(x).__name__


def check_stream(stream, spec):
    """structural obligations on the hasher's update sequence; returns a list of
    (name, formula) -- a mismatch is the formula False with the reason in the name"""
    posts = []
    if len(stream) != len(spec):
        return [(f"update sequence has {len(stream)} entries; the framed key of these arguments has "
                 f"{len(spec)} (one header and one payload per item)", z3.BoolVal(False))]
    for i, (tok, sp) in enumerate(zip(stream, spec)):
        if sp[0] == "header":
            nxt = stream[i + 1]
            if isinstance(tok, bytes):
                # fully concrete item (e.g. a keyword name): "<kind> <len>:" followed by len bytes
                import re
                m = re.fullmatch(rb"(\S+) (\d+):", tok)
                ok = bool(m) and m.group(1).decode() == sp[1] and isinstance(nxt, bytes) \
                    and int(m.group(2)) == len(nxt)
                posts.append((f"update {i} is a header with the kind {sp[1]!r} and the payload length",
                              z3.BoolVal(ok)))
                continue
            if not (isinstance(tok, EncodedStr) and isinstance(tok.s, SFmt)):
                posts.append((f"update {i} is a header '<kind> <length>:'", z3.BoolVal(False)))
                continue
            parts = tok.s.parts
            text = "".join(p if isinstance(p, str) else "\0" for p in parts)
            fields = [p for p in parts if not isinstance(p, str)]
            ok = text.startswith(sp[1] + " ") and text.endswith("\0:") and fields
            posts.append((f"update {i} is a header starting with the kind {sp[1]!r} and ending with the "
                          "payload length", z3.BoolVal(bool(ok))))
            if ok:
                ln = fields[-1]
                posts.append((f"header {i} carries the length of its payload",
                              z3.BoolVal(getattr(ln, "len_of", None) is nxt)))
            if sp[1] == "ndarray":
                arr = sp[2]
                dts = np.dtype(arr.dtype).str
                has_shape = any(isinstance(p, tuple) and p[0] == "struct" for p in parts)
                posts.append((f"array header {i} contains the dtype {dts!r} and the shape",
                              z3.BoolVal(dts in text and has_shape)))
        elif sp[0] == "bytes":
            posts.append((f"update {i} is the raw data of the array argument",
                          z3.BoolVal(isinstance(tok, BytesOf) and getattr(tok.arr, "uid_src", None) == sp[1].uid)))
        else:
            want = sp[1]
            if isinstance(tok, bytes):
                posts.append((f"update {i} is the text {want!r}",
                              z3.BoolVal(isinstance(want, (str, bool, int)) and tok == str(want).encode())))
                continue
            if not isinstance(tok, EncodedStr):
                posts.append((f"update {i} is the encoded str() of the argument", z3.BoolVal(False)))
                continue
            got = tok.s
            if isinstance(want, str):
                posts.append((f"update {i} is the text {want!r}", z3.BoolVal(got == want)))
            else:
                same = isinstance(got, SFmt) and len(got.parts) == 1 and got.parts[0] is want
                posts.append((f"update {i} is str() of the argument value", z3.BoolVal(bool(same))))
    return posts


class FuncStub(Contract):
    """the decorated function: a deterministic function of its arguments (A-DET)"""
    name = "FuncStub.__call__"
    trusted = True

    def __call__(self, interp, fobj, *args, **kwargs):
        fobj.fields["_calls"].append((args, kwargs))
        return fobj.fields["_fresh"]


class CacheCall(Contract):
    """Cache.__call__(*args, **kwargs): (1) the key is the digest of the framed
    encoding of (args, sorted kwargs with names, function name/doc/file); (2) a
    stored key returns the stored result without calling the function, otherwise
    the function is called exactly once with the given arguments, its result is
    returned and stored, and the oldest entry is evicted when more than MAX_SIZE
    keys are held (keys list == keys of the dict, FIFO)."""
    path = CACHED
    module = CMOD
    qualname = "Cache.__call__"
    classes = {"Cache": (CACHED, "Cache"), "CacheClass": (CACHED, "Cache")}
    class_modules = {"Cache": CMOD, "CacheClass": CMOD}
    inline = {"Cache._update_hash", "Cache._update_hash_framed", "Cache._handout", "CacheClass._handout"}
    params = ("self", "args", "kwargs")

    def __init__(self, scenario):
        self.scenario = scenario
        self.name = f"Cache.__call__[{scenario}]"
        super().__init__()
        self.callees = {"FuncStub.__call__": FuncStub()}

    def get_globals(self):
        gl = super().get_globals()
        gl["Cache"] = self._cls
        gl["MAX_SIZE"] = 2          # scenario: capacity 2 (the FIFO logic does not depend on the number)
        return gl

    def inputs(self, ctx):
        a = ctx.arr("a", "F", inp=True, dtype=np.dtype("float64"))
        b = ctx.arr("b", "real", inp=True, dtype=np.dtype("float32"))
        for x in (a, b):
            x.item_shape = ()
        samples = ctx.int("samples", inp=True)
        flag = ctx.bool("ret_idx", inp=True)
        code = ctx.obj("Code", {"co_filename": "/x/downsampling.pyx"})
        # the function's result: a tuple of two arrays (as downsample_grid returns)
        rx = ctx.arr("result_x", "F", dtype=np.dtype("float64"))
        ry = ctx.arr("result_y", "F", dtype=np.dtype("float64"))
        for x in (rx, ry):
            x.item_shape = ()
        fresh = (rx, ry)
        func = ctx.obj("FuncStub", {"__name__": "downsample_grid", "__doc__": "Content-based downsampling",
                                    "__code__": code, "_calls": [], "_fresh": fresh}, name="func")
        self_ = ctx.obj("Cache", {"func": func}, name="self")
        args = (a, b, samples)
        kwargs = {"ret_idx": flag, "remove_invalid": False}
        self._g = NS(dict(args=args, kwargs=kwargs, func=func, fresh=fresh))
        old1 = SOpaque(ctx.const("old_result_1", Elem))
        old2 = SOpaque(ctx.const("old_result_2", Elem))
        k1, k2 = ("digest", "other-1"), ("digest", "other-2")
        self._g.olds = {k1: old1, k2: old2}
        cache = {k1: old1, k2: old2}
        keys = [k1, k2]
        if self.scenario == "hit":
            # the cache already holds an entry whose key equals the key of this call
            # (EqualKey compares equal to any digest: "the stored key is this call's key")
            class EqualKey(tuple):
                _pyvc_equal_any = True

                def __eq__(s, o):
                    return True

                def __hash__(s):
                    return 0
            hk = EqualKey(("digest", "same-as-this-call"))
            self._g.hit_key = hk
            sx = ctx.arr("stored_x", "F", dtype=np.dtype("float64"))
            sy = ctx.arr("stored_y", "F", dtype=np.dtype("float64"))
            for x in (sx, sy):
                x.item_shape = ()
            self._g.hit_val = (sx, sy)
            cache = {k1: old1, hk: self._g.hit_val}
            keys = [k1, hk]
        self._cls = ctx.obj("CacheClass", {"_cache": cache, "_keys": keys}, name="Cache")
        self._g.cls = self._cls
        return {"self": self_, "args": args, "kwargs": kwargs}

    def ensures(self, ctx, old, a, result):
        g = self._g
        loc = self._last_locals
        hasher = a.self.fields.get("ahash")
        posts = []
        if hasher is None:
            return [("a hasher was created", z3.BoolVal(False))]
        posts += check_stream(hasher.fields["stream"], spec_stream(g.func, g.args, g.kwargs))
        ref = loc.get("ref")
        cache, keys = g.cls.fields["_cache"], g.cls.fields["_keys"]
        def handed_out(res, stored):
            """the caller gets arrays with the stored values that are not the stored objects (nor views of them)"""
            ok = isinstance(res, tuple) and len(res) == len(stored) and all(
                isinstance(r, SArr) and r is not s_ and r.root() is not s_.root() for r, s_ in zip(res, stored))
            if not ok:
                return z3.BoolVal(False)
            return z3.And(*[seq_eq(r, s_) for r, s_ in zip(res, stored)])
        if self.scenario == "hit":
            posts.append(("hit: the function is not called, the cache is unchanged",
                          z3.BoolVal(not g.func.fields["_calls"] and len(keys) == 2 and len(cache) == 2
                                     and any(v is g.hit_val for v in cache.values()))))
            posts.append(("hit: the stored values are returned as arrays of the caller's own", handed_out(result, g.hit_val)))
            return posts
        posts.append(("miss: the function is called exactly once with the given arguments",
                      z3.BoolVal(len(g.func.fields["_calls"]) == 1
                                 and g.func.fields["_calls"][0][0] == g.args
                                 and g.func.fields["_calls"][0][1] == g.kwargs)))
        posts.append(("miss: the fresh result is stored under the key", z3.BoolVal(cache.get(ref) is g.fresh)))
        posts.append(("miss: the fresh values are returned as arrays of the caller's own", handed_out(result, g.fresh)))
        posts.append(("FIFO: at most MAX_SIZE keys, the oldest evicted, keys list == keys of the dict",
                      z3.BoolVal(len(keys) == 2 and keys[-1] is ref and keys[0] == ("digest", "other-2")
                                 and set(map(id, keys)) == set(map(id, cache.keys())))))
        return posts

    def post(self, ctx, st):
        self._last_locals = st.frame.locals
        return super().post(ctx, st)


UNITS = [CacheCall("miss"), CacheCall("hit")]
TRUSTED = []
TRUSTED_BASE = [
    "A-HASH: md5 is injective on the update sequences it is given",
    "A-FRAME: a sequence of (header '<kind> <length>:', payload of that length) pairs is uniquely "
    "decodable from its concatenation (length-prefixed framing); audited by brute force on small alphabets",
    "N-RAWBYTES: arrays of equal dtype and shape have equal raw bytes iff their values are equal",
]
ASSUMPTIONS = ["kernel density estimators and downsample_grid are deterministic functions of their arguments (A-DET)"]


# ---------------------------------------------------------------- replay on the real code
def _adversarial_calls():
    """pairs of calls that must not share a cache entry"""
    import numpy as np
    a32 = np.arange(8, dtype=np.float32)
    a64 = a32.view(np.float64)
    yield "same bytes, different dtype", ((a32, a32), {}), ((a64, a64), {})
    yield "same bytes, different shape", ((a32.reshape(2, 4), a32), {}), ((a32, a32), {})
    yield "positional scalars without delimiter (5, 10) vs (51, 0)", ((a32, a32, 5, 10), {}), ((a32, a32, 51, 0), {})
    yield "same values on different keywords", ((a32, a32), {"n": 1}), ((a32, a32), {"flag": 1})
    yield "keyword vs positional boundary", ((a32, a32), {"n": 10}), ((a32, a32, 1), {"n": 0}) if False else ((a32, a32), {"n": 1, "flag": 0})
    big1 = np.arange(3000, dtype=float)
    big2 = big1.copy()
    big2[1500] = -1
    yield "large arrays differing in the middle (keyword)", ((), {"a": big1, "b": big1}), ((), {"a": big2, "b": big2})
    sq = np.arange(16, dtype=float).reshape(4, 4)
    yield "a square array and its transposed view (same memory, other values)", ((sq, a32), {}), ((sq.T, a32), {})
    yield "a C-ordered array and its Fortran-ordered copy of the transpose", ((sq, a32), {}), ((np.asfortranarray(sq.T), a32), {})
    yield "an array and its reversed view", ((a32, a32), {}), ((a32[::-1], a32), {})


def replay(unit_name, inp, obligation=""):
    import numpy as np
    if unit_name.startswith("Cache.__call__"):
        from dclab import cached
        cached.Cache.clear_cache()

        @cached.Cache
        def f(a=None, b=None, n=0, flag=False):
            "doc"
            a = np.asarray(a)
            return (a.dtype.str, a.shape, float(np.sum(a)), n, flag, [float(v) for v in a.reshape(-1)[:3]])
        for what, (a1, k1), (a2, k2) in _adversarial_calls():
            try:
                r1 = f(*a1, **k1)
                r2 = f(*a2, **k2)
            except Exception as ex:
                return {"failed": True, "detail": f"Cache raised {type(ex).__name__}: {ex} for {what}"}
            fresh2 = f.func(*a2, **k2)
            if r2 != fresh2:
                return {"failed": True, "detail": f"{what}: the second call returned the cached result of the "
                                                  f"first call {r2!r} instead of {fresh2!r}"}
        # eviction / repeated calls
        cached.Cache.clear_cache()
        for i in range(cached.MAX_SIZE + 20):
            if f(np.arange(3.0), np.arange(3.0), i) != f.func(np.arange(3.0), np.arange(3.0), i):
                return {"failed": True, "detail": f"wrong result for call {i} across eviction"}
        if len(cached.Cache._keys) > cached.MAX_SIZE or set(cached.Cache._keys) != set(cached.Cache._cache):
            return {"failed": True, "detail": "cache bookkeeping: keys list and dict differ or exceed MAX_SIZE"}
        return {"failed": False, "detail": "no collision among the adversarial calls"}
    if "ownership" in unit_name:
        return _replay_ownership(unit_name)
    if unit_name.startswith("ignore_nan_inf"):
        import numpy as np
        from dclab import kde_methods, cached
        cached.Cache.clear_cache()
        rng = np.random.RandomState(4)
        x, y = rng.normal(size=80), rng.normal(size=80)
        for nm in ("kde_histogram", "kde_gauss", "kde_multivariate"):
            fn = getattr(kde_methods, nm)
            d1 = fn(x.copy(), y.copy())
            ref = np.array(d1, copy=True)
            try:
                d1 /= d1.max()
                d1[0] = -5
            except ValueError:
                pass
            d2 = fn(x.copy(), y.copy())
            if not np.allclose(d2, ref, equal_nan=True):
                return {"failed": True, "detail": f"{nm}: modifying the returned density in place changed the "
                                                  f"result of the next identical call (max {np.nanmax(d2)} vs {np.nanmax(ref)})"}
        return {"failed": False, "detail": "KDE results are fresh arrays"}
    if unit_name.startswith("file_monitoring_lru_cache"):
        import os, pathlib, tempfile
        from dclab import util
        with tempfile.TemporaryDirectory(prefix="c17_") as td:
            p = pathlib.Path(td) / "f.bin"
            p.write_bytes(b"a" * 100)
            h1 = util.hashfile(p)
            st = p.stat()
            p.write_bytes(b"b" * 150)                   # different size ...
            os.utime(p, ns=(st.st_atime_ns, st.st_mtime_ns))   # ... same modification time
            h2 = util.hashfile(p)
            want = util.hashfile.__wrapped__(p)
            if h2 != want:
                return {"failed": True, "detail": "hashfile returned the stale hash of the old content after the "
                                                  "file changed its size but kept its mtime"}
            p.write_bytes(b"c" * 150)                   # same size, new mtime
            os.utime(p, ns=(st.st_atime_ns, st.st_mtime_ns + 1))
            if util.hashfile(p) != util.hashfile.__wrapped__(p):
                return {"failed": True, "detail": "hashfile returned a stale hash after the mtime changed"}
        return {"failed": False, "detail": "file-hash cache follows size and mtime"}
    return {"failed": None, "detail": "no replay for " + unit_name}


def _replay_ownership(unit_name):
    """modify whatever the dataset interface hands out, then read again"""
    import pathlib, tempfile, warnings
    import h5py, numpy as np
    import dclab
    with tempfile.TemporaryDirectory(prefix="c17_") as td, warnings.catch_warnings():
        warnings.simplefilter("ignore")
        data = np.linspace(0.01, 0.2, 7)
        if unit_name.startswith("H5ScalarEvent"):
            from dclab.rtdc_dataset.fmt_hdf5.events import H5ScalarEvent
            with h5py.File(pathlib.Path(td) / "t.h5", "w") as h5:
                ev = H5ScalarEvent(h5.create_dataset("deform", data=data))
                feat = ev
                return _try_modify(feat, data, "H5ScalarEvent")
        ds = dclab.new_dataset({"deform": data.copy(), "area_um": np.arange(7.0)})
        child = dclab.new_dataset(ds)
        return _try_modify(child["deform"], data, "ChildScalar")


def _try_modify(feat, data, what):
    import numpy as np
    for how, get in (("[:]", lambda: feat[:]), ("[1:4]", lambda: feat[1:4]),
                     ("np.asarray", lambda: np.asarray(feat)), ("__array__()", lambda: feat.__array__())):
        x = get()
        try:
            x[0] = 99.0
        except ValueError:
            continue          # read-only: modification is refused
        after = np.array(feat[:], copy=True)
        if not np.array_equal(after, data):
            return {"failed": True, "detail": f"{what}: writing to the result of {how} changed what later reads "
                                              f"return: {after.tolist()} instead of {data.tolist()}"}
    return {"failed": False, "detail": f"{what}: results cannot be used to alter later reads"}


def bounded_inputs(unit_name, rng):
    yield {}


# ---------------------------------------------------------------- ownership of cached arrays
H5EV = "dclab/rtdc_dataset/fmt_hdf5/events.py"
HIEV = "dclab/rtdc_dataset/fmt_hierarchy/events.py"
FB = "dclab/rtdc_dataset/feat_basin.py"


def no_writable_alias(result, cached):
    """the result does not share storage with the cached array, or is read-only"""
    if not isinstance(result, SArr) or cached is None:
        return True
    return not (result.root() is cached.root() and result.writeable)


class OwnBase(Contract):
    params = ("self", "idx")

    def access_inputs(self, ctx, n):
        if self.access == "slice":
            lo, hi = ctx.int("lo", inp=True), ctx.int("hi", inp=True)
            ctx.assume(z3.And(0 <= lo.e, lo.e <= hi.e, hi.e <= n))
            return slice(lo, hi)
        if self.access == "all":
            return slice(None)
        idx = ctx.int("idx", inp=True)
        ctx.assume(z3.And(idx.e >= 0, idx.e < n))
        return idx


class H5ScalarOwnership(OwnBase):
    """what H5ScalarEvent hands out ([i], [a:b], [:], __array__()) is never a
    writable alias of its cached array: modifying a result cannot change what
    later calls return; the values are the dataset's values."""
    path = H5EV
    module = "dclab.rtdc_dataset.fmt_hdf5.events"
    classes = {"H5ScalarEvent": (H5EV, "H5ScalarEvent")}
    class_modules = {"H5ScalarEvent": "dclab.rtdc_dataset.fmt_hdf5.events"}
    inline = {"H5ScalarEvent.__array__"}

    def __init__(self, access, cached):
        self.access, self.cached = access, cached
        self.qualname = "H5ScalarEvent.__array__" if access == "array" else "H5ScalarEvent.__getitem__"
        self.name = f"{self.qualname}[{access},{'cached' if cached else 'first access'}] ownership"
        if access == "array":
            self.params = ("self",)
        super().__init__()

    def inputs(self, ctx):
        c = ctx.arr("stored", "F", inp=True, dtype=np.dtype("float64"))
        c.item_shape = ()
        ds = new_dataset(ctx, c, dtype=np.dtype("float64"), name="/events/deform")
        cached = None
        if self.cached:
            # class invariant after the first access: the cache holds the values, read-only
            cached = SArr(c.n, c.a, "F", dtype=c.dtype, writeable=False)
            cached.item_shape = ()
        self_ = ctx.obj("H5ScalarEvent", {"h5ds": ds, "_array": cached, "_ufunc_attrs": {}, "ndim": 1},
                        name="self")
        self._c = c
        if self.access == "array":
            return {"self": self_}
        return {"self": self_, "idx": self.access_inputs(ctx, c.n)}

    def ensures(self, ctx, old, a, result):
        cached = a.self.fields["_array"]
        posts = [("no writable alias of the cached array is handed out",
                  z3.BoolVal(no_writable_alias(result, cached))),
                 ("class invariant: the cache is read-only and holds the dataset's values",
                  z3.BoolVal(cached is not None and not cached.writeable))]
        k = z3.Int("k!p")
        if cached is not None:
            posts.append(("cache == content", z3.And(cached.n == self._c.n,
                                                     z3.ForAll([k], z3.Implies(z3.And(k >= 0, k < cached.n),
                                                                               cached.sel(k) == self._c.sel(k))))))
        return posts


class ChildScalarOwnership(OwnBase):
    """same for ChildScalar (hierarchy children)"""
    path = HIEV
    module = "dclab.rtdc_dataset.fmt_hierarchy.events"
    classes = {"ChildScalar": (HIEV, "ChildScalar")}
    class_modules = {"ChildScalar": "dclab.rtdc_dataset.fmt_hierarchy.events"}
    inline = {"ChildScalar.__array__"}

    def __init__(self, access):
        self.access = access
        self.qualname = "ChildScalar.__array__" if access == "array" else "ChildScalar.__getitem__"
        self.name = f"{self.qualname}[{access}] ownership"
        if access == "array":
            self.params = ("self",)
        super().__init__()

        class PG(Contract):
            name = "Parent.__getitem__"
            trusted = True

            def __call__(s, interp, parent, key):
                return parent.fields["feats"][key]
        self.callees = {"Parent.__getitem__": PG()}

    def inputs(self, ctx):
        pdata = ctx.arr("parent_data", "F", inp=True, dtype=np.dtype("float64"))
        pdata.item_shape = ()
        filt = ctx.arr("parent_filter", "bool", inp=True)
        ctx.assume(filt.n == pdata.n)
        parent = ctx.obj("Parent", {"feats": {"deform": pdata},
                                    "filter": ctx.obj("Filter", {"all": filt})}, name="hparent")
        child = ctx.obj("Child", {"hparent": parent}, name="child")
        self_ = ctx.obj("ChildScalar", {"child": child, "feat": "deform", "_array": None,
                                        "_ufunc_attrs": {}, "ndim": 1}, name="self")
        self._pdata = pdata
        if self.access == "array":
            return {"self": self_}
        n = ctx.int("n_child", lo=0)
        return {"self": self_, "idx": slice(None) if self.access == "all" else slice(0, 1)}

    def ensures(self, ctx, old, a, result):
        cached = a.self.fields["_array"]
        return [("no writable alias of the cached array is handed out",
                 z3.BoolVal(no_writable_alias(result, cached))),
                ("no writable alias of the parent's data is handed out",
                 z3.BoolVal(no_writable_alias(result, self._pdata))),
                ("the cache is read-only", z3.BoolVal(cached is not None and not cached.writeable))]


UNITS += [H5ScalarOwnership(a, c) for a in ("int", "slice", "all", "array") for c in (False, True)]
UNITS += [ChildScalarOwnership(a) for a in ("slice", "all", "array")]


# ---------------------------------------------------------------- KDE wrapper: fresh result
KDE = "dclab/kde_methods.py"


class KdeStub(Contract):
    """the wrapped (cached) estimator: returns its cached array object"""
    name = "KdeStub.__call__"
    trusted = True

    def __call__(self, interp, stub, ev_x, ev_y, xo=None, yo=None, *a, **k):
        stub.fields["_args"] = (ev_x, ev_y, xo, yo)
        n = ev_x.n if xo is None else xo.n
        r = interp.ctx.arr("cached_density", "real", n=n, dtype=np.dtype("float64"))
        r.item_shape = ()
        stub.fields["_cached"] = r
        return r


class IgnoreNanInf(Contract):
    """ignore_nan_inf(kde).new_kde_method(events_x, events_y): the estimator gets
    exactly the finite pairs (x with x, y with y); the result is a fresh array
    (never the estimator's cached array), holds the estimator's values at the
    finite positions and NaN elsewhere."""
    path = KDE
    module = "dclab.kde_methods"
    name = "ignore_nan_inf.<locals>.new_kde_method[scatter]"
    qualname = "ignore_nan_inf.<locals>.new_kde_method"
    inline = {"get_bad_vals"}
    params = ("events_x", "events_y", "xout", "yout")

    def __init__(self):
        super().__init__()
        self.callees = {"KdeStub.__call__": KdeStub()}

    def get_globals(self):
        gl = super().get_globals()
        gl["kde_method"] = self._stub
        return gl

    def inputs(self, ctx):
        x = ctx.arr("events_x", "F", inp=True, dtype=np.dtype("float64"))
        y = ctx.arr("events_y", "F", n=x.n, inp=True, dtype=np.dtype("float64"))
        x.item_shape = y.item_shape = ()
        self._stub = ctx.obj("KdeStub", {}, name="kde_method")
        self._g = NS(dict(x=x, y=y))
        return {"events_x": x, "events_y": y, "xout": None, "yout": None}

    def ensures(self, ctx, old, a, result):
        from pyvc.sym import F
        g = self._g
        cached = self._stub.fields.get("_cached")
        args = self._stub.fields.get("_args")
        posts = [("the result is not the estimator's cached array (nor a view of it)",
                  z3.BoolVal(isinstance(result, SArr) and cached is not None
                             and result.root() is not cached.root())),
                 ("result has one density per event", result.n == g.x.n if isinstance(result, SArr) else z3.BoolVal(False))]
        if args is not None:
            ex, ey, xo, yo = args
            k = z3.Int("k!p")
            bad = lambda i: z3.Or(z3.Not(F.is_fin(g.x.sel(i))), z3.Not(F.is_fin(g.y.sel(i))))   # noqa
            idx = getattr(ex, "sel_idx", None)
            idy = getattr(ey, "sel_idx", None)
            posts.append(("the estimator receives x and y restricted by the same finite-mask",
                          z3.BoolVal(idx is not None and idy is not None and idx is idy and xo is None and yo is None)))
            if idx is not None:
                posts.append(("the estimator receives exactly the finite pairs, in order",
                              z3.ForAll([k], z3.Implies(z3.And(k >= 0, k < ex.n),
                                                        z3.And(ex.sel(k) == g.x.sel(idx.sel(k)),
                                                               ey.sel(k) == g.y.sel(idx.sel(k)),
                                                               z3.Not(bad(idx.sel(k))))))))
        return posts


UNITS += [IgnoreNanInf()]


# ---------------------------------------------------------------- file-hash cache key
UTIL = "dclab/util.py"


class RecordingStub(Contract):
    trusted = True

    def __init__(self, name):
        self.name = name
        super().__init__()

    def __call__(self, interp, stub, *a, **k):
        stub.fields["_calls"].append((a, k))
        return stub.fields["_ret"]


class FileMonitoringKey(Contract):
    """file_monitoring_lru_cache(...)(func).wrapper(path, *args): for an existing
    file the memoised function is called with the resolved path, the pair
    (st_mtime_ns, st_size) of that file and all further arguments, so the lru key
    covers them (a modification that changes mtime_ns or size misses the cache,
    A-MTIME); for a missing file nothing is cached."""
    path = UTIL
    module = "dclab.util"
    name = "file_monitoring_lru_cache.__call__.<locals>.wrapper"
    qualname = "file_monitoring_lru_cache.__call__.<locals>.wrapper"
    params = ("path", "args", "kwargs")

    def __init__(self):
        super().__init__()
        self.callees = {"CachedWrapper.__call__": RecordingStub("CachedWrapper.__call__"),
                        "Func.__call__": RecordingStub("Func.__call__")}

    def get_globals(self):
        gl = super().get_globals()
        gl["cached_wrapper"] = self._cw
        gl["func"] = self._func
        return gl

    def inputs(self, ctx):
        self._cw = ctx.obj("CachedWrapper", {"_calls": [], "_ret": "CACHED"})
        self._func = ctx.obj("Func", {"_calls": [], "_ret": "UNCACHED"})
        self._blocksize = ctx.int("blocksize", inp=True)
        return {"path": "/data/file.rtdc", "args": (self._blocksize,), "kwargs": {"count": 3}}

    def ensures(self, ctx, old, a, result):
        import pathlib
        calls = self._cw.fields["_calls"]
        ucalls = self._func.fields["_calls"]
        st = ctx.__dict__.get("_stat", {}).get("/data/file.rtdc")
        if result == "CACHED":
            ok = len(calls) == 1 and not ucalls
            if ok:
                pos, kw = calls[0]
                # bind the call to cached_wrapper(path, path_stats, *args, **kwargs) as Python does: the first two
                # parameters positionally; giving them as keywords *and* further positional arguments is a TypeError
                pos = tuple(pos)
                if ("path" in kw or "path_stats" in kw) and pos:
                    ok = False          # "got multiple values for argument 'path'"
                else:
                    pth = kw["path"] if "path" in kw else (pos[0] if pos else None)
                    ps = kw["path_stats"] if "path_stats" in kw else (pos[1] if len(pos) > 1 else None)
                    rest = pos if "path" in kw else pos[2:]
                    ok = (pth == pathlib.Path("/data/file.rtdc") and isinstance(ps, tuple) and st is not None
                          and len(ps) == 2 and ps[0] is st.fields["st_mtime_ns"] and ps[1] is st.fields["st_size"]
                          and rest == (self._blocksize,) and kw.get("count") == 3)
            return [("existing file: the cache key covers (resolved path, st_mtime_ns, st_size, arguments)",
                     z3.BoolVal(bool(ok)))]
        return [("missing file: the function is called directly, nothing is cached",
                 z3.BoolVal(result == "UNCACHED" and not calls and len(ucalls) == 1))]


UNITS += [FileMonitoringKey()]
ASSUMPTIONS.append("A-MTIME: a modification of a file changes its st_mtime_ns or its st_size")
