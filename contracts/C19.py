"""C19 — HTTP range cache: contracts on dclab/http_utils.py:HTTPFile.

Ghost state: the remote resource is one byte sequence ``content`` of length L.
Every bytes value handled by the code is a slice content[lo:hi] (slice algebra,
sym.SBytes); a concatenation of non-adjacent slices is a failed obligation.

CacheInv(self):  for every key k in self.cache with k*cs < L:
                     self.cache[k] == content[k*cs : min((k+1)*cs, L)]   and k >= 0
                 |self.cache| <= max(keep_chunks, 1)
"""
import z3

from pyvc.contract import Contract
from pyvc.engine import LoopSpec, NS
from pyvc.models import new_ordered_map, map_wf
from pyvc.sym import SBytes, SInt, And, Or, Implies, Not, Z, to_z3, floordiv

PATH = "dclab/http_utils.py"
MODULE = "dclab.http_utils"
CLASSES = {"HTTPFile": (PATH, "HTTPFile")}
CLASS_MODULES = {"HTTPFile": MODULE}


# ---------------------------------------------------------------- ghost helpers
def fields(self_):
    f = self_.fields
    return to_z3(f["_chunk_size"]), to_z3(f["_keep_chunks"]), to_z3(f["_len"])


def chunk_lo(k, cs):
    return k * cs


def chunk_hi(k, cs, L):
    return z3.If((k + 1) * cs < L, (k + 1) * cs, L)


def fresh_cache(ctx, name="cache"):
    nm = ctx._name(name)
    vlo = z3.Array(nm + ".vlo", z3.IntSort(), z3.IntSort())
    vhi = z3.Array(nm + ".vhi", z3.IntSort(), z3.IntSort())
    m = new_ordered_map(ctx, name, val=lambda ke: SBytes(z3.Select(vlo, ke), z3.Select(vhi, ke)))
    m.vlo, m.vhi = vlo, vhi
    return m


def cache_inv(self_, tag=""):
    """CacheInv as a formula over the current cache of self_"""
    cs, keep, L = fields(self_)
    m = self_.fields["cache"]
    k = z3.Int("k!ci" + tag)
    v = m.val(k)
    return And(
        map_wf(m, tag),
        z3.ForAll([k], z3.Implies(z3.Select(m.dom, k),
                                  z3.And(k >= 0,
                                         z3.Implies(k * cs < L,
                                                    z3.And(v.lo == chunk_lo(k, cs),
                                                           v.hi == chunk_hi(k, cs, L)))))))


def cache_bound(self_):
    cs, keep, L = fields(self_)
    return self_.fields["cache"].size <= keep


def is_slice(b, lo, hi):
    """bytes value b equals content[lo:hi] (lo <= hi)"""
    return z3.Or(z3.And(lo == hi, b.lo == b.hi), z3.And(b.lo == lo, b.hi == hi))


def mk_self(ctx):
    cs = ctx.int("chunk_size", inp=True)
    keep = ctx.int("keep_chunks", inp=True)
    L = ctx.int("length", inp=True)
    pos = ctx.int("pos", inp=True)
    cache = fresh_cache(ctx)
    ctx.inputs["cache_keys"] = cache.order
    session = ctx.obj("Session", {"_L": L}, name="session")
    return ctx.obj("HTTPFile", {"session": session, "_chunk_size": cs, "_keep_chunks": keep, "_len": L,
                                "_pos": pos, "cache": cache, "url": "http://x/y",
                                "_etag": "etag-etag"}, name="self")


def common_requires(self_):
    cs, keep, L = fields(self_)
    return [("chunk_size >= 1", cs >= 1),
            ("keep_chunks >= 1", keep >= 1),
            ("0 <= length < 2**62 (offsets fit the int64 the code converts them to)",
             z3.And(L >= 0, L < 2**62)),
            ("CacheInv", cache_inv(self_, "r")),
            ("cache within its bound", cache_bound(self_))]


class Base(Contract):
    path = PATH
    module = MODULE
    classes = CLASSES
    class_modules = CLASS_MODULES
    bytes_ghost = "content"
    inline = {"HTTPFile.length", "HTTPFile._parse_header"}


# ---------------------------------------------------------------- server + download_range
class SessionGet(Base):
    """Server contract (axiom; the network is outside the code): a GET with the
    header ``Range: bytes=<a>-<b>`` (RFC 7233: both positions inclusive) and
    0 <= a <= b < L is answered with content[a:b+1]; nothing is known about the
    body of any other request."""
    name = "Session.get"
    qualname = "Session.get"
    params = ("self", "url")
    trusted = True

    def __call__(self, interp, session, url=None, headers=None, **kw):
        from pyvc.models import SFmt
        ctx = interp.ctx
        L = to_z3(session.fields["_L"])
        lo = ctx.int("body.lo").e
        hi = ctx.int("body.hi").e
        ctx.assume(lo <= hi)
        rng = (headers or {}).get("Range")
        if isinstance(rng, SFmt) and len(rng.parts) == 4 and rng.parts[0] == "bytes=" \
                and rng.parts[2] == "-":
            a, b = to_z3(rng.parts[1]), to_z3(rng.parts[3])
            ctx.assume(z3.Implies(z3.And(0 <= a, a <= b, b < L), z3.And(lo == a, hi == b + 1)))
        return ctx.obj("Response", {"content": SBytes(lo, hi, "content"), "status_code": 206})


class DownloadRange(Base):
    name = "HTTPFile.download_range"
    qualname = "HTTPFile.download_range"
    params = ("self", "start", "stop")

    def __init__(self, **kw):
        super().__init__(**kw)
        self.callees = {"Session.get": SessionGet()}

    def inputs(self, ctx):
        s = mk_self(ctx)
        return {"self": s, "start": ctx.int("start", inp=True), "stop": ctx.int("stop", inp=True)}

    def requires(self, ctx, a):
        return common_requires(a.self)

    def result(self, ctx, old, a):
        lo = ctx.int("dl.lo").e
        hi = ctx.int("dl.hi").e
        ctx.assume(lo <= hi)
        return SBytes(lo, hi, "content")

    def ensures(self, ctx, old, a, result):
        cs, keep, L = fields(a.self)
        s, e = to_z3(old.start), to_z3(old.stop)
        return [("a valid range 0 <= start < stop <= L yields content[start:stop]",
                 z3.Implies(z3.And(0 <= s, s < e, e <= L),
                            z3.And(result.lo == s, result.hi == e)))]


# ---------------------------------------------------------------- get_cache_chunk
class GetCacheChunk(Base):
    name = "HTTPFile.get_cache_chunk"
    qualname = "HTTPFile.get_cache_chunk"
    params = ("self", "index")

    def __init__(self, **kw):
        super().__init__(**kw)
        self.callees = {"HTTPFile.download_range": DownloadRange()}
        self.loops = {"kk in self.cache.keys()": LoopSpec(inv=self.evict_inv)}

    def inputs(self, ctx):
        return {"self": mk_self(ctx), "index": ctx.int("index", inp=True)}

    def requires(self, ctx, a):
        return common_requires(a.self) + [("index >= 0", to_z3(a.index) >= 0)]

    # loop 0: `for kk in self.cache.keys()` -- every key visited so far was
    # not evictable; the cache is unchanged until the break
    def evict_inv(self, ctx, v):
        m = v.self.fields["cache"]
        j = z3.Int("j!ev")
        idx = to_z3(v.index)
        return [("visited keys are protected",
                 z3.ForAll([j], z3.Implies(z3.And(j >= 0, j < v.it),
                                           self.protected(m.order.sel(j), idx)))),
                ("cache well-formed", cache_inv(v.self, "l")),
                ("requested chunk is cached", z3.Select(m.dom, idx)),
                ("one entry above the bound at most",
                 m.size <= fields(v.self)[1] + 1)]

    @staticmethod
    def protected(key, idx):
        return z3.Or(key == 0, key == idx)

    def modifies(self, a):
        return [a.self]

    def havoc(self, ctx, a):
        a.self.fields["cache"] = fresh_cache(ctx)

    def result(self, ctx, old, a):
        lo = ctx.int("chunk.lo").e
        hi = ctx.int("chunk.hi").e
        ctx.assume(lo <= hi)
        return SBytes(lo, hi, "content")

    def ensures(self, ctx, old, a, result):
        cs, keep, L = fields(a.self)
        idx = to_z3(a.index)
        return [("returns the requested chunk of the resource",
                 z3.Implies(idx * cs < L,
                            z3.And(result.lo == chunk_lo(idx, cs),
                                   result.hi == chunk_hi(idx, cs, L)))),
                ("CacheInv preserved", cache_inv(a.self, "e")),
                ("no more than keep_chunks chunks are held", cache_bound(a.self))]


# ---------------------------------------------------------------- read_range_cached
class ReadRangeCached(Base):
    name = "HTTPFile.read_range_cached"
    qualname = "HTTPFile.read_range_cached"
    params = ("self", "start", "stop")

    def __init__(self, **kw):
        super().__init__(**kw)
        self.callees = {"HTTPFile.get_cache_chunk": GetCacheChunk()}
        self.loops = {"chunk_index in range(chunk_start, chunk_stop)": LoopSpec(inv=self.inv, havoc=self.loop_havoc,
                                  hints=self.hints,
                                  modifies=lambda ctx, v: [v.self])}

    def inputs(self, ctx):
        return {"self": mk_self(ctx), "start": ctx.int("start", inp=True),
                "stop": ctx.int("stop", inp=True)}

    def requires(self, ctx, a):
        cs, keep, L = fields(a.self)
        s, e = to_z3(a.start), to_z3(a.stop)
        # any stop: a request that reaches beyond the end of the resource is answered with what there is
        return common_requires(a.self) + [("0 <= start", 0 <= s)]

    def loop_havoc(self, ctx, v):
        v.self.fields["cache"] = fresh_cache(ctx)

    def hints(self, ctx, v):
        """instances of the unique-quotient lemma for `pos % cs` and `stop % cs`
           b > 0, p == b*q + r, 0 <= r < b, c*b <= p < (c+1)*b  ==>  q == c"""
        from pyvc.models import divmod_sym
        cs, keep, L = fields(v.self)
        out = []
        for nm, p, c in (("pos", to_z3(v.pos), v.lo + v.it), ("stop", to_z3(v.stop), v.hi - 1),
                         ("stop (in the chunk visited)", to_z3(v.stop), v.lo + v.it)):
            q, r = divmod_sym(ctx, p, cs)
            q, r = to_z3(q), to_z3(r)
            out.append((f"unique quotient of {nm} by the chunk size",
                        z3.Implies(z3.And(cs > 0, p == cs * q + r, r >= 0, r < cs,
                                          c * cs <= p, p < (c + 1) * cs),
                                   z3.And(q == c, r == p - c * cs))))
        return out

    def inv(self, ctx, v):
        cs, keep, L = fields(v.self)
        start = to_z3(v.old.start)
        stop = z3.If(to_z3(v.old.stop) <= L, to_z3(v.old.stop), L)       # the effective end of the request
        data, pos, toread = v.data, to_z3(v.pos), to_z3(v.toread)
        dlen = data.hi - data.lo
        c = v.lo + v.it                         # chunk visited next (v.lo == start // cs)
        return [("data is content[start:pos]",
                 z3.And(z3.Or(dlen == 0, data.lo == start), pos == start + dlen)),
                ("toread == stop - pos >= 0", z3.And(toread == stop - pos, toread >= 0)),
                ("pos is aligned with the chunk visited next",
                 z3.Or(toread == 0,
                       z3.And(v.it == 0, pos == start),
                       z3.And(v.it > 0, pos == c * cs))),
                ("the first chunk visited contains start",
                 z3.And(v.lo * cs <= start, start < (v.lo + 1) * cs, v.lo >= 0)),
                ("the last chunk visited contains the last byte requested",
                 z3.And((v.hi - 1) * cs <= stop - 1, stop - 1 < v.hi * cs, stop > start)),
                ("start/stop are not reassigned",
                 z3.And(to_z3(v.start) == start, to_z3(v.stop) == stop)),
                ("CacheInv", cache_inv(v.self, "i")),
                ("cache within its bound", cache_bound(v.self))]

    def modifies(self, a):
        return [a.self]

    def havoc(self, ctx, a):
        a.self.fields["cache"] = fresh_cache(ctx)

    def result(self, ctx, old, a):
        lo = ctx.int("rrc.lo").e
        hi = ctx.int("rrc.hi").e
        ctx.assume(lo <= hi)
        return SBytes(lo, hi, "content")

    def ensures(self, ctx, old, a, result):
        cs, keep, L = fields(a.self)
        s, e = to_z3(old.start), to_z3(old.stop)
        e = z3.If(e <= L, e, L)
        return [("returns exactly content[start:min(stop, length)] (nothing when that is empty)",
                 z3.If(e > s, is_slice(result, s, e), result.hi - result.lo == 0)),
                ("CacheInv preserved", cache_inv(a.self, "e")),
                ("no more than keep_chunks chunks are held", cache_bound(a.self))]


# ---------------------------------------------------------------- read / seek / tell
class Read(Base):
    """read(size) at any position >= 0: the bytes from the position up to min(pos + size, length) -- everything up
    to the end for size < 0 / None, nothing for size == 0 or at the end --, and the position advances by the number
    of bytes returned."""
    name = "HTTPFile.read"
    qualname = "HTTPFile.read"
    params = ("self", "size")

    def __init__(self, **kw):
        super().__init__(**kw)
        self.callees = {"HTTPFile.read_range_cached": ReadRangeCached()}

    def inputs(self, ctx):
        return {"self": mk_self(ctx), "size": ctx.int("size", inp=True)}

    def requires(self, ctx, a):
        cs, keep, L = fields(a.self)
        pos, size = to_z3(a.self.fields["_pos"]), to_z3(a.size)
        return common_requires(a.self) + [("0 <= pos", pos >= 0)]

    def ensures(self, ctx, old, a, result):
        cs, keep, L = fields(a.self)
        pos0, size = to_z3(old.self.fields["_pos"]), to_z3(old.size)
        end = z3.If(size < 0, L, z3.If(pos0 + size <= L, pos0 + size, L))
        n = z3.If(end > pos0, end - pos0, 0)
        return [("returns content[pos:min(pos+size, length)] (up to the end for a negative size)",
                 z3.If(end > pos0, is_slice(result, pos0, end), result.hi - result.lo == 0)),
                ("the position advances by the number of bytes returned", to_z3(a.self.fields["_pos"]) == pos0 + n),
                ("CacheInv preserved", cache_inv(a.self, "e")),
                ("no more than keep_chunks chunks are held", cache_bound(a.self))]


class Seek(Base):
    name = "HTTPFile.seek"
    qualname = "HTTPFile.seek"
    params = ("self", "offset", "whence")

    def inputs(self, ctx):
        import os
        self._whence = ctx.int("whence", inp=True)
        return {"self": mk_self(ctx), "offset": ctx.int("offset", inp=True),
                "whence": self._whence}

    def requires(self, ctx, a):
        w = to_z3(a.whence)
        return common_requires(a.self) + [("whence in {SET, CUR, END}", z3.And(w >= 0, w <= 2))]

    def ensures(self, ctx, old, a, result):
        cs, keep, L = fields(a.self)
        w, off = to_z3(old.whence), to_z3(old.offset)
        p0, p1 = to_z3(old.self.fields["_pos"]), to_z3(a.self.fields["_pos"])
        return [("SEEK_SET: pos == offset", z3.Implies(w == 0, p1 == off)),
                ("SEEK_CUR: pos == old pos + offset", z3.Implies(w == 1, p1 == p0 + off)),
                ("SEEK_END: pos == length + offset", z3.Implies(w == 2, p1 == L + off)),
                ("cache untouched", z3.BoolVal(a.self.fields["cache"].uid == old.self.fields["cache"].uid
                                               and a.self.fields["cache"].dom is old.self.fields["cache"].dom))]


class Tell(Base):
    name = "HTTPFile.tell"
    qualname = "HTTPFile.tell"
    params = ("self",)

    def inputs(self, ctx):
        return {"self": mk_self(ctx)}

    def requires(self, ctx, a):
        return common_requires(a.self)

    def ensures(self, ctx, old, a, result):
        return [("tell returns the position", to_z3(result) == to_z3(old.self.fields["_pos"])),
                ("position unchanged", to_z3(a.self.fields["_pos"]) == to_z3(old.self.fields["_pos"]))]


class GetSession(Contract):
    """session_cache.get_session(url): a requests session for the host (the network is outside the code)"""
    name = "ResoluteRequestsSessionCache.get_session"
    trusted = True

    def __call__(self, interp, url):
        return interp.ctx.obj("Session", {"_L": interp.ctx.int("length")}, name="session")


class Init(Base):
    """HTTPFile(url, chunk_size, keep_chunks): establishes the cache invariant -- the new object starts at
    position 0 with an empty chunk cache that belongs to it alone (chunks are keyed by index only, so a
    cache shared between objects would serve the bytes of another resource or of another chunk size)"""
    name = "HTTPFile.__init__"
    qualname = "HTTPFile.__init__"
    params = ("self", "url", "chunk_size", "keep_chunks")

    def __init__(self):
        super().__init__()
        self.callees = {"ResoluteRequestsSessionCache.get_session": GetSession()}

    def inputs(self, ctx):
        return {"self": ctx.obj("HTTPFile", {}, name="self"), "url": "http://x/y",
                "chunk_size": ctx.int("chunk_size", lo=1, inp=True), "keep_chunks": ctx.int("keep_chunks", lo=1, inp=True)}

    def ensures(self, ctx, old, a, result):
        import sys
        f = a.self.fields
        cache = f.get("cache")
        empty = isinstance(cache, dict) and len(cache) == 0
        # no module-level object of the library refers to the cache
        shared = []
        for mname, mod in list(sys.modules.items()):
            if mname.startswith("dclab") and mod is not None:
                for gname, g in list(vars(mod).items()):
                    if g is cache or (isinstance(g, dict) and any(v is cache for v in g.values())) \
                            or (isinstance(g, (list, tuple, set)) and any(v is cache for v in g)):
                        shared.append(f"{mname}.{gname}")
        return [("the new object has an empty chunk cache of its own"
                 + (f" [also referred to by {shared[:2]}]" if shared else ""), z3.BoolVal(empty and not shared)),
                ("position 0, length unknown yet, the given chunk size and bound",
                 z3.And(to_z3(f.get("_pos")) == 0, z3.BoolVal(f.get("_len") is None),
                        to_z3(f.get("_chunk_size")) == a.chunk_size.e, to_z3(f.get("_keep_chunks")) == a.keep_chunks.e))]


UNITS = [DownloadRange(), GetCacheChunk(), ReadRangeCached(), Read(), Seek(), Tell(), Init()]
TRUSTED = [SessionGet(), GetSession()]


# ---------------------------------------------------------------- replay on the real code
TRUSTED_BASE = [
    "python int as mathematical integer (exact)",
    "bytes values are slices of one ghost sequence (slice algebra; concatenation of "
    "non-adjacent slices is itself an obligation)",
    "server contract (RFC 7233): GET with 'Range: bytes=a-b', 0 <= a <= b < L, is answered with content[a:b+1]",
    "np.int64(x) is the identity for |x| < 2**63 and raises OverflowError otherwise",
    "dict insertion-order iteration, modelled as a key sequence with an inverse position map",
    "induction over call histories from per-operation preservation of CacheInv (meta-rule, not mechanised)",
]
ASSUMPTIONS = [
    "requests/urllib3 deliver the body of a 206 response unchanged",
    "h5py reads a file object only through seek/tell/read(n) with n > 0 inside the resource "
    "(second sentence of the property: dataset over HTTP equals the local file)",
]


def _mk_real(inp, content=None):
    """build a real HTTPFile whose server is an in-memory byte string"""
    import dclab.http_utils as hu
    cs, keep, L = int(inp["chunk_size"]), int(inp["keep_chunks"]), int(inp["length"])
    if L > 1 << 22:
        raise ValueError("witness too large to replay")
    content = bytes((i * 7 + 3) % 251 for i in range(L))
    f = hu.HTTPFile.__new__(hu.HTTPFile)
    f.url = "http://replay.invalid/resource"
    f._chunk_size, f._keep_chunks = cs, keep
    f._len, f._etag, f._pos = L, "replay-etag", int(inp.get("pos", 0))
    f.cache = {}
    requests_log = []

    class _Resp:
        status_code = 206

    class _Session:
        def get(self, url, headers=None, **kw):
            import re
            m = re.fullmatch(r"bytes=(-?\d+)-(-?\d+)", (headers or {}).get("Range", ""))
            r = _Resp()
            requests_log.append((headers or {}).get("Range"))
            if m and 0 <= int(m.group(1)) <= int(m.group(2)) < L:
                r.content = content[int(m.group(1)):int(m.group(2)) + 1]
            elif m and 0 <= int(m.group(1)) < L <= int(m.group(2)):
                r.content = content[int(m.group(1)):]     # RFC 7233: last-byte-pos clipped
            else:
                r.content = b"<416 Requested Range Not Satisfiable>"
            return r
    f.session = _Session()
    for k in inp.get("cache_keys", []) or []:
        k = int(k)
        f.cache[k] = content[k * cs:min((k + 1) * cs, L)] if k >= 0 and k * cs < L else b"?"
    return f, content, requests_log


def _cache_ok(f, content):
    cs, L = f._chunk_size, f._len
    for k, v in f.cache.items():
        if k >= 0 and k * cs < L and v != content[k * cs:min((k + 1) * cs, L)]:
            return f"cache[{k}] does not hold chunk {k}"
    if len(f.cache) > f._keep_chunks:
        return f"{len(f.cache)} chunks held, keep_chunks={f._keep_chunks}"
    return None


def _replay_init():
    """two file objects on the same URL (constructed by the real __init__) do not share chunks"""
    import dclab.http_utils as hu
    a = hu.HTTPFile("http://replay.invalid/resource", chunk_size=8, keep_chunks=2)
    b = hu.HTTPFile("http://replay.invalid/resource", chunk_size=32, keep_chunks=2)
    a.cache[0] = b"12345678"
    if a.cache is b.cache or 0 in b.cache:
        return {"failed": True, "detail": "two HTTPFile objects on the same URL (chunk sizes 8 and 32) share one chunk cache: "
                                          "the second serves the 8-byte chunk 0 of the first as its 32-byte chunk 0"}
    c = hu.HTTPFile("http://replay.invalid/resource")
    if c.cache or c._pos != 0 or c._len is not None:
        return {"failed": True, "detail": f"a new HTTPFile starts with cache {list(c.cache)}, position {c._pos}, length {c._len}"}
    return {"failed": False, "detail": "every new object has an empty cache of its own"}


def replay(unit_name, inp, obligation=""):
    if unit_name == "HTTPFile.__init__":
        return _replay_init()
    f, content, log = _mk_real(inp)
    op = unit_name.split(".")[-1]
    try:
        if op == "download_range":
            a, b = int(inp["start"]), int(inp["stop"])
            r = f.download_range(a, b)
            if 0 <= a < b <= f._len and r != content[a:b]:
                return {"failed": True, "detail": f"download_range({a},{b}) returned {len(r)} bytes "
                                                  f"(request {log[-1]!r}), expected content[{a}:{b}]"}
        elif op == "get_cache_chunk":
            idx = int(inp["index"])
            r = f.get_cache_chunk(idx)
            cs, L = f._chunk_size, f._len
            if idx * cs < L and r != content[idx * cs:min((idx + 1) * cs, L)]:
                return {"failed": True, "detail": f"get_cache_chunk({idx}) returned wrong bytes"}
        elif op == "read_range_cached":
            a, b = int(inp["start"]), int(inp["stop"])
            r = f.read_range_cached(a, b)
            if r != content[a:b]:
                return {"failed": True, "detail": f"read_range_cached({a},{b}) returned {len(r)} bytes, "
                                                  f"expected content[{a}:{b}]"}
        elif op == "read":
            p, n = f._pos, int(inp["size"])
            r = f.read(n)
            if r != content[p:p + n] or f._pos != p + n:
                return {"failed": True, "detail": f"read({n}) at {p}: wrong bytes or position {f._pos}"}
        elif op == "seek":
            p0 = f._pos
            f.seek(int(inp["offset"]), int(inp["whence"]))
            want = {0: int(inp["offset"]), 1: p0 + int(inp["offset"]),
                    2: f._len + int(inp["offset"])}[int(inp["whence"])]
            if f._pos != want:
                return {"failed": True, "detail": f"seek: position {f._pos}, expected {want}"}
        elif op == "tell":
            if f.tell() != f._pos:
                return {"failed": True, "detail": "tell != position"}
        else:
            return {"failed": None, "detail": f"no replay for {unit_name}"}
    except Exception as ex:
        return {"failed": True, "detail": f"{type(ex).__name__}: {ex} raised by {op} with inputs {inp}"}
    bad = _cache_ok(f, content)
    if bad:
        return {"failed": True, "detail": bad + f" after {op} with inputs {inp}"}
    return {"failed": False, "detail": f"{op} behaved as specified on {inp}"}
