"""C03 — the combined event filter equals the specification of the current settings.

Class invariant FInv(filter) (established by __init__/reset, preserved by update):
    every cached box array  _box_filters[f] == box(_old_config, f)   (elementwise)
    every cached polygon entry _poly_filters[id] == (h, inside_id(x, y)) for the
    polygon state whose hash is h
Postcondition of update (independent of the history beyond FInv):
    all[i] == ( enable ? box(cfg)[i] and invalid(cfg)[i] and poly(cfg)[i] and manual[i] : True )
    (before the event limit), FInv re-established for the current settings.
"""
import numpy as np
import z3

from pyvc import h5model, npmodel, models   # noqa: F401
from pyvc.contract import Contract
from pyvc.engine import LoopSpec, NS
from pyvc.models import f_cmp_term
from pyvc.sym import SArr, SObj, SBool, SReal, SInt, F, And, Or, Not, Implies, Z, to_z3, wrap

FILTER = "dclab/rtdc_dataset/filter.py"
FMOD = "dclab.rtdc_dataset.filter"
FEATS = ["area_um", "deform"]

inside = z3.Function("inside_poly", z3.IntSort(), F, F, z3.BoolSort())   # incl. inversion


# ---------------------------------------------------------------- specification
def box_spec(cfg, feat, x):
    """box(cfg, feat)[i] for the value term x (F)"""
    kmin, kmax = feat + " min", feat + " max"
    if kmin not in cfg or kmax not in cfg:
        return z3.BoolVal(True)
    a, b = to_z3(cfg[kmin], "real"), to_z3(cfg[kmax], "real")
    lo, hi = z3.If(a > b, b, a), z3.If(a > b, a, b)
    inrange = z3.And(f_cmp_term("LtE", F.fin(lo), x), f_cmp_term("LtE", x, F.fin(hi)))
    return z3.If(a == b, z3.BoolVal(True), inrange)


def invalid_spec(cfg, xs):
    bad = z3.Or(*[z3.Or(F.is_nan(x), F.is_pinf(x), F.is_ninf(x)) for x in xs])
    return z3.Or(z3.Not(to_z3(cfg["remove invalid events"], "bool")), z3.Not(bad))


# ---------------------------------------------------------------- stand-ins
class DsGetitem(Contract):
    name = "DS.__getitem__"
    trusted = True

    def __call__(self, interp, ds, feat):
        return ds.fields["_feats"][feat]


class DsLen(Contract):
    name = "DS.__len__"
    trusted = True

    def __call__(self, interp, ds):
        return ds.fields["_N"]


class ConfigGetitem(Contract):
    name = "Config.__getitem__"
    trusted = True

    def __call__(self, interp, cfg, key):
        return cfg.fields["_d"][key]


class ConfigCopy(Contract):
    """Configuration.copy(): an independent deep copy"""
    name = "Config.copy"
    trusted = True

    def __call__(self, interp, cfg):
        d = {sec: (dict(v) if isinstance(v, dict) else v) for sec, v in cfg.fields["_d"].items()}
        for sec in d:
            if isinstance(d[sec], dict):
                d[sec] = {k: (list(v) if isinstance(v, list) else v) for k, v in d[sec].items()}
        return interp.ctx.obj("Config", {"_d": d})


class PolyGet(Contract):
    name = "PolygonFilter.get_instance_from_id"
    trusted = True

    def __call__(self, interp, uid):
        return interp.cur_frame.unit._pf[uid]


class PolyFilter(Contract):
    """PolygonFilter.filter(x, y)[i] == inside(id, x_i, y_i) (C15), inversion included"""
    name = "PF.filter"
    trusted = True

    def __call__(self, interp, pf, datax, datay):
        uid = pf.fields["unique_id"]
        r = models.arr_new(interp, datax.n, lambda k: inside(Z(uid), datax.sel(k), datay.sel(k)), "bool",
                           dtype="bool")
        return r


class DownsampleRand(Contract):
    """downsample_rand(a, samples, ret_idx=True) -> (dsa, idx): idx is a boolean
    array of len(a); exactly `samples` entries are True when 0 < samples < len(a),
    all otherwise; deterministic in (len(a), samples) (C16)."""
    name = "downsample_rand"

    def __call__(self, interp, a, samples=None, remove_invalid=False, ret_idx=False):
        ctx = interp.ctx
        idx = ctx.arr("limit_idx", "bool", n=a.n)
        cnt = models.where_idx(interp, idx).n
        s = to_z3(samples)
        ctx.assume(cnt == z3.If(z3.And(s > 0, s < a.n), s, a.n))
        interp.cur_frame.unit._limit_idx = idx
        interp.cur_frame.unit._limit_arg = a
        interp.cur_frame.unit._limit_interp = interp
        return (a, idx)


class FilterUpdate(Contract):
    path = FILTER
    module = FMOD
    qualname = "Filter.update"
    classes = {"Filter": (FILTER, "Filter")}
    class_modules = {"Filter": FMOD}
    inline = {"Filter._init_rtdc_ds", "Filter.__getitem__", "Filter._get_rw_array"}
    native = {"scalar_feature_exists"}
    params = ("self", "rtdc_ds", "force")

    def __init__(self, cur_box, old, poly, limit=False):
        """cur_box: are 'deform min/max' in the current settings; old: state of the
        previously applied settings ('fresh', 'same-keys', 'no-box'); poly: polygon
        filter state ('none', 'new', 'cached', 'changed', 'removed')"""
        self.cur_box, self.old, self.poly, self.limit = cur_box, old, poly, limit
        self.name = (f"Filter.update[box {'set' if cur_box else 'unset'}, before: {old}, "
                     f"polygon: {poly}{', limit' if limit else ''}]")
        super().__init__()
        self.callees = {"DS.__getitem__": DsGetitem(), "DS.__len__": DsLen(),
                        "Config.__getitem__": ConfigGetitem(), "Config.copy": ConfigCopy(),
                        "PolygonFilter.get_instance_from_id": PolyGet(), "PF.filter": PolyFilter(),
                        "downsample_rand": DownsampleRand()}

    def inputs(self, ctx):
        N = ctx.int("N", lo=0, inp=True)
        feats = {f: ctx.arr(f, "F", n=N.e, inp=True, dtype=np.dtype("float64")) for f in FEATS}
        for a in feats.values():
            a.item_shape = ()
        manual = ctx.arr("manual", "bool", n=N.e, inp=True)
        enable = ctx.bool("enable_filters", inp=True)
        rminv = ctx.bool("remove_invalid", inp=True)
        limit = ctx.int("limit_events", lo=1, inp=True) if self.limit else 0
        pf_ids = [7] if self.poly in ("new", "cached", "changed") else []
        cur = {"enable filters": enable, "remove invalid events": rminv, "limit events": limit,
               "polygon filters": list(pf_ids)}
        if self.cur_box:
            cur["deform min"] = ctx.real("deform_min", inp=True)
            cur["deform max"] = ctx.real("deform_max", inp=True)
        cfg = ctx.obj("Config", {"_d": {"filtering": cur}})
        # polygon filter 7
        h_now = ctx.int("poly_hash_now")
        pf = ctx.obj("PF", {"unique_id": 7, "hash": h_now, "axes": ("area_um", "deform")})
        self._pf = {7: pf}
        # previous state of the filter object
        box_filters, poly_filters, old_cfg = {}, {}, {}
        g = NS(dict(N=N, feats=feats, manual=manual, cur=cur, enable=enable, rminv=rminv, limit=limit))
        if self.old != "fresh":
            old_cfg = {"enable filters": enable, "remove invalid events": rminv, "limit events": limit,
                       "polygon filters": [7] if self.poly in ("cached", "changed", "removed") else []}
            if self.old == "same-keys":
                old_cfg["deform min"] = ctx.real("old_deform_min", inp=True)
                old_cfg["deform max"] = ctx.real("old_deform_max", inp=True)
                bf = ctx.arr("cached_box_deform", "bool", n=N.e)
                box_filters["deform"] = bf
                g.old_box = bf
        if self.poly in ("cached", "changed", "removed"):
            pa = ctx.arr("cached_poly", "bool", n=N.e)
            h_old = h_now if self.poly == "cached" else ctx.int("poly_hash_old")
            poly_filters[7] = (h_old, pa)
            g.old_poly, g.h_old = pa, h_old
        g.old_cfg = old_cfg
        g.h_now = h_now
        ds = ctx.obj("DS", {"_N": N, "_feats": feats, "features_scalar": list(FEATS), "config": cfg,
                            "identifier": "mm-test"}, name="rtdc_ds")
        self_ = ctx.obj("Filter", {"_box_filters": box_filters, "_poly_filters": poly_filters,
                                   "_array_props": {}, "manual": manual, "_old_config": old_cfg,
                                   "features": list(FEATS), "size": N}, name="self")
        self._g = g
        return {"self": self_, "rtdc_ds": ds, "force": None}

    def requires(self, ctx, a):
        g = self._g
        k = z3.Int("k!rq")
        reqs = []
        if hasattr(g, "old_box"):
            reqs.append(("FInv: cached box array == box(previous settings)",
                         z3.ForAll([k], z3.Implies(z3.And(k >= 0, k < g.N.e),
                                                   g.old_box.sel(k) == box_spec(g.old_cfg, "deform",
                                                                                g.feats["deform"].sel(k))))))
        if hasattr(g, "old_poly"):
            reqs.append(("FInv: cached polygon array == inside() for the polygon state with the stored hash",
                         z3.Implies(to_z3(g.h_old) == to_z3(g.h_now),
                                    z3.ForAll([k], z3.Implies(z3.And(k >= 0, k < g.N.e),
                                                              g.old_poly.sel(k) == inside(Z(7), g.feats["area_um"].sel(k),
                                                                                          g.feats["deform"].sel(k)))))))
        if self.poly == "changed":
            reqs.append(("the polygon was modified (hash differs)", to_z3(g.h_old) != to_z3(g.h_now)))
        return reqs

    def spec_pre_limit(self, k):
        g = self._g
        xs = [g.feats[f].sel(k) for f in FEATS]
        box = box_spec(g.cur, "deform", g.feats["deform"].sel(k))
        inv = invalid_spec(g.cur, xs)
        poly = inside(Z(7), g.feats["area_um"].sel(k), g.feats["deform"].sel(k)) \
            if g.cur["polygon filters"] else z3.BoolVal(True)
        return z3.If(to_z3(g.enable, "bool"), z3.And(box, inv, poly, g.manual.sel(k)), z3.BoolVal(True))

    def ensures(self, ctx, old, a, result):
        g = self._g
        props = a.self.fields["_array_props"]
        if "all" not in props:
            return [("the combined filter exists", z3.BoolVal(False))]
        allarr = props["all"]
        k = z3.Int("k!p")
        rng = z3.And(k >= 0, k < g.N.e)
        posts = [("length of the combined filter", allarr.n == g.N.e)]
        if not self.limit:
            posts.append(("combined filter == specification of the current settings",
                          z3.ForAll([k], z3.Implies(rng, allarr.sel(k) == self.spec_pre_limit(k)))))
        else:
            idx = getattr(self, "_limit_idx", None)
            sub = getattr(self, "_limit_arg", None)
            if idx is not None and getattr(sub, "sel_mask", None) is not None:
                interp = self._limit_interp
                S = models.arr_new(interp, g.N.e, lambda kk: self.spec_pre_limit(kk), "bool")
                S = SArr(S.n, S.a, "bool")
                ctx.assume(models.where_ext(interp, sub.sel_mask, S))
                wS = models.where_idx(interp, S)
                posts.append(("event limit: the limit is drawn among exactly the qualifying events",
                              z3.Implies(to_z3(g.enable, "bool"),
                                         z3.And(sub.n == wS.n,
                                                z3.ForAll([k], z3.Implies(rng, sub.sel_mask.sel(k) == S.sel(k)))))))
                posts.append(("event limit: an event remains iff it qualifies and the draw keeps its rank",
                              z3.Implies(to_z3(g.enable, "bool"),
                                         z3.ForAll([k], z3.Implies(rng, allarr.sel(k) ==
                                                                   z3.And(S.sel(k), idx.sel(wS.rank(k))))))))
            else:
                posts.append(("event limit: downsample_rand is applied to the qualifying events",
                              z3.Not(to_z3(g.enable, "bool"))))
            posts.append(("event limit: only qualifying events remain",
                          z3.ForAll([k], z3.Implies(z3.And(rng, allarr.sel(k)), self.spec_pre_limit(k)))))
            posts.append(("event limit: with filters disabled every event is selected",
                          z3.Implies(z3.Not(to_z3(g.enable, "bool")),
                                     z3.ForAll([k], z3.Implies(rng, allarr.sel(k))))))
        # FInv for the new state
        bf = a.self.fields["_box_filters"]
        if "deform" in bf:
            posts.append(("FInv: cached box array == box(current settings)",
                          z3.ForAll([k], z3.Implies(rng, bf["deform"].sel(k) ==
                                                    box_spec(g.cur, "deform", g.feats["deform"].sel(k))))))
        else:
            posts.append(("FInv: no cached box array <=> no box filter was ever needed",
                          z3.BoolVal(not self.cur_box and self.old != "same-keys")))
        pfs = a.self.fields["_poly_filters"]
        posts.append(("polygon cache holds exactly the current polygon filters",
                      z3.BoolVal(sorted(pfs.keys()) == sorted(g.cur["polygon filters"]))))
        if 7 in pfs:
            posts.append(("FInv: cached polygon entry carries the current hash and inside()",
                          z3.And(to_z3(pfs[7][0]) == to_z3(g.h_now),
                                 z3.ForAll([k], z3.Implies(rng, pfs[7][1].sel(k) ==
                                                           inside(Z(7), g.feats["area_um"].sel(k),
                                                                  g.feats["deform"].sel(k)))))))
        oc = a.self.fields["_old_config"]
        posts.append(("the applied settings are remembered (independent copy)",
                      z3.BoolVal(isinstance(oc, dict) and oc is not g.cur and set(oc) == set(g.cur)
                                 and all(oc[key] is g.cur[key] or oc[key] == g.cur[key] for key in g.cur
                                         if not isinstance(g.cur[key], list))
                                 and oc["polygon filters"] == g.cur["polygon filters"]
                                 and oc["polygon filters"] is not g.cur["polygon filters"])))
        return posts


UNITS = []
for _cb in (True, False):
    for _old in ("fresh", "same-keys", "no-box"):
        UNITS.append(FilterUpdate(_cb, _old, "none"))
for _poly in ("new", "cached", "changed", "removed"):
    UNITS.append(FilterUpdate(True, "same-keys", _poly))
UNITS.append(FilterUpdate(True, "same-keys", "cached", limit=True))
UNITS.append(FilterUpdate(False, "fresh", "none", limit=True))
TRUSTED = [DsGetitem(), ConfigCopy(), PolyGet(), PolyFilter()]
TRUSTED_BASE = ["floats as reals plus explicit NaN/+-inf with IEEE comparisons (sort F)",
                "numpy boolean indexing / masked assignment via the rank-select axioms (N-WHERE, N-MASK, N-MASK-ASSIGN)",
                "PolygonFilter.filter(x, y)[i] is a function inside(id, x_i, y_i) of the polygon state (C15)",
                "downsample_rand contract (C16); A-HASH for the polygon hash"]
ASSUMPTIONS = ["the scenario has two scalar features, a box filter on one of them and at most one polygon filter; "
               "induction over histories from FInv preservation (meta-rule)"]


# ---------------------------------------------------------------- replay on the real code
def _spec_numpy(cfg, deform, area, manual, polys):
    import numpy as np
    n = len(deform)
    if not cfg.get("enable filters", True):
        return np.ones(n, dtype=bool)
    box = np.ones(n, dtype=bool)
    if "deform min" in cfg and "deform max" in cfg and cfg["deform min"] != cfg["deform max"]:
        lo, hi = sorted([cfg["deform min"], cfg["deform max"]])
        with np.errstate(invalid="ignore"):
            box = (deform >= lo) & (deform <= hi)
    inv = np.ones(n, dtype=bool)
    if cfg.get("remove invalid events"):
        inv = np.isfinite(deform) & np.isfinite(area)
    poly = np.ones(n, dtype=bool)
    for pf in polys:
        inside = np.array([pf.point_in_poly((x, y), pf.points) for x, y in zip(area, deform)], dtype=bool)
        poly &= (~inside if pf.inverted else inside)
    return box & inv & poly & manual


def replay(unit_name, inp, obligation=""):
    import warnings
    import numpy as np
    import dclab
    from dclab.polygon_filter import PolygonFilter
    if not unit_name.startswith("Filter.update"):
        return {"failed": None, "detail": "no replay for " + unit_name}

    def arr(key, n, default):
        v = inp.get(key)
        out = np.array([float(x) for x in (v or [])][:n] + [default] * max(0, n - len(v or [])), dtype=float)
        return out
    n = int(inp.get("N", 4))
    n = max(1, min(n, 8))
    deform = arr("deform", n, 0.05)
    area = arr("area_um", n, 100.0)
    manual = np.array([bool(x) for x in (inp.get("manual") or [])][:n] + [True] * max(0, n - len(inp.get("manual") or [])))
    cur_box = "box set" in unit_name
    old = unit_name.split("before: ")[1].split(",")[0]
    poly = unit_name.split("polygon: ")[1].split("]")[0].split(",")[0]
    with warnings.catch_warnings():
        warnings.simplefilter("ignore")
        PolygonFilter.clear_all_filters()
        ds = dclab.new_dataset({"deform": deform, "area_um": area})
        cfgf = ds.config["filtering"]
        cfgf["enable filters"] = bool(inp.get("enable_filters", True))
        cfgf["remove invalid events"] = bool(inp.get("remove_invalid", False))
        pf = None
        if poly in ("cached", "changed", "removed"):
            pf = PolygonFilter(axes=("area_um", "deform"), points=[[50, 0.0], [120, 0.0], [120, 0.1], [50, 0.1]])
            ds.polygon_filter_add(pf)
        if old == "same-keys":
            cfgf["deform min"] = float(inp.get("old_deform_min", 0.02))
            cfgf["deform max"] = float(inp.get("old_deform_max", 0.06))
        if old != "fresh":
            ds.filter.manual[:] = manual
            ds.apply_filter()
        # now the current settings
        if cur_box:
            cfgf["deform min"] = float(inp.get("deform_min", 0.0))
            cfgf["deform max"] = float(inp.get("deform_max", 0.0))
        else:
            cfgf.pop("deform min", None)
            cfgf.pop("deform max", None)
        if poly == "new":
            pf = PolygonFilter(axes=("area_um", "deform"), points=[[50, 0.0], [120, 0.0], [120, 0.1], [50, 0.1]])
            ds.polygon_filter_add(pf)
        elif poly == "changed":
            pf.points = [[60, 0.0], [200, 0.0], [200, 0.2], [60, 0.2]]
        elif poly == "removed":
            ds.polygon_filter_rm(pf)
            pf = None
        ds.filter.manual[:] = manual
        limit = int(inp.get("limit_events", 0)) if "limit" in unit_name else 0
        cfgf["limit events"] = limit
        ds.apply_filter()
        got = np.array(ds.filter.all, copy=True)
        want = _spec_numpy(dict(cfgf), deform, area, manual, [pf] if pf is not None else [])
        PolygonFilter.clear_all_filters()
    if limit and cfgf["enable filters"]:
        ok = (not np.any(got & ~want)) and got.sum() == min(limit, want.sum()) if limit < want.sum() \
            else np.array_equal(got, want)
    else:
        ok = np.array_equal(got, want)
    if not ok:
        return {"failed": True, "detail": f"filter.all == {got.astype(int).tolist()} but the current settings "
                                          f"{ {k: v for k, v in dict(cfgf).items()} } specify "
                                          f"{want.astype(int).tolist()} (deform={deform.tolist()}, before: {old}, "
                                          f"polygon: {poly})"}
    return {"failed": False, "detail": "filter.all equals the specification"}


def bounded_inputs(unit_name, rng):
    import itertools
    vals = [float("nan"), 0.01, 0.05, 0.08, float("inf")]
    for d in itertools.product(vals, repeat=3):
        for (a, b, oa, ob) in ((0.02, 0.06, 0.0, 0.1), (0.06, 0.02, 0.02, 0.06), (0.05, 0.05, 0.0, 0.02)):
            for en, rm in ((True, False), (True, True), (False, True)):
                yield {"N": 3, "deform": list(d), "area_um": [60.0, 130.0, float("nan")], "manual": [True, True, False],
                       "deform_min": a, "deform_max": b, "old_deform_min": oa, "old_deform_max": ob,
                       "enable_filters": en, "remove_invalid": rm, "limit_events": 1}


class FilterReset(Contract):
    """Filter.reset(): establishes FInv from any state: no cached box/polygon/
    combined arrays, the remembered settings are empty (so that the next update
    recomputes everything), the manual filter is all True."""
    path = FILTER
    module = FMOD
    name = "Filter.reset"
    qualname = "Filter.reset"
    classes = {"Filter": (FILTER, "Filter")}
    class_modules = {"Filter": FMOD}
    params = ("self",)

    def inputs(self, ctx):
        N = ctx.int("N", lo=0, inp=True)
        self._N = N
        mk = lambda nm: ctx.arr(nm, "bool", n=N.e)   # noqa
        self_ = ctx.obj("Filter", {"_box_filters": {"deform": mk("b")}, "_poly_filters": {7: (Z(1), mk("p"))},
                                   "_array_props": {"all": mk("a"), "box": mk("x")}, "manual": mk("m"),
                                   "_old_config": {"deform min": 1.0, "enable filters": True},
                                   "features": list(FEATS), "size": N}, name="self")
        return {"self": self_}

    def ensures(self, ctx, old, a, result):
        f = a.self.fields
        k = z3.Int("k!p")
        m = f["manual"]
        return [("no cached box, polygon or combined arrays remain",
                 z3.BoolVal(f["_box_filters"] == {} and f["_poly_filters"] == {} and f["_array_props"] == {})),
                ("the remembered settings are empty", z3.BoolVal(f["_old_config"] == {})),
                ("the manual filter is all True",
                 z3.And(m.n == self._N.e, z3.ForAll([k], z3.Implies(z3.And(k >= 0, k < m.n), m.sel(k)))))
                if isinstance(m, SArr) else ("the manual filter is an array", z3.BoolVal(False))]


UNITS.append(FilterReset())
