"""C08 — compress, repack, condense and tdms2rtdc preserve dataset content.

Decided by contracts:
 * the tasks hand the documented selection to rtdc_copy (compress / repack: all
   features, basins / logs kept unless stripped on request, tables always;
   condense: scalar features) -- units over the real task functions with the
   ghost file system of C10;
 * rtdc_copy on the HDF5 object model: every file attribute (metadata) is copied,
   every log is copied under the prefixed name when logs are included, every
   table is copied with equal content *and attributes* when tables are included,
   exactly the requested features are handed to h5ds_copy, and the source is
   only read (frame).

h5ds_copy's dataset transfer (chunks, string dtypes, h5o.copy), defective-feature
handling and .tdms reading are outside the accepted subset: the bounded stand-in
compares input and output files value by value (labelled bounded).
"""
import numpy as np
import z3

from pyvc import models, npmodel, h5model, fsghost   # noqa: F401
from pyvc.contract import Contract
from pyvc.engine import LoopSpec, NS, PyRaise, Unsupported
from pyvc.h5model import new_group, new_dataset, new_attrs
from pyvc.sym import SArr, SObj, SOpaque, Elem, Z, to_z3, wrap
import contracts.C10 as C10

COP = "dclab/rtdc_dataset/copier.py"
CMOD = "dclab.rtdc_dataset.copier"


# --------------------------------------------------------------------------
# the tasks select the documented content
# --------------------------------------------------------------------------
class CopyArgs(Contract):
    """rtdc_copy as seen by the tasks: records the selection it is asked for"""
    name = "rtdc_copy"
    trusted = False

    def __call__(self, interp, *args, **kw):
        interp.cur_frame.unit._copy_kw = dict(kw)
        return C10.RTDC_COPY(interp, *args, **kw)


def _flag(v):
    if isinstance(v, bool):
        return z3.BoolVal(v)
    return to_z3(v, "bool")


class RepackSelection(C10.Repack):
    """repack: all features and tables are copied; basins and logs exactly when not stripped"""

    def __init__(self):
        super().__init__("plain")
        self.name = "repack[what is copied]"
        self.callees["rtdc_copy"] = CopyArgs()
        self.fs_spec.inject = False

    def ensures(self, ctx, old, a, result):
        kw = getattr(self, "_copy_kw", {})
        return [("all features and all tables are copied; basins and logs unless stripped on request",
                 z3.And(z3.BoolVal(kw.get("features") == "all" and kw.get("include_tables") is True
                                   and kw.get("meta_prefix") == ""),
                        _flag(kw.get("include_basins", False)) == z3.Not(a.strip_basins.e),
                        _flag(kw.get("include_logs", False)) == z3.Not(a.strip_logs.e)))]


class CompressSelection(C10.Compress):
    """compress: everything is copied"""

    def __init__(self):
        super().__init__("plain")
        self.name = "compress[what is copied]"
        self.callees["rtdc_copy"] = CopyArgs()
        self.fs_spec.inject = False

    def ensures(self, ctx, old, a, result):
        kw = getattr(self, "_copy_kw", {})
        return [("all features, basins, logs and tables are copied",
                 z3.BoolVal(kw.get("features") == "all" and kw.get("include_tables") is True and kw.get("include_logs") is True
                            and kw.get("include_basins") is True and kw.get("meta_prefix") == ""))]


class CondenseSelection(C10.CondenseDataset):
    """condense_dataset: the scalar features, basins, logs and tables of an HDF5 input are copied"""

    def __init__(self):
        super().__init__()
        self.name = "condense_dataset[what is copied]"
        self.callees["rtdc_copy"] = CopyArgs()
        self.fs_spec.inject = False
        self._copy_kw = None

    def exceptional(self, ctx, old, a, exc):
        # unless an operation failed (injected), the function has to complete -- for an HDF5
        # input as well as for a .tdms input (nothing copied beforehand)
        return z3.BoolVal(bool(fsghost.ghost_of(ctx).faults))

    def ensures(self, ctx, old, a, result):
        kw = self._copy_kw
        if kw is None:
            return [("a non-HDF5 input has nothing to copy", z3.BoolVal(a.ds.fields["format"] != "hdf5"))]
        return [("the scalar features, basins, logs and tables are copied",
                 z3.BoolVal(kw.get("features") == "scalar" and kw.get("include_tables") is True
                            and kw.get("include_logs") is True and kw.get("include_basins") is True))]


# --------------------------------------------------------------------------
# rtdc_copy on the HDF5 object model
# --------------------------------------------------------------------------
class H5dsCopy(Contract):
    """h5ds_copy(src_loc, src_name, dst_loc, dst_name, recursive): dst_loc[dst_name] becomes an
    object with the content and attributes of src_loc[src_name] (bounded stand-in)"""
    name = "h5ds_copy"
    trusted = True

    def __call__(self, interp, src_loc=None, src_name=None, dst_loc=None, dst_name=None, **kw):
        src = h5model._grp_getitem(interp, src_loc, src_name)
        name = dst_name or src_name
        h5model.note_h5_write(interp, dst_loc, f"copy {name}")
        interp.heap_write(dst_loc)
        dst_loc.fields["members"][name if isinstance(name, str) else repr(name)] = src      # same content, same attrs
        interp.cur_frame.unit._copied.append((src_loc.fields["name"], src_name, dst_loc.fields["name"], name))
        return src


class RtdcCopy(Contract):
    """rtdc_copy(src, dst, features, include_basins, include_logs, include_tables, meta_prefix)"""
    path = COP
    module = CMOD
    qualname = "rtdc_copy"
    params = ("src_h5file", "dst_h5file", "features", "include_basins", "include_logs", "include_tables", "meta_prefix")
    native = {"feature_exists", "scalar_feature_exists"}

    def __init__(self, features, logs, tables):
        self.features, self.logs, self.tables = features, logs, tables
        self.name = f"rtdc_copy[features={features}, logs={logs}, tables={tables}]"
        super().__init__()
        self.callees = {"h5ds_copy": H5dsCopy(), "basin_definition_copy": C10.Fx("basin_definition_copy", result=None)}

    def inputs(self, ctx):
        n = ctx.int("N", lo=1, inp=True)
        mk = lambda nm, kind="F": new_dataset(ctx, ctx.arr(nm, kind, n=n.e), name="/events/" + nm,   # noqa: E731
                                              attrs=new_attrs(ctx, d={"min": ctx.real("min_" + nm), "max": ctx.real("max_" + nm),
                                                                      "mean": ctx.real("mean_" + nm)}))
        ev = new_group(ctx, members={"deform": mk("deform"), "area_um": mk("area_um"),
                                     "image": new_dataset(ctx, ctx.arr("image", "elem", n=n.e), name="/events/image")},
                       name="/events")
        logs = new_group(ctx, members={"acq": new_dataset(ctx, ctx.arr("log_acq", "elem"), name="/logs/acq"),
                                       "dclab-compress": new_dataset(ctx, ctx.arr("log_c", "elem"), name="/logs/dclab-compress")},
                         name="/logs")
        tab_content = ctx.arr("table", "elem")
        self._tab_attr = SOpaque(ctx.const("table_attribute", Elem), str)
        tables = new_group(ctx, members={"tab": new_dataset(ctx, tab_content, name="/tables/tab",
                                                            attrs=new_attrs(ctx, d={"my attr": self._tab_attr}))},
                           name="/tables")
        self._meta = {"experiment:sample": SOpaque(ctx.const("sample", Elem), str), "setup:flow rate": ctx.real("flow_rate"),
                      "user:a:b": ctx.int("user_value")}
        src = new_group(ctx, members={"events": ev, "logs": logs, "tables": tables}, name="/",
                        attrs=new_attrs(ctx, d=dict(self._meta)))
        dst = new_group(ctx, name="/")
        dst.fields["name"] = "/dst"
        self._src, self._dst, self._tab = src, dst, tab_content
        self._copied = []
        self._src_sig = self.snapshot(src)
        return {"src_h5file": src, "dst_h5file": dst, "features": self.features, "include_basins": True,
                "include_logs": self.logs, "include_tables": self.tables, "meta_prefix": "pre_"}

    def snapshot(self, g):
        out = []
        for k, v in sorted(g.fields["members"].items()):
            if v.clsname == "H5Group":
                out.append((k, self.snapshot(v)))
            else:
                out.append((k, v.fields["content"].a.get_id(), tuple(sorted(v.fields["attrs"].fields["d"]))))
        return (tuple(out), tuple(sorted(g.fields["attrs"].fields["d"])))

    def ensures(self, ctx, old, a, result):
        dst = self._dst
        dattrs = dst.fields["attrs"].fields["d"]
        posts = [("every file attribute (metadata) is copied with its value",
                  z3.BoolVal(set(dattrs) == set(self._meta)
                             and all(dattrs[k] is self._meta[k] for k in self._meta if k in dattrs))),
                 ("the source file is not modified", z3.BoolVal(self.snapshot(self._src) == self._src_sig))]
        copied = self._copied
        logs = sorted((c[1], c[3]) for c in copied if c[0] == "/logs")
        want_logs = [("acq", "pre_acq"), ("dclab-compress", "pre_dclab-compress")] if self.logs else []
        posts.append(("every log is copied under the prefixed name exactly when logs are included", z3.BoolVal(logs == want_logs)))
        feats = sorted(c[1] for c in copied if c[0] == "/events")
        want = {"all": ["area_um", "deform", "image"], "scalar": ["area_um", "deform"], "none": []}[self.features]
        posts.append(("exactly the requested features are copied", z3.BoolVal(feats == want)))
        tabs = dst.fields["members"].get("tables")
        if self.tables:
            ok = tabs is not None and set(tabs.fields["members"]) == {"tab"}
            t = tabs.fields["members"]["tab"] if ok else None
            posts.append(("every table is copied with equal content",
                          z3.BoolVal(bool(ok)) if not ok else __import__("pyvc.sym", fromlist=["seq_eq"]).seq_eq(t.fields["content"], self._tab)))
            tat = t.fields["attrs"].fields["d"] if ok else {}
            posts.append(("every table keeps its attributes", z3.BoolVal(tat.get("my attr") is self._tab_attr)))
        else:
            posts.append(("no table is copied when tables are excluded", z3.BoolVal(tabs is None)))
        return posts


class BasinDicts(Contract):
    """RTDC_HDF5.basin_get_dicts_from_h5file(h5): one dict per member of h5["basins"], in the
    order of the group, each carrying its group key under "key" (the JSON decoding of the
    stored text is not modelled: the dicts are the ones the unit put into the file)"""
    name = "RTDC_HDF5.basin_get_dicts_from_h5file"
    trusted = True

    def __call__(self, interp, h5file):
        import copy
        return [copy.deepcopy(d) for d in interp.cur_frame.unit._defs]


class WriteText(Contract):
    """RTDCWriter.write_text(group, name, lines): creates the text dataset group[name] (C01)"""
    name = "RTDCWriter.write_text"
    trusted = True

    def __call__(self, interp, self_, group, name, lines):
        h5model.note_h5_write(interp, group, f"write_text {name}")
        interp.heap_write(group)
        interp.cur_frame.unit._written.append((name, list(lines) if isinstance(lines, list) else lines))
        group.fields["members"][name] = new_dataset(interp.ctx, interp.ctx.arr("text_" + str(len(interp.cur_frame.unit._written)), "elem"),
                                                    name="/basins/" + str(name))
        return group.fields["members"][name]


class BasinDefinitionCopy(Contract):
    """basin_definition_copy(src, dst, features_iter): every basin definition of the source
    ends up in the destination exactly once -- copied as it is, or, for an internal basin
    whose features are only partly selected, rewritten with exactly the selected features;
    an internal basin none of whose features is selected is dropped"""
    path = COP
    module = CMOD
    qualname = "basin_definition_copy"
    params = ("src_h5file", "dst_h5file", "features_iter")
    native = {"json.dumps", "hashobj"}

    CONFIGS = {
        "two file basins": ([{"type": "file", "format": "hdf5", "name": "b1", "features": ["area_cvx"], "paths": ["x1.rtdc"]},
                             {"type": "file", "format": "hdf5", "name": "b2", "features": ["area_ratio"], "paths": ["x2.rtdc"]}],
                            ["deform", "area_um"]),
        "three basins (file, remote, file)": (
            [{"type": "file", "format": "hdf5", "name": "b1", "paths": ["x1.rtdc"]},
             {"type": "remote", "format": "dcor", "name": "b2", "urls": ["https://example.com/api/3/action/dcserv?id=1"]},
             {"type": "file", "format": "hdf5", "name": "b3", "paths": ["x3.rtdc"]}], ["deform"]),
        "internal basin partly selected, then a file basin": (
            [{"type": "internal", "format": "h5dataset", "name": "int", "features": ["userdef1", "image_bg"], "paths": ["basin_events"]},
             {"type": "file", "format": "hdf5", "name": "b2", "paths": ["x2.rtdc"]}], ["deform", "userdef1"]),
        "file basin, then an internal basin partly selected": (
            [{"type": "file", "format": "hdf5", "name": "b1", "paths": ["x1.rtdc"]},
             {"type": "internal", "format": "h5dataset", "name": "int", "features": ["userdef1", "image_bg"], "paths": ["basin_events"]}],
            ["deform", "userdef1"]),
        "internal basin fully selected and a file basin": (
            [{"type": "internal", "format": "h5dataset", "name": "int", "features": ["userdef1"], "paths": ["basin_events"]},
             {"type": "file", "format": "hdf5", "name": "b2", "paths": ["x2.rtdc"]}], ["userdef1", "deform"]),
        "internal basin not selected and two file basins": (
            [{"type": "file", "format": "hdf5", "name": "b1", "paths": ["x1.rtdc"]},
             {"type": "internal", "format": "h5dataset", "name": "int", "features": ["image_bg"], "paths": ["basin_events"]},
             {"type": "file", "format": "hdf5", "name": "b3", "paths": ["x3.rtdc"]}], ["deform"]),
    }

    def __init__(self, config):
        self.config = config
        self.name = f"basin_definition_copy[{config}]"
        super().__init__()
        self.callees = {"h5ds_copy": H5dsCopy(), "RTDC_HDF5.basin_get_dicts_from_h5file": BasinDicts(),
                        "RTDCWriter.write_text": WriteText(), **C10.WRITER_METHODS}
        for k, v in C10.WRITER_CLASS.items():
            setattr(self, k, v)

    def inputs(self, ctx):
        defs, feats = self.CONFIGS[self.config]
        self._defs = [dict(d, key=f"key{i}") for i, d in enumerate(defs)]
        members = {d["key"]: new_dataset(ctx, ctx.arr("def_" + d["key"], "elem"), name="/basins/" + d["key"]) for d in self._defs}
        self._src_members = dict(members)
        src = new_group(ctx, members={"basins": new_group(ctx, members=members, name="/basins")}, name="/")
        dst = new_group(ctx, name="/")
        dst.fields["name"] = "/dst"
        self._dst = dst
        self._copied, self._written = [], []
        return {"src_h5file": src, "dst_h5file": dst, "features_iter": list(feats)}

    def ensures(self, ctx, old, a, result):
        feats = self.CONFIGS[self.config][1]
        want_copy, want_write = [], []
        for d in self._defs:
            if d["type"] == "internal":
                used = [f for f in d["features"] if f in feats]
                if not used:
                    continue
                if used != d["features"]:
                    want_write.append(used)
                    continue
            want_copy.append(d["key"])
        copied = [c[1] for c in self._copied]
        bas = self._dst.fields["members"].get("basins")
        held = bas.fields["members"] if bas is not None else {}
        posts = [("every basin definition that is kept as it is is copied exactly once, under its own key",
                  z3.BoolVal(sorted(copied) == sorted(want_copy)
                             and all(held.get(k) is self._src_members[k] for k in want_copy))),
                 ("an internal basin whose features are partly selected is rewritten once, with exactly the selected features",
                  z3.BoolVal(len(self._written) == len(want_write)
                             and all(_written_features(w[1]) == u for w, u in zip(self._written, want_write)))),
                 ("the destination holds one definition per kept basin and nothing else",
                  z3.BoolVal(len(held) == len(want_copy) + len(want_write)))]
        return posts


def _written_features(lines):
    import json
    try:
        return json.loads("".join(lines)).get("features")
    except Exception:
        return None


class WholeFile(Contract):
    """value identity of input and output files of compress / repack / condense / tdms2rtdc, and compress /
    repack applied to their own output (bounded stand-in)"""
    path = COP
    module = CMOD
    qualname = "h5ds_copy"
    params = ("src_loc",)
    name = "compress / repack / condense / tdms2rtdc on real files"
    bounded_by_design = True

    def inputs(self, ctx):
        raise Unsupported("dataset transfer in h5ds_copy (chunk iteration, string dtypes, h5o.copy) and whole-file behaviour")


UNITS = [RepackSelection(), CompressSelection(), CondenseSelection()] \
    + [RtdcCopy(f, l, t) for (f, l, t) in (("all", True, True), ("scalar", True, True), ("all", False, True),
                                           ("all", True, False), ("none", False, False))] \
    + [BasinDefinitionCopy(c) for c in BasinDefinitionCopy.CONFIGS] + [WholeFile()]
TRUSTED = [H5dsCopy()] + C10.TRUSTED
TRUSTED_BASE = ["H-CREATE / H-ATTR (HDF5 object model)", "h5ds_copy transfers content and attributes (bounded stand-in)"]
ASSUMPTIONS = ["the ghost file system of C10 without fault injection carries the task units",
               "dataset transfer, defective-feature handling and .tdms reading are covered by the bounded stand-in only"]


# --------------------------------------------------------------------------
# replay on the real code
# --------------------------------------------------------------------------
def _tree(path, skip_logs=("dclab-compress", "dclab-condense")):
    """content of an .rtdc file: attributes, datasets by value, attributes of datasets"""
    import h5py
    out = {}
    with h5py.File(path, "r") as h5:
        out["@attrs"] = {k: (v.tolist() if hasattr(v, "tolist") else v) for k, v in h5.attrs.items()
                         if k not in ("setup:software version",)}

        def visit(name, obj):
            if any(name.startswith("logs/" + s) for s in skip_logs):
                return
            if isinstance(obj, h5py.Dataset):
                data = obj[...]
                if data.dtype.kind in "SO":
                    data = [x.decode("utf-8") if isinstance(x, bytes) else str(x) for x in data.ravel().tolist()]
                    val = ("text", tuple(data))
                elif data.dtype.names:
                    val = ("table", data.dtype.names, data.tobytes())
                else:
                    val = ("array", str(data.shape), np.asarray(data, dtype=float).tobytes() if data.dtype.kind in "fiub"
                           else data.tobytes())
                attrs = {k: (v.tolist() if hasattr(v, "tolist") else v) for k, v in obj.attrs.items()}
                out[name] = (val, attrs)
        h5.visititems(visit)
    return out


def _diff(a, b, ignore_attr=("min", "max", "mean")):
    probs = []
    for k in sorted(set(a) | set(b)):
        if k not in b:
            probs.append(f"'{k}' is missing in the output")
        elif k not in a:
            probs.append(f"'{k}' appears only in the output")
        elif k == "@attrs":
            for kk in sorted(set(a[k]) | set(b[k])):
                if a[k].get(kk) != b[k].get(kk):
                    probs.append(f"metadata '{kk}': {a[k].get(kk)!r} -> {b[k].get(kk)!r}")
        else:
            if a[k][0] != b[k][0]:
                probs.append(f"values of '{k}' differ")
            aa = {x: y for x, y in a[k][1].items() if x not in ignore_attr}
            bb = {x: y for x, y in b[k][1].items() if x not in ignore_attr}
            if aa != bb:
                probs.append(f"attributes of '{k}': {aa} -> {bb}")
    return probs


def replay(unit_name, inp, obligation=""):
    import hashlib
    import pathlib
    import tempfile
    import warnings
    import h5py
    from contracts import c10_native as N
    N._import()
    from dclab import cli
    import dclab
    from dclab.rtdc_dataset import RTDCWriter
    if unit_name.startswith("basin_definition_copy["):
        return _replay_basins(unit_name[len("basin_definition_copy["):-1])
    with warnings.catch_warnings(), tempfile.TemporaryDirectory(prefix="c08_") as td:
        warnings.simplefilter("ignore")
        d = pathlib.Path(td)
        f = N.make_rtdc(d / "in.v1.rtdc", n=7, seed=int(inp.get("seed", 1)))
        with RTDCWriter(f, mode="append") as hw:
            # two basins that cannot be resolved: their definitions must survive all the same
            for i in (1, 2):
                hw.store_basin(basin_name=f"b{i}", basin_type="file", basin_format="hdf5", basin_locs=[str(d / f"gone{i}.rtdc")],
                               basin_feats=["area_cvx", "area_ratio"][i - 1:i], verify=False)
        with RTDCWriter(f, mode="append") as hw:
            hw.store_log("ünï-log", ["ü" * 120, "short", "日本語" * 50])
            hw.store_metadata({"user": {"a:b": 3, "note": "x = y"}})
        with h5py.File(f, "a") as h5:
            h5["tables/tab"].attrs["my attr"] = "hello"
            # a log of variable-length UTF-8 strings, as acquisition software writes it
            h5["logs"].create_dataset("acquisition", data=["ü" * 90, "plain line", "日本語" * 40],
                                      dtype=h5py.string_dtype(encoding="utf-8"))
        before = hashlib.sha256(f.read_bytes()).hexdigest()
        t_in = _tree(f)
        for tool in ("compress", "repack"):
            out = getattr(cli, tool)(path_in=f, path_out=d / f"{tool}.v2", ret_path=True)
            if out is None or pathlib.Path(out).name != f"{tool}.v2.rtdc":
                return {"failed": True, "detail": f"dclab-{tool} with output name '{tool}.v2' wrote {out}, expected '{tool}.v2.rtdc'"}
            probs = _diff(t_in, _tree(out))
            if probs:
                return {"failed": True, "detail": f"dclab-{tool}: " + "; ".join(probs[:3])}
            again = getattr(cli, tool)(path_in=out, path_out=d / f"{tool}_again.rtdc", ret_path=True)
            probs = _diff(_tree(out), _tree(again))
            if probs:
                return {"failed": True, "detail": f"dclab-{tool} applied to its own output changes data: " + "; ".join(probs[:3])}
        # strip options of repack remove only what was asked for
        out = cli.repack(path_in=f, path_out=d / "strip.rtdc", strip_logs=True, ret_path=True)
        t_s = _tree(out)
        probs = [p for p in _diff({k: v for k, v in t_in.items() if not k.startswith("logs/")}, t_s)]
        if probs or any(k.startswith("logs/") for k in t_s):
            return {"failed": True, "detail": "dclab-repack --strip-logs: " + "; ".join(probs[:3] or ["logs still present"])}
        # condense: scalar features (stored and computed) equal those of the input
        out = cli.condense(path_in=f, path_out=d / "cond.rtdc", ret_path=True)
        with dclab.new_dataset(f) as ds, dclab.new_dataset(out) as dc:
            for feat in ds.features_scalar:
                if feat not in dc:
                    return {"failed": True, "detail": f"dclab-condense: scalar feature '{feat}' is missing"}
                if not np.allclose(ds[feat], dc[feat], equal_nan=True, rtol=1e-12):
                    return {"failed": True, "detail": f"dclab-condense: values of '{feat}' differ"}
        if hashlib.sha256(f.read_bytes()).hexdigest() != before:
            return {"failed": True, "detail": "the input file was modified"}
        # tdms2rtdc: features equal the .tdms source
        sc = N._tdms_scenario()
        if sc is not None and inp.get("tdms", True):
            ins = sc.build(d)
            out = d / "conv.rtdc"
            tdms = [p for p in ins if p.suffix == ".tdms" and not p.name.endswith("_traces.tdms")][0]
            # condense accepts a .tdms measurement as well
            try:
                outc = cli.condense(path_in=tdms, path_out=d / "cond_tdms.rtdc", ret_path=True)
            except Exception as ex:
                return {"failed": True, "detail": f"dclab-condense of a .tdms measurement raises {type(ex).__name__}: {str(ex)[:120]}"}
            with dclab.new_dataset(tdms) as ds, dclab.new_dataset(outc) as dc:
                for feat in ds.features_scalar:
                    if feat in ds.features_loaded and (feat not in dc or not np.allclose(ds[feat], dc[feat], equal_nan=True)):
                        return {"failed": True, "detail": f"dclab-condense of a .tdms measurement: scalar feature '{feat}' is "
                                                          f"missing or differs"}
            cli.tdms2rtdc(path_tdms=tdms, path_rtdc=out, skip_initial_empty_image=False, skip_final_empty_image=False)
            with dclab.new_dataset(tdms) as ds, dclab.new_dataset(out) as dc:
                # the measurement has contours for its first events only: the export ends where they end
                n_out = len(dc)
                if n_out == 0 or n_out > len(ds):
                    return {"failed": True, "detail": f"dclab-tdms2rtdc wrote {n_out} events from a source of {len(ds)}"}
                for feat in ds.features_innate:
                    if feat in ("contour", "mask", "image", "trace"):
                        continue
                    if feat not in dc or not np.allclose(np.asarray(ds[feat])[:n_out], dc[feat], equal_nan=True):
                        return {"failed": True, "detail": f"dclab-tdms2rtdc: feature '{feat}' differs from the .tdms source"}
    return {"failed": False, "detail": "outputs are value-identical to the inputs (apart from the added command logs)"}


def _replay_basins(config):
    """basin_definition_copy on a real file holding the definitions of the configuration"""
    import json
    import pathlib
    import tempfile
    import warnings
    import h5py
    from contracts import c10_native as N
    N._import()
    from dclab.rtdc_dataset import RTDCWriter
    from dclab.rtdc_dataset.copier import basin_definition_copy
    from dclab.rtdc_dataset.fmt_hdf5 import RTDC_HDF5
    defs, feats = BasinDefinitionCopy.CONFIGS[config]
    with warnings.catch_warnings(), tempfile.TemporaryDirectory(prefix="c08b_") as td:
        warnings.simplefilter("ignore")
        d = pathlib.Path(td)
        f = N.make_rtdc(d / "in.rtdc", n=5, seed=1)
        with RTDCWriter(f, mode="append") as hw:
            for i, bn in enumerate(defs):
                hw.write_text(hw.h5file.require_group("basins"), f"key{i}", json.dumps(bn, indent=2).split("\n"))
        want = []
        for bn in defs:
            bn = dict(bn)
            if bn["type"] == "internal":
                bn["features"] = [x for x in bn["features"] if x in feats]
                if not bn["features"]:
                    continue
            want.append(bn)
        with h5py.File(f, "r") as src, h5py.File(d / "out.rtdc", "w") as dst:
            try:
                basin_definition_copy(src, dst, list(feats))
            except Exception as ex:
                return {"failed": True, "detail": f"basin_definition_copy of a file with the basins {[b['name'] for b in defs]} and the "
                                                  f"selected features {feats} raises {type(ex).__name__}: {ex}"}
            got = RTDC_HDF5.basin_get_dicts_from_h5file(dst)
        for g in got:
            g.pop("key", None)
        canon = lambda lst: sorted(json.dumps(x, sort_keys=True) for x in lst)   # noqa: E731
        if canon(got) != canon(want):
            return {"failed": True, "detail": f"basins {[b['name'] for b in defs]}, selected features {feats}: the output defines "
                                              f"{[(b.get('name'), b.get('features')) for b in got]}, expected "
                                              f"{[(b.get('name'), b.get('features')) for b in want]}"}
    return {"failed": False, "detail": "every kept basin is defined exactly once in the output"}


def in_carve_out(unit_name, inp):
    return None


def bounded_inputs(unit_name, rng):
    for s in (1, 2):
        yield {"seed": s, "tdms": s == 1}


# --------------------------------------------------------------------------
# h5ds_copy: transfer of one numeric dataset
# --------------------------------------------------------------------------
import h5py as _h5py   # noqa: E402


def _h5o_copy(interp, src_loc=None, src_name=None, dst_loc=None, dst_name=None, **kw):
    """H-COPY (h5py.h5o.copy): dst_loc[dst_name] becomes a copy of the object src_loc[src_name]"""
    models.axiom("H-COPY (HDF5 object copy keeps data and attributes)")
    sn = src_name.decode() if isinstance(src_name, bytes) else src_name
    dn = dst_name.decode() if isinstance(dst_name, bytes) else dst_name
    src = h5model._grp_getitem(interp, src_loc, sn)
    h5model.note_h5_write(interp, dst_loc, f"copy {dn}")
    interp.heap_write(dst_loc)
    c = src.fields["content"]
    cp = new_dataset(interp.ctx, SArr(c.n, c.a, c.kind, dtype=c.dtype), name=f"{dst_loc.fields['name']}/{dn}",
                     chunks=src.fields.get("chunks"), dtype=src.fields.get("dtype"),
                     attrs=new_attrs(interp.ctx, d=dict(src.fields["attrs"].fields["d"])))
    dst_loc.fields["members"][dn] = cp
    return None


models._MODELS[_h5py.h5o.copy] = _h5o_copy


class ProperlyCompressed(Contract):
    name = "is_properly_compressed"
    trusted = True

    def __call__(self, interp, h5obj):
        return interp.ctx.bool("properly_compressed", inp=True)


class H5dsCopyDataset(Contract):
    """h5ds_copy(src_loc, src_name, dst_loc, dst_name) for a numeric dataset with at least one
    entry: afterwards dst_loc[dst_name] holds the same values in the same order and the same
    attributes, whether the dataset is handed to HDF5's object copy (already compressed) or
    re-created and filled chunk by chunk / at once; the returned object is that dataset; the
    source is not written."""
    path = COP
    module = CMOD
    qualname = "h5ds_copy"
    params = ("src_loc", "src_name", "dst_loc", "dst_name", "ensure_compression", "recursive")
    native = set()

    def __init__(self, chunked):
        self.chunked = chunked
        self.name = f"h5ds_copy[numeric dataset, {'chunked' if chunked else 'contiguous'}]"
        super().__init__()
        self.callees = {"is_properly_compressed": ProperlyCompressed()}
        self.loops = {"chunk in src.iter_chunks()": LoopSpec(inv=self.inv, modifies=lambda ctx, v: [v.dst, v.dst.fields["content"]])}

    def inputs(self, ctx):
        n = ctx.int("N", lo=1, inp=True)
        content = ctx.arr("values", "F", n=n.e, inp=True, dtype=np.dtype("float64"))
        self._c0 = SArr(content.n, content.a, "F")
        c = ctx.int("chunk_length", lo=1, inp=True)
        self._amin = ctx.real("attr_min")
        src = new_dataset(ctx, content, name="/events/deform", chunks=(c,) if self.chunked else None,
                          dtype=np.dtype("float64"), attrs=new_attrs(ctx, d={"min": self._amin}))
        self._src = src
        src.realcls = _h5py.Dataset
        src_loc = new_group(ctx, members={"deform": src}, name="/events")
        dst_loc = new_group(ctx, name="/dst_events")
        src_loc.realcls = dst_loc.realcls = _h5py.Group
        self._dst_loc = dst_loc
        self._n = n.e
        return {"src_loc": src_loc, "src_name": "deform", "dst_loc": dst_loc, "dst_name": None,
                "ensure_compression": True, "recursive": True}

    def inv(self, ctx, v):
        k = z3.Int("k!hc")
        it = to_z3(v.it)
        c = to_z3(self._src.fields["chunks"][0])
        done = z3.If(c * it < self._n, c * it, self._n)
        dc = v.dst.fields["content"]
        return [("the destination has the length of the source and holds the source values of all chunks written so far",
                 z3.And(dc.n == self._n,
                        z3.ForAll([k], z3.Implies(z3.And(k >= 0, k < done), dc.sel(k) == self._c0.sel(k)))))]

    def ensures(self, ctx, old, a, result):
        from pyvc.sym import seq_eq
        d = self._dst_loc.fields["members"].get("deform")
        if d is None:
            return [("the dataset exists in the destination", z3.BoolVal(False))]
        attrs = d.fields["attrs"].fields["d"]
        return [("same values in the same order", seq_eq(d.fields["content"], self._c0)),
                ("same attributes", z3.BoolVal(set(attrs) == {"min"}) if "min" not in attrs
                 else z3.And(z3.BoolVal(set(attrs) == {"min"}), to_z3(attrs["min"], "real") == self._amin.e)),
                ("the returned object is the new dataset", z3.BoolVal(result is d)),
                ("the source keeps its values", seq_eq(self._src.fields["content"], self._c0))]


UNITS += [H5dsCopyDataset(True), H5dsCopyDataset(False)]
TRUSTED += [ProperlyCompressed()]
